#![allow(dead_code, clippy::all)]
//! stateright cross-check: the C01 system wrapped as a `stateright::Model`
//! (state = canonical bytes + a representative history, identified by the
//! canonical bytes only; `next_state` replays on the real collection) must
//! visit exactly as many unique states as the hbmc explorer.

#[path = "../../engine/src/crumbs.rs"]
mod crumbs;
#[path = "../../engine/src/env.rs"]
mod env;
#[path = "../../engine/src/explore.rs"]
mod explore;
#[path = "../../engine/src/inv.rs"]
mod inv;
#[path = "../../engine/src/keys.rs"]
mod keys;
#[path = "../../engine/src/mapentry.rs"]
mod mapentry;
#[path = "../../engine/src/mapprobes.rs"]
mod mapprobes;
#[path = "../../engine/src/mapsut.rs"]
mod mapsut;

use explore::{Harness, Limits, Stats};
use keys::*;
use mapsut::*;
use stateright::{Checker, Model, Property};
use std::hash::{Hash, Hasher};

#[derive(Clone, Debug)]
struct SrState {
    canon: Vec<u8>,
    hist: Vec<MapOp>,
    bad: Option<String>,
}
impl PartialEq for SrState {
    fn eq(&self, o: &Self) -> bool {
        self.canon == o.canon
    }
}
impl Eq for SrState {}
impl Hash for SrState {
    fn hash<H: Hasher>(&self, h: &mut H) {
        self.canon.hash(h)
    }
}

struct SrModel {
    h: MapHarness<TKey, TVal>,
}

impl Model for SrModel {
    type State = SrState;
    type Action = MapOp;
    fn init_states(&self) -> Vec<SrState> {
        let st = Stats::default();
        let sut = explore::replay(&self.h, &[], &st).unwrap();
        let canon = self.h.canon(&sut);
        self.h.finish(sut).unwrap();
        vec![SrState { canon, hist: vec![], bad: None }]
    }
    fn actions(&self, s: &SrState, actions: &mut Vec<MapOp>) {
        if s.bad.is_some() {
            return;
        }
        let st = Stats::default();
        let sut = explore::replay(&self.h, &s.hist, &st).unwrap();
        actions.extend(self.h.ops(&sut));
        self.h.finish(sut).unwrap();
    }
    fn next_state(&self, s: &SrState, a: MapOp) -> Option<SrState> {
        let st = Stats::default();
        let r = env::catch(|| -> Result<Vec<u8>, String> {
            let mut sut = explore::replay(&self.h, &s.hist, &st)?;
            self.h.apply(&mut sut, &a, true, &st)?;
            self.h.check(&mut sut)?;
            let c = self.h.canon(&sut);
            self.h.finish(sut)?;
            Ok(c)
        });
        let mut hist = s.hist.clone();
        hist.push(a);
        Some(match r {
            Ok(Ok(canon)) => SrState { canon, hist, bad: None },
            Ok(Err(m)) | Err(m) => SrState { canon: b"VIOLATION".to_vec(), hist, bad: Some(m) },
        })
    }
    fn properties(&self) -> Vec<Property<Self>> {
        vec![Property::<Self>::always("agrees with the reference model and all monitors", |_, s| s.bad.is_none())]
    }
}

fn main() {
    env::install_panic_hook();
    let w = hashbrown::verif::GROUP_WIDTH;
    let configs = [(Plan::Zero, 6u8), (Plan::Seq, 4), (Plan::Cluster(2), 5), (Plan::Max, 5)];
    let mut ok = true;
    for (plan, u) in configs {
        let mut c = MapCfg::new(plan, u);
        c.max_buckets = if w == 16 { 64 } else { 32 };
        let label = c.label();
        // hbmc explorer
        let h = MapHarness::<TKey, TVal>::new(c.clone());
        let stats = Stats::default();
        let out = explore::bfs(&h, vec![vec![]], &Limits::default(), &stats);
        assert!(out.violation.is_none(), "hbmc explorer reports a violation: {:?}", out.violation);
        // stateright
        let checker = SrModel { h: MapHarness::<TKey, TVal>::new(c) }.checker().threads(8).spawn_bfs().join();
        let sr = checker.unique_state_count();
        let discovered = checker.discoveries();
        let same = sr == out.states && discovered.is_empty();
        println!("SR-CROSS-CHECK width={w} config={label} hbmc_states={} stateright_unique_states={} discoveries={} {}", out.states, sr, discovered.len(), if same { "OK" } else { "MISMATCH" });
        ok &= same;
    }
    std::process::exit(if ok { 0 } else { 2 });
}
