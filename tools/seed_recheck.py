#!/usr/bin/env python3
"""Re-run the current checks against every stored seeded change (scratch worktree, never /repo).

  seed_recheck.py [name-prefix ...]

For each /verif/seeded/<name>: apply patch.diff to the scratch worktree, run `./check <prop> quick`
for the change's own property and for every property recorded as detecting it, and rewrite
meta.json's "checks"/"detected_by" (the confirmation fields are left as recorded).
"""
import json, os, subprocess, sys, shutil, time

# SHARD=i/n re-evaluates every n-th seed in its own scratch area (several shards can run side by side)
SHARD = os.environ.get("SHARD", "0/1")
SI, SN = (int(x) for x in SHARD.split("/"))
WT = "/tmp/wt/eval" if SN == 1 else f"/tmp/wt/recheck{SI}"
EV = WT + "-verif"
ENV = dict(os.environ, CARGO_NET_OFFLINE="true")

def run(cmd, cwd=None, timeout=7200):
    p = subprocess.run(cmd, cwd=cwd, env=ENV, shell=isinstance(cmd, str), stdout=subprocess.PIPE, stderr=subprocess.STDOUT, text=True, timeout=timeout)
    return p.returncode, p.stdout

prefixes = sys.argv[1:]
if not os.path.isdir(WT):
    run(["git", "-C", "/repo", "worktree", "add", "-q", WT, "HEAD"])
    shutil.copy("/repo/Cargo.lock", WT)
head = run(["git", "-C", "/repo", "rev-parse", "HEAD"])[1].strip()
run("git checkout -q -- . && git clean -fdq tests", cwd=WT)
run(["git", "checkout", "-q", "--detach", head], cwd=WT)
os.makedirs(EV, exist_ok=True)
run(f"rsync -a --delete --exclude .cache --exclude .git --exclude evidence --exclude replays /verif/ {EV}/")
run(f"sed -i 's#path = \"/repo\"#path = \"{WT}\"#' {EV}/engine/Cargo.toml {EV}/engine-sr/Cargo.toml")
lost = []
for idx, name in enumerate(sorted(os.listdir("/verif/seeded"))):
    if idx % SN != SI:
        continue
    d = os.path.join("/verif/seeded", name)
    if prefixes and not any(name.startswith(p) for p in prefixes):
        continue
    mp = os.path.join(d, "meta.json")
    if not os.path.exists(mp):
        continue
    meta = json.load(open(mp))
    props = [meta["property"]] + [p for p in meta.get("detected_by", []) if p != meta["property"]]
    rc, out = run(["git", "apply", os.path.join(d, "patch.diff")], cwd=WT)
    if rc != 0:
        print("PATCH DOES NOT APPLY", name, out[:200]); continue
    results = {}
    try:
        for p in props:
            t0 = time.time()
            rc, out = run(["./check", p, "quick"], cwd=EV)
            lines = out.split("\n")
            msg = ""
            for i, l in enumerate(lines):
                if l.startswith("VIOLATION"):
                    msg = (lines[i + 1].strip() if i + 1 < len(lines) else "")[:300]
                    break
            mach = [l for l in lines if "MACHINERY" in l][:2]
            results[p] = {"exit": rc, "message": msg, "machinery": mach, "wall_s": round(time.time() - t0, 1)}
    finally:
        run("git checkout -q -- .", cwd=WT)
    old = meta.get("detected_by", [])
    new = [p for p, r in results.items() if r["exit"] == 1]
    meta["checks"] = results
    meta["detected_by"] = new
    meta["rechecked"] = time.strftime("%Y-%m-%d %H:%M:%S")
    json.dump(meta, open(mp, "w"), indent=1)
    flag = "" if set(old) <= set(new) else f"  LOST {sorted(set(old) - set(new))}"
    if flag:
        lost.append(name)
    print(f"RECHECK {name} detected_by {new}{flag}", flush=True)
print("lost detections:", lost)
