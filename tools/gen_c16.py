#!/usr/bin/env python3
"""Generates engine/src/props/c16_table.rs: Send/Sync truth tables of every public
type for all 4^n witness instantiations (const-dispatch probe, compiles on any tree)."""
import itertools, os

hm = "hashbrown::hash_map"
hs = "hashbrown::hash_set"
ht = "hashbrown::hash_table"
F2 = "fn(&K, &mut V) -> bool"
F1 = "fn(&K) -> bool"
F1M = "fn(&mut K) -> bool"

# (display name, type expression over K V S A, kind, accessible params)
# kind: shared  -> Send only if accessible contents are Sync
#       mutable -> Send only if accessible contents are Send
#       owning  -> Send only if accessible contents are Send
# Sync is allowed only if accessible contents are Sync (all kinds).
T = [
 ("HashMap", "hashbrown::HashMap<K, V, S, A>", "owning", "KVSA"),
 ("hash_map::Iter", f"{hm}::Iter<'static, K, V>", "shared", "KV"),
 ("hash_map::Keys", f"{hm}::Keys<'static, K, V>", "shared", "K"),
 ("hash_map::Values", f"{hm}::Values<'static, K, V>", "shared", "V"),
 ("hash_map::IterMut", f"{hm}::IterMut<'static, K, V>", "mutable", "k*V"),
 ("hash_map::ValuesMut", f"{hm}::ValuesMut<'static, K, V>", "mutable", "V"),
 ("hash_map::IntoIter", f"{hm}::IntoIter<K, V, A>", "owning", "KVA"),
 ("hash_map::IntoKeys", f"{hm}::IntoKeys<K, V, A>", "owning", "KVA"),
 ("hash_map::IntoValues", f"{hm}::IntoValues<K, V, A>", "owning", "KVA"),
 ("hash_map::Drain", f"{hm}::Drain<'static, K, V, A>", "mutable", "KV"),
 ("hash_map::ExtractIf", f"{hm}::ExtractIf<'static, K, V, {F2}, A>", "mutable", "KV"),
 ("hash_map::Entry", f"{hm}::Entry<'static, K, V, S, A>", "mutable", "KVSA"),
 ("hash_map::OccupiedEntry", f"{hm}::OccupiedEntry<'static, K, V, S, A>", "mutable", "KVSA"),
 ("hash_map::VacantEntry", f"{hm}::VacantEntry<'static, K, V, S, A>", "mutable", "KVSA"),
 ("hash_map::EntryRef", f"{hm}::EntryRef<'static, 'static, K, K, V, S, A>", "mutable", "KVSA"),
 ("hash_map::VacantEntryRef", f"{hm}::VacantEntryRef<'static, 'static, K, K, V, S, A>", "mutable", "KVSA"),
 ("hash_map::OccupiedError", f"{hm}::OccupiedError<'static, K, V, S, A>", "mutable", "KVSA"),
 ("hash_map::RawEntryBuilder", f"{hm}::RawEntryBuilder<'static, K, V, S, A>", "shared", "KVSA"),
 ("hash_map::RawEntryBuilderMut", f"{hm}::RawEntryBuilderMut<'static, K, V, S, A>", "mutable", "KVSA"),
 ("hash_map::RawEntryMut", f"{hm}::RawEntryMut<'static, K, V, S, A>", "mutable", "KVs*A"),
 ("hash_map::RawOccupiedEntryMut", f"{hm}::RawOccupiedEntryMut<'static, K, V, S, A>", "mutable", "KVs*A"),
 ("hash_map::RawVacantEntryMut", f"{hm}::RawVacantEntryMut<'static, K, V, S, A>", "mutable", "KVs*A"),
 ("hash_map::RustcEntry", f"{hm}::RustcEntry<'static, K, V, A>", "mutable", "KVA"),
 ("hash_map::RustcOccupiedEntry", f"{hm}::RustcOccupiedEntry<'static, K, V, A>", "mutable", "KVA"),
 ("hash_map::RustcVacantEntry", f"{hm}::RustcVacantEntry<'static, K, V, A>", "mutable", "KVA"),
 ("hash_map::rayon::ParIter", f"{hm}::rayon::ParIter<'static, K, V>", "shared", "KV"),
 ("hash_map::rayon::ParKeys", f"{hm}::rayon::ParKeys<'static, K, V>", "shared", "K"),
 ("hash_map::rayon::ParValues", f"{hm}::rayon::ParValues<'static, K, V>", "shared", "V"),
 ("hash_map::rayon::ParIterMut", f"{hm}::rayon::ParIterMut<'static, K, V>", "mutable", "k*V"),
 ("hash_map::rayon::ParValuesMut", f"{hm}::rayon::ParValuesMut<'static, K, V>", "mutable", "V"),
 ("hash_map::rayon::IntoParIter", f"{hm}::rayon::IntoParIter<K, V, A>", "owning", "KVA"),
 ("hash_map::rayon::ParDrain", f"{hm}::rayon::ParDrain<'static, K, V, A>", "mutable", "KV"),
 ("HashSet", "hashbrown::HashSet<K, S, A>", "owning", "KSA"),
 ("hash_set::Iter", f"{hs}::Iter<'static, K>", "shared", "K"),
 ("hash_set::IntoIter", f"{hs}::IntoIter<K, A>", "owning", "KA"),
 ("hash_set::Drain", f"{hs}::Drain<'static, K, A>", "mutable", "K"),
 ("hash_set::ExtractIf", f"{hs}::ExtractIf<'static, K, {F1}, A>", "mutable", "K"),
 ("hash_set::Intersection", f"{hs}::Intersection<'static, K, S, A>", "shared", "KSA"),
 ("hash_set::Difference", f"{hs}::Difference<'static, K, S, A>", "shared", "KSA"),
 ("hash_set::SymmetricDifference", f"{hs}::SymmetricDifference<'static, K, S, A>", "shared", "KSA"),
 ("hash_set::Union", f"{hs}::Union<'static, K, S, A>", "shared", "KSA"),
 ("hash_set::Entry", f"{hs}::Entry<'static, K, S, A>", "mutable", "KSA"),
 ("hash_set::OccupiedEntry", f"{hs}::OccupiedEntry<'static, K, S, A>", "mutable", "KSA"),
 ("hash_set::VacantEntry", f"{hs}::VacantEntry<'static, K, S, A>", "mutable", "KSA"),
 ("hash_set::rayon::ParIter", f"{hs}::rayon::ParIter<'static, K>", "shared", "K"),
 ("hash_set::rayon::IntoParIter", f"{hs}::rayon::IntoParIter<K, A>", "owning", "KA"),
 ("hash_set::rayon::ParDrain", f"{hs}::rayon::ParDrain<'static, K, A>", "mutable", "K"),
 ("hash_set::rayon::ParUnion", f"{hs}::rayon::ParUnion<'static, K, S, A>", "shared", "KSA"),
 ("hash_set::rayon::ParIntersection", f"{hs}::rayon::ParIntersection<'static, K, S, A>", "shared", "KSA"),
 ("hash_set::rayon::ParDifference", f"{hs}::rayon::ParDifference<'static, K, S, A>", "shared", "KSA"),
 ("hash_set::rayon::ParSymmetricDifference", f"{hs}::rayon::ParSymmetricDifference<'static, K, S, A>", "shared", "KSA"),
 ("HashTable", "hashbrown::HashTable<K, A>", "owning", "KA"),
 ("hash_table::Iter", f"{ht}::Iter<'static, K>", "shared", "K"),
 ("hash_table::IterMut", f"{ht}::IterMut<'static, K>", "mutable", "K"),
 ("hash_table::IterHash", f"{ht}::IterHash<'static, K>", "shared", "K"),
 ("hash_table::IterHashMut", f"{ht}::IterHashMut<'static, K>", "mutable", "K"),
 ("hash_table::IntoIter", f"{ht}::IntoIter<K, A>", "owning", "KA"),
 ("hash_table::Drain", f"{ht}::Drain<'static, K, A>", "mutable", "K"),
 ("hash_table::ExtractIf", f"{ht}::ExtractIf<'static, K, {F1M}, A>", "mutable", "K"),
 ("hash_table::Entry", f"{ht}::Entry<'static, K, A>", "mutable", "KA"),
 ("hash_table::OccupiedEntry", f"{ht}::OccupiedEntry<'static, K, A>", "mutable", "KA"),
 ("hash_table::VacantEntry", f"{ht}::VacantEntry<'static, K, A>", "mutable", "KA"),
 ("hash_table::AbsentEntry", f"{ht}::AbsentEntry<'static, K, A>", "mutable", "KA"),
 ("hash_table::rayon::ParIter", f"{ht}::rayon::ParIter<'static, K>", "shared", "K"),
 ("hash_table::rayon::ParIterMut", f"{ht}::rayon::ParIterMut<'static, K>", "mutable", "K"),
 ("hash_table::rayon::IntoParIter", f"{ht}::rayon::IntoParIter<K, A>", "owning", "KA"),
 ("hash_table::rayon::ParDrain", f"{ht}::rayon::ParDrain<'static, K, A>", "mutable", "K"),
]
W = ["SS", "SO", "YO", "NN"]          # Send+Sync, Send only, Sync only, neither
AW = ["ASS", "ASO", "AYO", "ANN"]     # allocator witnesses
out = []
out.append("// @generated by tools/gen_c16.py - do not edit\n")
out.append("pub const ROWS: &[Row] = &[\n")
import re
def uses(expr, p):
    return re.search(r'\b%s\b' % p, expr) is not None
for name, expr, kind, acc in T:
    params = [p for p in "KVSA" if uses(expr, p)]
    for combo in itertools.product(range(4), repeat=len(params)):
        m = dict(zip(params, combo))
        ty = expr
        for p in params:
            w = AW[m[p]] if p == "A" else W[m[p]]
            ty = re.sub(r'\b%s\b' % p, w, ty)
        idx = [m.get(p, 255) for p in "KVSA"]
        out.append(f'    Row {{ name: "{name}", kind: Kind::{kind.capitalize()}, acc: "{acc}", w: [{idx[0]}, {idx[1]}, {idx[2]}, {idx[3]}], send: <P<{ty}>>::IS_SEND, sync: <P<{ty}>>::IS_SYNC }},\n')
out.append("];\n")
path = os.path.join(os.path.dirname(os.path.dirname(os.path.abspath(__file__))), "engine/src/props/c16_table.rs")
open(path, "w").write("".join(out))
print("rows:", sum(1 for l in out if l.startswith("    Row")))
