#!/usr/bin/env python3
"""Regenerates the seeded-change table in DESIGN.md (between the SEEDED-TABLE markers)
from /verif/seeded/*/meta.json and notes.md."""
import glob, json, os, re
V = os.path.dirname(os.path.dirname(os.path.abspath(__file__)))
rows = []
for d in sorted(glob.glob(os.path.join(V, "seeded", "*"))):
    name = os.path.basename(d)
    m = json.load(open(os.path.join(d, "meta.json")))
    first = ""
    np = os.path.join(d, "notes.md")
    if os.path.exists(np):
        for l in open(np):
            l = l.strip()
            if l and not l.startswith("```"):
                first = re.sub(r"^#+\s*", "", l)
                first = re.sub(r"^C\d\d\s*/\s*(r2)?m\d\s*[—-]+\s*", "", first)
                break
    det = m.get("detected_by") or []
    own = m.get("property") in det
    rows.append((name, m.get("property"), first[:150].replace("|", "/"), ", ".join(det) if det else "**none**", "yes" if own else ("no" if det else "**no**")))
out = ["| seeded change (directory under `seeded/`) | breaks | what it is | caught by (quick tier) | by its own property's check |", "|---|---|---|---|---|"]
for r in rows:
    out.append(f"| {r[0]} | {r[1]} | {r[2]} | {r[3]} | {r[4]} |")
tbl = "\n".join(out)
p = os.path.join(V, "DESIGN.md")
s = open(p).read()
a, b = "<!-- SEEDED-TABLE-BEGIN -->", "<!-- SEEDED-TABLE-END -->"
if a in s:
    s = s[: s.index(a) + len(a)] + "\n" + tbl + "\n" + s[s.index(b):]
    open(p, "w").write(s)
print(len(rows), "rows;", sum(1 for r in rows if r[3] == "**none**"), "undetected")
