#!/usr/bin/env python3
"""Confirm a seeded change in a scratch worktree and run checks against it.

  seed_eval.py <Cxx> <dir with patch.diff + demo.rs> <name> [extra props...]

1. scratch worktree: patch applies, baseline suite passes with it, demo fails with it and passes without;
2. /repo: apply, run ./check <props> quick, undo;
3. if confirmed, store under /verif/seeded/<name>/ (patch.diff, demo.rs, notes.md, meta.json).
"""
import json, os, subprocess, sys, shutil, time

args = [a for a in sys.argv[1:] if not a.startswith("--")]
PORTABLE_DEMO = "--portable-demo" in sys.argv
prop, src, name = args[0], args[1], args[2]
extra = args[3:]
WT = "/tmp/wt/eval"
ENV = dict(os.environ, CARGO_NET_OFFLINE="true", VERIF_EVIDENCE_DIR="/tmp/wt/eval-evidence", VERIF_REPLAYS_DIR="/tmp/wt/eval-replays")
FEATURES = "rayon,serde,rustc-internal-api,verif-hooks"

def run(cmd, cwd=None, timeout=3600):
    p = subprocess.run(cmd, cwd=cwd, env=ENV, shell=isinstance(cmd, str), stdout=subprocess.PIPE, stderr=subprocess.STDOUT, text=True, timeout=timeout)
    return p.returncode, p.stdout

if not os.path.isdir(WT):
    run(["git", "-C", "/repo", "worktree", "add", "-q", WT, "HEAD"])
    shutil.copy("/repo/Cargo.lock", WT)
run("git checkout -q -- . && git clean -fdq tests", cwd=WT)
head = run(["git", "-C", "/repo", "rev-parse", "HEAD"])[1].strip()
run(["git", "checkout", "-q", "--detach", head], cwd=WT)
patch = os.path.join(src, "patch.diff")
demo = os.path.join(src, "demo.rs")
meta = {"property": prop, "name": name, "demo_built_with_portable_scanner": PORTABLE_DEMO, "repo_head": head, "time": time.strftime("%Y-%m-%d %H:%M:%S")}
rc, out = run(["git", "apply", "--check", patch], cwd=WT)
if rc != 0:
    print("PATCH DOES NOT APPLY:", out); sys.exit(3)
run(["git", "apply", patch], cwd=WT)
rc, out = run("cargo nextest run --workspace --no-fail-fast --offline 2>&1 | tail -5", cwd=WT)
meta["baseline_with_change"] = out.strip().split("\n")[-1]
base_ok = "109 passed" in out and "failed" not in out.split("Summary")[-1]
print("baseline with change:", meta["baseline_with_change"])
shutil.copy(demo, os.path.join(WT, "tests", "zz_demo.rs"))
def demo_run():
    pre = ""
    if PORTABLE_DEMO:
        # build the crate with its portable (8-byte) group scanner: --cfg miri for crate hashbrown only
        pre = "RUSTC_WRAPPER=/verif/engine/rustc-wrap.sh CARGO_TARGET_DIR=/tmp/wt/eval/target-portable "
    rc, out = run(f"{pre}cargo test --offline --features {FEATURES} --test zz_demo 2>&1 | tail -25", cwd=WT, timeout=1800)
    ok = "test result: ok" in out and "FAILED" not in out and not any(x in out.split("test result")[0][-300:] for x in ("error:", "error["))
    return ok, out
ok_with, out_with = demo_run()
run("git checkout -q -- src", cwd=WT)
ok_without, out_without = demo_run()
os.remove(os.path.join(WT, "tests", "zz_demo.rs"))
meta["demo_fails_with_change"] = not ok_with
meta["demo_passes_without_change"] = ok_without
print("demo with change passes:", ok_with, "| demo without change passes:", ok_without)
if not ok_without:
    print(out_without[-1500:])
confirmed = base_ok and (not ok_with) and ok_without
meta["confirmed"] = confirmed
# run the checks against the changed tree WITHOUT touching /repo: a scratch copy of /verif whose
# harness crates depend on the scratch worktree instead of /repo (so that long runs that use /repo
# are not disturbed); the registered commands themselves always build from /repo
results = {}
EV = "/tmp/wt/eval-verif"
os.makedirs(EV, exist_ok=True)
run(f"rsync -a --delete --exclude .cache --exclude .git --exclude evidence --exclude replays /verif/ {EV}/")
run(f"sed -i 's#path = \"/repo\"#path = \"{WT}\"#' {EV}/engine/Cargo.toml {EV}/engine-sr/Cargo.toml")
run(["git", "apply", patch], cwd=WT)
ENV.pop("VERIF_EVIDENCE_DIR", None)
ENV.pop("VERIF_REPLAYS_DIR", None)
try:
    for p in [prop] + extra:
        t0 = time.time()
        rc, out = run(["./check", p, "quick"], cwd=EV, timeout=7200)
        viol = [l for l in out.split("\n") if l.startswith("VIOLATION") or l.startswith("  ") and "VIOLATION" not in l and l.strip()]
        msg = ""
        lines = out.split("\n")
        for i, l in enumerate(lines):
            if l.startswith("VIOLATION"):
                msg = (lines[i + 1].strip() if i + 1 < len(lines) else "")[:300]
                break
        mach = [l for l in lines if "MACHINERY" in l][:2]
        results[p] = {"exit": rc, "message": msg, "machinery": mach, "wall_s": round(time.time() - t0, 1)}
        print(f"check {p}: exit {rc} {msg[:160]} {mach[:1]}")
finally:
    run("git checkout -q -- .", cwd=WT)
meta["checks"] = results
meta["detected_by"] = [p for p, r in results.items() if r["exit"] == 1]
dst = os.path.join("/verif/seeded", name)
if confirmed:
    os.makedirs(dst, exist_ok=True)
    shutil.copy(patch, os.path.join(dst, "patch.diff"))
    shutil.copy(demo, os.path.join(dst, "demo.rs"))
    if os.path.exists(os.path.join(src, "notes.md")):
        shutil.copy(os.path.join(src, "notes.md"), os.path.join(dst, "notes.md"))
    json.dump(meta, open(os.path.join(dst, "meta.json"), "w"), indent=1)
    print("stored in", dst)
else:
    print("NOT CONFIRMED, not stored:", json.dumps(meta)[:600])
print("RESULT", name, "confirmed" if confirmed else "unconfirmed", "detected_by", meta["detected_by"])
