#!/usr/bin/env python3
"""Regenerates /verif/MANIFEST.json from the table below (kept valid at all times)."""
import json, os, subprocess

V = os.path.dirname(os.path.dirname(os.path.abspath(__file__)))
props = [json.loads(l) for l in open(os.path.join(V, "properties.jsonl"))]

# id -> (category, technique, text, note, design_ref)
CLAIMED = {
    "C01": ("model_checking",
            "explicit-state BFS of the real HashMap to a fixpoint, against an association-list model",
            "Every operation history of any length over a bounded key universe (closed search to a fixpoint, both group back-ends, hash plans from all-colliding to one-key-per-bucket, plus depth-bounded searches around scripted full/tombstoned seeds) is executed on the real HashMap; every return value, the full contents, every lookup through both key forms and the structure invariants S1-S9 are compared in every state. A fixpoint covers histories of unbounded length, which no test can sample.",
            "Bounded key universe and hash-plan grid; tables up to 64 buckets; symmetry reduction justified by parametricity (DESIGN 3.7).",
            "5 (C01)"),
    "C02": ("model_checking",
            "explicit-state BFS over element-layout grid x collections with memory monitors and leak probes in every state",
            "For 9 element layouts (size 0..200, align 1..64, with and without drop glue) x HashSet/HashMap/HashTable, every history of the core alphabet is explored to a fixpoint and in every state every iterator/drain/extract_if/into_iter/entry is advanced j steps (all j) and mem::forget-ten, after which the collection must still be valid, usable and droppable. Memory safety is decided by the structure invariants that the unsafe core's SAFETY comments rely on (items == FULL bytes, an EMPTY byte exists, mirror bytes), a checking allocator (red zones, poison, quarantine, layout and alignment checks), padding/alignment integrity of every yielded element and a live-element registry, with debug assertions and std's UB precondition checks on.",
            "UB that changes no invariant and trips no monitor is invisible to the quick tier (thorough adds an AddressSanitizer run of the same exploration); panicking callbacks are C04's part.",
            "5 (C02)"),
    "C03": ("model_checking",
            "explicit-state BFS with element registry and allocator ledger; consumption-cut probes in every state",
            "Closed searches with tracked keys and values over the full HashMap alphabet (overwrite, remove, clear, retain, shrink, clone_from into empty/smaller/same/bigger/tombstoned targets, from_iter), the HashTable alphabet (extract_if/drain cut at 0, 1, all) and 200-byte drop-glue elements in all three collections; in every state every owning iterator is consumed to every cut point and dropped, and every predicate subset is applied to retain/extract_if. Every run ends by dropping the collection and requires the registry (each element dropped or handed out exactly once) and the allocator ledger (each block returned once with its layout, nothing outstanding) to balance.",
            "Bounded universes; drop order is not checked, only exactly-once.",
            "5 (C03)"),
    "C04": ("fault_enumeration",
            "exhaustive single-fault injection (every callback class x every k) over model-checked states of the real HashMap",
            "For every state of a closed (or seeded) explicit-state search, every operation of the full HashMap alphabet and every k, the k-th invocation of each user-callback class (Hash, BuildHasher, Eq/Equivalent, Clone, Drop, closures, Into, extend-iterator next, Default) panics; after catch_unwind the structure invariants, len == yielded == found, present-or-dropped-exactly-once (element registry), contents-unchanged on a hasher panic after a new allocation, a follow-up script and the final drop with allocator/registry ledgers are checked. Tracked and drop-glue-free element flavours, both back-ends; states with growth_left == 0 and tombstones (in-place rehash) are required to be covered.",
            "One fault per operation; panics inside BuildHasher::clone are outside the alphabet; bounded universes/seeds as listed in the evidence.",
            "5 (C04), 10"),
    "C06": ("model_checking",
            "explicit-state BFS of the real HashTable to a fixpoint, against a multiset model",
            "Closed search over insert_unique (duplicates allowed), find/find_mut, find_entry+remove(+re-insert through the returned VacantEntry), entry with all its paths, retain, extract_if and drain at several cut points, clear, reserve, shrink, clone; in every state the multiset model, find for every id, and iter_hash/iter_hash_mut for every hash of the plan (superset of the elements inserted with it, nothing twice) and S1-S9 are checked.",
            "Bounded universe / multiplicity <= 2 / table length bound; hash plans incl. adversarial (position, tag) grid.",
            "5 (C06)"),
    "C07": ("model_checking",
            "explicit-state BFS of single HashSets + exhaustive all-ordered-pairs check of visited states against BTreeSet algebra",
            "Single sets: closed search over insert/replace/take/get_or_insert/get_or_insert_with (lawful and non-equivalent constructor)/entry/remove/extend/retain with set-model comparison. Pairs: for ALL ordered pairs (A, B) of visited states (no symmetry reduction; different layouts, capacities, tombstones; also differently seeded hashers), union/intersection/difference/symmetric_difference (next and fold, size_hint against the true remaining count), is_subset/is_superset/is_disjoint/==, the operators | & ^ - and the assigning forms are compared with the mathematical result and S1-S9.",
            "Key universe <= 5 for pairs (all subsets occur), bounded state lists as stated in evidence.",
            "5 (C07)"),
    "C08": ("model_checking",
            "explicit-state BFS with a counting allocator; capacity probes in every visited state",
            "In every visited state: fill with capacity()-len() fresh keys requiring zero allocator calls; reserve(n) for all n up to 4*capacity and boundary values; shrink_to(m) for all m up to capacity+1 and large values with the four-clause contract; shrink_to_fit; clear/drain keep the block; allocation_size() equals the ledger in every state; constructors for all n <= 4096 and boundaries never allocate for 0.",
            "HashMap instantiations (tracked and plain elements); HashSet/HashTable share the same RawTable paths and are covered through C02/C06 ledgers (allocation_size == ledger in every state).",
            "5 (C08)"),
    "C09": ("model_checking",
            "explicit-state BFS; iterator probes (every kind x every prefix x next/fold/for_each/clone) in every visited state",
            "In every visited state every iterator kind of HashMap (iter, iter_mut, keys, values, values_mut, into_iter, into_keys, into_values, drain, &map/&mut map IntoIterator) is driven j steps for every j in 0..=len+2 and finished by next/fold/for_each, with size_hint and len checked at every step, None-forever, clone-continues-independently and Default-is-empty; multiset equality with the model.",
            "HashTable iterators are probed in C03's table configuration; HashSet iterators are thin wrappers over the map's.",
            "5 (C09)"),
    "C10": ("model_checking",
            "explicit-state BFS; every subset of stored elements as predicate for retain/extract_if, every early-drop point, in every visited state",
            "For every visited state with len <= bound, ALL 2^len predicates for retain and extract_if (with mutation through &mut), every early-drop point of extract_if and drain; predicate call counts, kept/removed/yielded sets, persistence of mutations, allocation kept, S1-S9 (S5 = no probe chain cut by removal during iteration) afterwards.",
            "HashMap; HashTable's retain/extract_if/drain cuts are operations of C06's alphabet.",
            "5 (C10)"),
    "C11": ("model_checking",
            "exhaustive all-ordered-pairs (target, source) check over visited HashMap states",
            "For all ordered pairs of visited states (unreduced, incl. unallocated, different bucket counts, tombstoned): == both ways vs the mathematical answer (also with normalised values, a perturbed value and differently seeded hashers), clone_from(target <- source) equals source, owns fresh element instances, old target elements dropped exactly once (ledgers), mutations of either side do not affect the other, clone() equals source.",
            "Universe 4-5 keys; tracked elements.",
            "5 (C11)"),
    "C12": ("fault_enumeration",
            "allocator-refusal enumeration and boundary-amount enumeration over model-checked states",
            "In every visited state, try_reserve(additional) for all small amounts, all 7/8*2^k boundaries, isize::MAX, usize::MAX and size-relative boundaries, under a serving allocator (refusing > 1 MiB) and one refusing the next request: never panics, Ok implies capacity, CapacityOverflow exactly when u128 reference arithmetic overflows, AllocError carries exactly the refused layout, every requested layout is valid, and after an error the table dump, contents and live allocations are identical.",
            "Two element layouts (20-byte tracked pair, 16-byte plain pair).",
            "5 (C12)"),
    "C13": ("model_checking",
            "explicit-state BFS to a REQUIRED fixpoint of all insert/remove interleavings with bounded live size",
            "The closed space of all insert/remove interleavings with at most n live elements and n+1 keys per class (= unbounded key supply by symmetry) must reach a fixpoint with the bucket count never above 4x that of with_capacity(n); S2 free-slot accounting and lookups of absent keys of every class in every state under a per-call watchdog with the probe-length debug assertion live; mechanism counters for in-place rehash, tombstone reuse and erase-to-EMPTY must be non-zero. SSE2 adds depth-bounded searches around tombstone-saturated seeds.",
            "n up to 8-19; plans ZERO, CLUSTER, SEQ.",
            "5 (C13)"),
    "C14": ("model_checking",
            "explicit-state BFS whose alphabet contains every entry-style API path, against the association-list model",
            "entry, entry_ref, raw_entry_mut (from_key, from_key_hashed_nocheck, from_hash) with all insert/or_insert/and_modify/and_replace/insert_key/remove/replace paths and vacant insert variants, rustc_entry with all its paths, and unused drops are operations of a closed search (plus seeds at full load with and without tombstones); discriminant, returned values and resulting contents are compared with the model's plain get/insert/remove, S2 catches a no-grow insert without room.",
            "HashSet::entry is covered in C07's single-set search.",
            "5 (C14)"),
    "C15": ("model_checking",
            "explicit-state BFS; all N-tuples (N=0..4) of keys for the multi-borrow APIs in every visited state",
            "In every visited state all N-tuples (N <= 4) of present keys plus an absent key per class for HashMap::get_many_mut/get_many_key_value_mut and HashTable::get_many_mut (also with unlawful equality closures matching id sets): results in request order, pairwise distinct addresses, panic iff two requests resolve to one entry, sentinel writes land exactly in the requested entries.",
            "Zero-sized values excluded (DESIGN section 9 note 4).",
            "5 (C15)"),
}
NOT_YET = "check not built yet in this revision of /verif (work in progress; see DESIGN.md section 5 for the planned model-checking design)"

hooks_commits = subprocess.run(["git", "-C", "/repo", "log", "--format=%H %s"], stdout=subprocess.PIPE, text=True).stdout.strip().split("\n")
hook_shas = [l.split()[0] for l in hooks_commits if "verif-hooks" in l]

m = {
    "version": 1,
    "setup_cmd": "./check --setup",
    "hooks": {
        "guard": "cargo feature `verif-hooks` of the hashbrown crate",
        "enable": "the harness crate /verif/engine depends on hashbrown by path (/repo) with features = [\"verif-hooks\", \"rayon\", \"serde\", \"rustc-internal-api\", \"raw-entry\"]; the portable build adds --cfg miri for crate hashbrown only via RUSTC_WRAPPER=/verif/engine/rustc-wrap.sh",
        "baseline_off_cmd": "cd /repo && cargo nextest run --workspace --no-fail-fast --tool-config-file pb:/w/lib/nextest.toml --profile pb --test-threads 8 --offline || (cd /repo && cargo test --workspace --no-fail-fast --offline)",
        "source_commits": hook_shas,
        "add_only": True,
    },
    "engines": [
        {"name": "hbmc", "path": "engine/", "serves_properties": sorted(CLAIMED.keys()),
         "kind_free_text": "explicit-state / fault / choice enumeration explorer over the real hashbrown collections (Rust), driven by ./check"},
    ],
    "checks": [],
    "not_applicable": [],
    "notes": "All checks: `./check Cxx quick|thorough` from /verif; exit 0 held, 1 VIOLATION, 2 machinery failure. Replays: `./check --replay <file>`.",
}
for p in props:
    pid = p["id"]
    if pid in CLAIMED:
        cat, tech, text, note, ref = CLAIMED[pid]
        m["checks"].append({
            "property_id": pid,
            "quick_cmd": f"./check {pid} quick",
            "thorough_cmd": f"./check {pid} thorough",
            "evidence_file": f"evidence/{pid}.json",
            "replay_cmd_template": "./check --replay {path}",
            "engine": "hbmc",
            "level_claimed": {"category": cat, "text": text, "design_ref": f"DESIGN.md section {ref}"},
            "level_note": note,
            "technique": tech,
        })
    else:
        m["not_applicable"].append({"property_id": pid, "reason": NOT_YET})
json.dump(m, open(os.path.join(V, "MANIFEST.json"), "w"), indent=1)
print("claimed:", sorted(CLAIMED), "not_applicable:", len(m["not_applicable"]))
