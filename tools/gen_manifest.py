#!/usr/bin/env python3
"""Regenerates /verif/MANIFEST.json from the table below (kept valid at all times)."""
import json, os, subprocess

V = os.path.dirname(os.path.dirname(os.path.abspath(__file__)))
props = [json.loads(l) for l in open(os.path.join(V, "properties.jsonl"))]

# id -> (category, technique, text, note, design_ref)
CLAIMED = {
    "C01": ("model_checking",
            "explicit-state BFS of the real HashMap to a fixpoint, against an association-list model",
            "Every operation history of any length over a bounded key universe (closed search to a fixpoint, both group back-ends, hash plans from all-colliding to one-key-per-bucket) is executed on the real HashMap; every return value, the full contents, every lookup through both key forms and the structure invariants S1-S9 are compared in every state. A fixpoint covers histories of unbounded length, which no test can sample.",
            "Bounded key universe and hash-plan grid; tables up to 64 buckets; symmetry reduction justified by parametricity (DESIGN 3.7).",
            "5 (C01)"),
    "C04": ("fault_enumeration",
            "exhaustive single-fault injection (every callback class x every k) over model-checked states of the real HashMap",
            "For every state of a closed (or seeded) explicit-state search, every operation of the full HashMap alphabet and every k, the k-th invocation of each user-callback class (Hash, BuildHasher, Eq/Equivalent, Clone, Drop, closures, Into, extend-iterator next, Default) panics; after catch_unwind the structure invariants, len == yielded == found, present-or-dropped-exactly-once (element registry), contents-unchanged on a hasher panic after a new allocation, a follow-up script and the final drop with allocator/registry ledgers are checked. Tracked and drop-glue-free element flavours, both back-ends; states with growth_left == 0 and tombstones (in-place rehash) are required to be covered.",
            "One fault per operation; panics inside BuildHasher::clone are outside the alphabet; bounded universes/seeds as listed in the evidence.",
            "5 (C04), 10"),
}
NOT_YET = "check not built yet in this revision of /verif (work in progress; see DESIGN.md section 5 for the planned model-checking design)"

hooks_commits = subprocess.run(["git", "-C", "/repo", "log", "--format=%H %s"], stdout=subprocess.PIPE, text=True).stdout.strip().split("\n")
hook_shas = [l.split()[0] for l in hooks_commits if "verif-hooks" in l]

m = {
    "version": 1,
    "setup_cmd": "./check --setup",
    "hooks": {
        "guard": "cargo feature `verif-hooks` of the hashbrown crate",
        "enable": "the harness crate /verif/engine depends on hashbrown by path (/repo) with features = [\"verif-hooks\", \"rayon\", \"serde\", \"rustc-internal-api\", \"raw-entry\"]; the portable build adds --cfg miri for crate hashbrown only via RUSTC_WRAPPER=/verif/engine/rustc-wrap.sh",
        "baseline_off_cmd": "cd /repo && cargo nextest run --workspace --no-fail-fast --tool-config-file pb:/w/lib/nextest.toml --profile pb --test-threads 8 --offline || (cd /repo && cargo test --workspace --no-fail-fast --offline)",
        "source_commits": hook_shas,
        "add_only": True,
    },
    "engines": [
        {"name": "hbmc", "path": "engine/", "serves_properties": sorted(CLAIMED.keys()),
         "kind_free_text": "explicit-state / fault / choice enumeration explorer over the real hashbrown collections (Rust), driven by ./check"},
    ],
    "checks": [],
    "not_applicable": [],
    "notes": "All checks: `./check Cxx quick|thorough` from /verif; exit 0 held, 1 VIOLATION, 2 machinery failure. Replays: `./check --replay <file>`.",
}
for p in props:
    pid = p["id"]
    if pid in CLAIMED:
        cat, tech, text, note, ref = CLAIMED[pid]
        m["checks"].append({
            "property_id": pid,
            "quick_cmd": f"./check {pid} quick",
            "thorough_cmd": f"./check {pid} thorough",
            "evidence_file": f"evidence/{pid}.json",
            "replay_cmd_template": "./check --replay {path}",
            "engine": "hbmc",
            "level_claimed": {"category": cat, "text": text, "design_ref": f"DESIGN.md section {ref}"},
            "level_note": note,
            "technique": tech,
        })
    else:
        m["not_applicable"].append({"property_id": pid, "reason": NOT_YET})
json.dump(m, open(os.path.join(V, "MANIFEST.json"), "w"), indent=1)
print("claimed:", sorted(CLAIMED), "not_applicable:", len(m["not_applicable"]))
