#!/bin/sh
# RUSTC_WRAPPER: select hashbrown's portable (generic.rs, 8-byte) group
# back-end by passing `--cfg miri` to the hashbrown crate only.
rustc="$1"; shift
case " $* " in
  *" --crate-name hashbrown "*) exec "$rustc" "$@" --cfg miri ;;
  # the harness itself learns which build it is (the group width alone does not say)
  *" --crate-name hbmc "*|*" --crate-name hbmc_sr "*|*" --crate-name hbmc-sr "*) exec "$rustc" "$@" --cfg hbmc_portable ;;
  *) exec "$rustc" "$@" ;;
esac
