#!/bin/sh
# RUSTC_WRAPPER: select hashbrown's portable (generic.rs, 8-byte) group
# back-end by passing `--cfg miri` to the hashbrown crate only.
rustc="$1"; shift
case " $* " in
  *" --crate-name hashbrown "*) exec "$rustc" "$@" --cfg miri ;;
  *) exec "$rustc" "$@" ;;
esac
