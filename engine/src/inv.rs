//! Structure invariants S1–S9 over the hook's table dump.

use hashbrown::verif::{self, TableDump};

pub const EMPTY: u8 = 0xFF;
pub const DELETED: u8 = 0x80;

#[inline]
pub fn is_full(c: u8) -> bool {
    c & 0x80 == 0
}

pub fn buckets(d: &TableDump) -> usize {
    d.bucket_mask + 1
}

pub fn count_full(d: &TableDump) -> usize {
    if d.is_singleton {
        return 0;
    }
    d.ctrl[..buckets(d)].iter().filter(|&&c| is_full(c)).count()
}
pub fn count_deleted(d: &TableDump) -> usize {
    if d.is_singleton {
        return 0;
    }
    d.ctrl[..buckets(d)].iter().filter(|&&c| c == DELETED).count()
}
pub fn count_empty(d: &TableDump) -> usize {
    if d.is_singleton {
        return 1;
    }
    d.ctrl[..buckets(d)].iter().filter(|&&c| c == EMPTY).count()
}

/// Which invariants to check; S4/S5/S8 need lawful hashes.
#[derive(Clone, Copy)]
pub struct Which {
    pub lawful_hash: bool,
}

/// `hash_of(i)` = hash of the element in full bucket `i` (lawful plans only).
pub fn check_structure(
    d: &TableDump,
    which: Which,
    hash_of: &dyn Fn(usize) -> Option<u64>,
) -> Result<(), String> {
    let w = d.group_width;
    if w != verif::GROUP_WIDTH {
        return Err(format!("dump group width {} != GROUP_WIDTH", w));
    }
    // S7 singleton
    if d.is_singleton {
        if d.bucket_mask != 0 || d.items != 0 || d.growth_left != 0 {
            return Err(format!(
                "S7: unallocated singleton with bucket_mask={} items={} growth_left={}",
                d.bucket_mask, d.items, d.growth_left
            ));
        }
        if d.ctrl.iter().any(|&c| c != EMPTY) {
            return Err("S7: static empty group contains a non-EMPTY byte".into());
        }
        return Ok(());
    }
    let n = buckets(d);
    if !n.is_power_of_two() {
        return Err(format!("bucket count {} is not a power of two", n));
    }
    if d.ctrl.len() != n + w {
        return Err(format!("ctrl length {} != buckets {} + width {}", d.ctrl.len(), n, w));
    }
    for (i, &c) in d.ctrl.iter().enumerate() {
        if !(is_full(c) || c == EMPTY || c == DELETED) {
            return Err(format!("control byte {} has invalid value {:#x}", i, c));
        }
    }
    let full = count_full(d);
    let del = count_deleted(d);
    let empty = n - full - del;
    // S1
    if d.items != full {
        return Err(format!("S1: items={} but {} FULL control bytes", d.items, full));
    }
    // S2
    let cap = verif::bucket_mask_to_capacity(d.bucket_mask);
    if d.growth_left + d.items + del != cap {
        return Err(format!(
            "S2: growth_left({}) + items({}) + DELETED({}) != capacity_of_mask({}) [buckets {}]",
            d.growth_left, d.items, del, cap, n
        ));
    }
    if empty == 0 {
        return Err("S2: no EMPTY control byte left (probe loops cannot terminate)".into());
    }
    // S3 mirror
    if n >= w {
        for i in 0..w {
            if d.ctrl[n + i] != d.ctrl[i] {
                return Err(format!(
                    "S3: mirror byte ctrl[{}]={:#x} != ctrl[{}]={:#x}",
                    n + i,
                    d.ctrl[n + i],
                    i,
                    d.ctrl[i]
                ));
            }
        }
    } else {
        for i in 0..n {
            if d.ctrl[w + i] != d.ctrl[i] {
                return Err(format!(
                    "S3: small-table mirror ctrl[{}]={:#x} != ctrl[{}]={:#x}",
                    w + i,
                    d.ctrl[w + i],
                    i,
                    d.ctrl[i]
                ));
            }
        }
        for i in n..w {
            if d.ctrl[i] != EMPTY {
                return Err(format!("S3: small-table filler ctrl[{}]={:#x} is not EMPTY", i, d.ctrl[i]));
            }
        }
        // S6
        if del != 0 {
            return Err(format!("S6: table smaller than a group has {} DELETED bytes", del));
        }
    }
    if which.lawful_hash {
        for i in 0..n {
            let c = d.ctrl[i];
            if !is_full(c) {
                continue;
            }
            let h = match hash_of(i) {
                Some(h) => h,
                None => return Err(format!("hook: bucket {} is FULL but has no element", i)),
            };
            // S4
            let tag = verif::tag_full(h);
            if c != tag {
                return Err(format!(
                    "S4: bucket {} holds tag {:#x} but its element hashes to tag {:#x}",
                    i, c, tag
                ));
            }
            // S5 probe reachability
            let mut pos = verif::probe_start(h, d.bucket_mask);
            let mut stride = 0usize;
            let mut steps = 0usize;
            loop {
                // group window [pos, pos+w)
                let mut contains = false;
                let mut has_empty = false;
                for j in 0..w {
                    let idx = (pos + j) & d.bucket_mask;
                    // window bytes are read from ctrl[pos + j] (mirror); equal by S3
                    if idx == i && (n >= w || pos + j < n || true) {
                        contains = true;
                    }
                    if d.ctrl[pos + j] == EMPTY {
                        has_empty = true;
                    }
                }
                if contains {
                    break;
                }
                if has_empty {
                    return Err(format!(
                        "S5: element in bucket {} is unreachable: probe group at {} (step {}) contains EMPTY before reaching it",
                        i, pos, steps
                    ));
                }
                stride += w;
                pos = (pos + stride) & d.bucket_mask;
                steps += 1;
                if stride > d.bucket_mask + w {
                    return Err(format!("S5: probe sequence for bucket {} never reaches it", i));
                }
            }
        }
    }
    Ok(())
}

/// Structure invariants without per-element hashes (S1-S3, S6, S7).
pub fn check_structure_public(d: &TableDump) -> Result<(), String> {
    check_structure(d, Which { lawful_hash: false }, &|_| None)
}
