//! HashMap system under test: the real `hashbrown::HashMap` with the plan
//! hasher and the checking allocator, next to an association-list model.

use crate::env::{self, CheckAlloc, Class};
use crate::explore::{Harness, Mech, Stats};
use crate::inv;
use crate::keys::*;
use hashbrown::hash_map::{Entry, EntryRef};
use hashbrown::verif::TableDump;
use hashbrown::HashMap;
use serde::{Deserialize, Serialize};
use std::marker::PhantomData;

pub type Map<K, V> = HashMap<K, V, PlanBuild, CheckAlloc>;

pub const PROBE_TOK: u32 = 0xFFFF_FFF0;

#[derive(Clone, Copy, Debug, PartialEq, Eq, Hash, Serialize, Deserialize)]
pub enum EAct {
    OrInsert,
    OrInsertWith,
    OrInsertWithKey,
    OrDefault,
    Insert,
    AndModifyOrInsert,
    Remove,
    RemoveEntry,
    ReplaceSome,
    ReplaceNone,
    AndReplaceSome,
    AndReplaceNone,
    OccInsert,
    VacantInsertEntry,
    VacantIntoKey,
    DropUnused,
}
pub const ENTRY_ACTS: &[EAct] = &[
    EAct::OrInsert,
    EAct::OrInsertWith,
    EAct::OrInsertWithKey,
    EAct::OrDefault,
    EAct::Insert,
    EAct::AndModifyOrInsert,
    EAct::Remove,
    EAct::RemoveEntry,
    EAct::ReplaceSome,
    EAct::ReplaceNone,
    EAct::AndReplaceSome,
    EAct::AndReplaceNone,
    EAct::OccInsert,
    EAct::VacantInsertEntry,
    EAct::VacantIntoKey,
    EAct::DropUnused,
];
pub const ENTRY_REF_ACTS: &[EAct] = &[
    EAct::OrInsert,
    EAct::OrInsertWith,
    EAct::OrDefault,
    EAct::Insert,
    EAct::AndModifyOrInsert,
    EAct::Remove,
    EAct::ReplaceNone,
    EAct::VacantInsertEntry,
    EAct::DropUnused,
];

#[derive(Clone, Copy, Debug, PartialEq, Eq, Hash, Serialize, Deserialize)]
pub enum Res {
    One,
    Half,
    Double,
}
#[derive(Clone, Copy, Debug, PartialEq, Eq, Hash, Serialize, Deserialize)]
pub enum Shr {
    Zero,
    Len,
    LenPlus1,
    CapMinus1,
    /// one more than capacity(): within the table's full capacity when tombstones exist
    CapPlus1,
}
#[derive(Clone, Copy, Debug, PartialEq, Eq, Hash, Serialize, Deserialize)]
pub enum Ret {
    All,
    None,
    EvenIds,
    Alternate,
    /// keep only the ids of at least one group width: the elements inserted first (the front of every probe
    /// sequence) go, the ones displaced behind them stay
    KeepHigh,
}
#[derive(Clone, Copy, Debug, PartialEq, Eq, Hash, Serialize, Deserialize)]
pub enum XList {
    Empty,
    One,
    Dup,
    Two,
    LieLow,
    LieHigh,
}

/// Target of a `clone_from` (built fresh, then `target.clone_from(&map)`).
#[derive(Clone, Copy, Debug, PartialEq, Eq, Hash, Serialize, Deserialize)]
pub enum Tgt {
    New,
    One,
    SameLen,
    Big,
    Tomb,
    /// owns a (large) block but has never held an element
    EmptyBig,
    /// owns a block, every element removed again (all removed-slot markers or cleared)
    Emptied,
}
pub const TARGETS: &[Tgt] = &[Tgt::New, Tgt::One, Tgt::SameLen, Tgt::Big, Tgt::Tomb, Tgt::EmptyBig, Tgt::Emptied];

#[derive(Clone, Copy, Debug, PartialEq, Eq, Hash, Serialize, Deserialize)]
pub enum MapOp {
    /// unsafe insert_unique_unchecked - offered only for absent keys (its contract)
    InsertUniqueUnchecked(u8),
    /// consume the map by value through for_each (fold) - the map is empty afterwards
    IntoIterForEach,
    /// drain through for_each after one next()
    DrainForEach,
    /// drain(): one next(), then drop the Drain (its destructor drops the rest and resets the table)
    DrainDropEarly,
    /// into_iter(): one next(), then drop the IntoIter
    IntoIterDropEarly,
    /// extract_if(all): one next(), then drop the ExtractIf (the unvisited elements stay)
    ExtractIfDropEarly,
    /// extract_if(even ids): one next(), then count() (fold)
    ExtractIfEvenCount,
    RawEntry(u8, crate::mapentry::RBuild, crate::mapentry::RAct),
    RustcEntry(u8, crate::mapentry::RuAct),
    CloneDrop,
    CloneInto(Tgt),
    Insert(u8),
    TryInsert(u8),
    Remove(u8),
    RemoveRef(u8),
    RemoveEntry(u8),
    GetMut(u8),
    GetKvMut(u8),
    Entry(u8, EAct),
    EntryRef(u8, EAct),
    Extend(XList, u8),
    FromIterSelf,
    Clear,
    Reserve(Res),
    ShrinkToFit,
    ShrinkTo(Shr),
    Retain(Ret),
}

/// Which operation kinds an exploration uses.
#[derive(Clone, Debug)]
pub struct Alphabet {
    pub insert: bool,
    pub try_insert: bool,
    pub remove: bool,
    pub remove_variants: bool,
    pub get_mut: bool,
    pub entry: Vec<EAct>,
    pub entry_ref: Vec<EAct>,
    pub extend: Vec<XList>,
    pub from_iter: bool,
    pub clear: bool,
    pub reserve: Vec<Res>,
    pub shrink_to_fit: bool,
    pub shrink_to: Vec<Shr>,
    pub retain: Vec<Ret>,
    pub clone: bool,
    pub raw_entry: bool,
    pub rustc_entry: bool,
    /// operations whose *reference result* depends on the iteration order (which element an early-dropped
    /// extract_if yields first); left out where results are compared across back-ends (C18)
    pub order_dependent: bool,
}
impl Alphabet {
    pub fn full() -> Self {
        Alphabet {
            insert: true,
            try_insert: true,
            remove: true,
            remove_variants: true,
            get_mut: true,
            entry: ENTRY_ACTS.to_vec(),
            entry_ref: ENTRY_REF_ACTS.to_vec(),
            extend: vec![XList::Empty, XList::One, XList::Dup, XList::Two, XList::LieLow, XList::LieHigh],
            from_iter: true,
            clear: true,
            reserve: vec![Res::One, Res::Half, Res::Double],
            shrink_to_fit: true,
            shrink_to: vec![Shr::Zero, Shr::Len, Shr::LenPlus1, Shr::CapMinus1, Shr::CapPlus1],
            retain: vec![Ret::All, Ret::None, Ret::EvenIds, Ret::Alternate, Ret::KeepHigh],
            clone: true,
            raw_entry: false,
            rustc_entry: false,
            order_dependent: true,
        }
    }
    /// insert / remove / clear / reserve / shrink (the state-changing core)
    pub fn core() -> Self {
        Alphabet {
            insert: true,
            try_insert: false,
            remove: true,
            remove_variants: false,
            get_mut: false,
            entry: vec![],
            entry_ref: vec![],
            extend: vec![],
            from_iter: false,
            clear: true,
            reserve: vec![Res::One, Res::Half],
            shrink_to_fit: true,
            shrink_to: vec![Shr::LenPlus1],
            retain: vec![],
            clone: false,
            raw_entry: false,
            rustc_entry: false,
            order_dependent: true,
        }
    }
    /// the operations that can trigger a resize or an in-place rehash (fault enumeration on large spaces)
    pub fn rehash() -> Self {
        let mut a = Alphabet::churn();
        a.try_insert = true;
        a.entry = vec![EAct::OrInsert];
        a.reserve = vec![Res::One, Res::Half];
        a.shrink_to_fit = true;
        a
    }
    /// insert / remove only (C13 churn)
    pub fn churn() -> Self {
        Alphabet {
            insert: true,
            try_insert: true,
            remove: true,
            remove_variants: false,
            get_mut: false,
            entry: vec![EAct::OrInsert],
            entry_ref: vec![],
            extend: vec![],
            from_iter: false,
            clear: true,
            reserve: vec![],
            shrink_to_fit: false,
            shrink_to: vec![],
            retain: vec![Ret::None, Ret::EvenIds],
            clone: false,
            raw_entry: false,
            rustc_entry: false,
            order_dependent: true,
        }
    }
}

/// Property-specific probes to run in every visited state.
#[derive(Clone, Copy, Debug, PartialEq, Eq)]
pub enum Probe {
    Iterators,
    Removal { max_subset_len: usize },
    Capacity,
    TryReserve,
    Entry,
    ManyMut,
    Leaks,
    Release,
    CloneEq,
    Wrappers,
}

#[derive(Clone, Debug)]
pub struct MapCfg {
    pub probes: Vec<Probe>,
    pub plan: Plan,
    pub universe: u8,
    pub reduce: bool,
    pub alphabet: Alphabet,
    /// do not offer growing reserves when the table already has this many buckets
    pub max_buckets: usize,
    /// do not insert beyond this many live elements (C13)
    pub max_live: Option<usize>,
    /// check allocation_size() against the ledger in every state
    pub check_alloc_size: bool,
    /// C13: bucket count must never exceed this
    pub bucket_bound: Option<usize>,
    /// build the map with the alternative hasher instance (environment's second plan)
    pub alt_hasher: bool,
    /// offer per-key operations only for ids below this (lookups still cover the whole universe)
    pub ops_universe: Option<u8>,
    /// C13: an insertion must not grow the allocation while the table is at most half full
    /// (slots freed by removals must be reclaimed in place instead of driving growth)
    pub no_growth_when_half_empty: bool,
    /// every system starts with `reserve(n)` on the fresh map (scripted layouts in a table of a given size)
    pub initial_capacity: Option<usize>,
}
impl MapCfg {
    pub fn new(plan: Plan, universe: u8) -> Self {
        MapCfg {
            probes: vec![],
            plan,
            universe,
            reduce: true,
            alphabet: Alphabet::full(),
            max_buckets: 64,
            max_live: None,
            check_alloc_size: true,
            bucket_bound: None,
            alt_hasher: false,
            ops_universe: None,
            no_growth_when_half_empty: false,
            initial_capacity: None,
        }
    }
    /// class of each key id: index of its hash among the plan's distinct hashes
    pub fn class_of(&self) -> Vec<u8> {
        let mut distinct: Vec<u64> = Vec::new();
        let mut class_of = Vec::new();
        for id in 0..self.universe {
            let h = self.plan.hash_of(id);
            let c = match distinct.iter().position(|&x| x == h) {
                Some(c) => c,
                None => {
                    distinct.push(h);
                    distinct.len() - 1
                }
            };
            class_of.push(c as u8);
        }
        class_of
    }
    pub fn label(&self) -> String {
        format!(
            "{}-u{}-{}{}",
            self.plan.name(),
            self.universe,
            if self.reduce { "sym" } else { "nosym" },
            self.max_live.map(|n| format!("-live{n}")).unwrap_or_default()
        )
    }
}

/// (key id, key token, value token)
pub type ModelEntry = (u8, u32, u32);

pub struct MapSut<K: KeyT, V: ValT> {
    pub map: Map<K, V>,
    pub model: Vec<ModelEntry>,
    pub next_tok: u32,
    pub probe_keys: Vec<K>,
    /// class of each key id (index of its hash among the plan's distinct hashes)
    pub class_of: Vec<u8>,
    /// auxiliary collection of the operation in progress (clone target), kept
    /// here so that it can be examined after a panic
    pub aux: Option<Map<K, V>>,
    pub alt: bool,
    /// ledger baselines at creation (a nested system shares the thread's ledgers)
    pub base: Baseline,
}

#[derive(Clone, Copy, Debug)]
pub struct Baseline {
    pub live_elems: usize,
    pub live_blocks: usize,
    pub live_bytes: usize,
    pub block_idx: usize,
    pub reg_idx: usize,
}
impl Baseline {
    pub fn take() -> Self {
        Baseline {
            live_elems: env::reg_live_count(),
            live_blocks: env::live_block_count(),
            live_bytes: env::live_bytes(),
            block_idx: env::block_count(),
            reg_idx: env::reg_len(),
        }
    }
}

impl<K: KeyT, V: ValT> MapSut<K, V> {
    pub fn new(cfg: &MapCfg) -> Self {
        let mut s = Self::with_map(cfg, Map::<K, V>::with_hasher_in(PlanBuild { alt: cfg.alt_hasher }, CheckAlloc));
        if let Some(c) = cfg.initial_capacity {
            s.map.reserve(c);
        }
        s
    }
    pub fn with_map(cfg: &MapCfg, map: Map<K, V>) -> Self {
        let base = Baseline::take();
        let class_of = cfg.class_of();
        let probe_keys = (0..cfg.universe).map(|id| K::make(id, PROBE_TOK)).collect();
        MapSut { map, model: Vec::new(), next_tok: 1, probe_keys, class_of, aux: None, alt: cfg.alt_hasher, base }
    }
    pub fn tok(&mut self) -> u32 {
        let t = self.next_tok;
        self.next_tok += 1;
        t
    }
    pub fn mpos(&self, id: u8) -> Option<usize> {
        self.model.iter().position(|e| e.0 == id)
    }
    pub fn dump(&self) -> TableDump {
        self.map.verif_dump()
    }

    /// Structure invariants + model agreement.
    pub fn check_all(&mut self, universe: u8, lawful: bool, check_alloc_size: bool) -> Result<(), String> {
        let d = self.map.verif_dump();
        let map = &self.map;
        let alt = self.alt;
        inv::check_structure(&d, inv::Which { lawful_hash: lawful }, &|i| {
            map.verif_bucket(i).map(|(k, _)| if alt { env::with(|e| e.plan_b[k.id() as usize]) } else { plan_hash(k.id()) })
        })?;
        if self.map.hasher().alt != self.alt {
            return Err(format!("hasher() returns hasher state {} but the map was built with (or cloned from a map with) state {}", self.map.hasher().alt, self.alt));
        }
        let _: &CheckAlloc = self.map.allocator();
        if self.map.len() != self.model.len() {
            return Err(format!("len() = {} but the reference holds {} pairs", self.map.len(), self.model.len()));
        }
        if self.map.is_empty() != self.model.is_empty() {
            return Err("is_empty() disagrees with the reference".into());
        }
        if self.map.capacity() < self.map.len() {
            return Err(format!("S9: capacity() {} < len() {}", self.map.capacity(), self.map.len()));
        }
        // contents via iter()
        let mut got: Vec<ModelEntry> = Vec::with_capacity(self.model.len());
        let mut n = 0usize;
        for (k, v) in self.map.iter() {
            n += 1;
            if n > self.model.len() + 4 {
                return Err("iter() yields more elements than the reference holds".into());
            }
            if let Some(s) = k.serial() {
                if !env::reg_is_live(s) {
                    return Err(format!("iter() yielded a key (#{s}) that is not a live element"));
                }
            }
            if let Some(s) = v.serial() {
                if !env::reg_is_live(s) {
                    return Err(format!("iter() yielded a value (#{s}) that is not a live element"));
                }
            }
            got.push((k.id(), k.tok(), v.tok()));
        }
        got.sort_unstable();
        let mut want = self.model.clone();
        want.sort_unstable();
        if got != want {
            return Err(format!("contents differ: iter() = {:?}, reference = {:?} (id, key token, value token)", got, want));
        }
        // lookups through the key and the borrowed form, present and absent keys
        for id in 0..universe {
            let want = self.mpos(id).map(|p| self.model[p]);
            let pk = &self.probe_keys[id as usize];
            let g1 = self.map.get(pk).map(|v| v.tok());
            let g2 = self.map.get(&KeyRef(id)).map(|v| v.tok());
            let g3 = self.map.get_key_value(pk).map(|(k, v)| (k.id(), k.tok(), v.tok()));
            let g4 = self.map.get_key_value(&KeyRef(id)).map(|(k, v)| (k.id(), k.tok(), v.tok()));
            let c1 = self.map.contains_key(pk);
            let c2 = self.map.contains_key(&KeyRef(id));
            if g1 != want.map(|e| e.2) {
                return Err(format!("get(key {id}) = {:?}, reference {:?}", g1, want.map(|e| e.2)));
            }
            if g2 != g1 {
                return Err(format!("get(&KeyRef({id})) = {:?} differs from get(&key) = {:?}", g2, g1));
            }
            if g3 != want || g4 != want {
                return Err(format!("get_key_value({id}) = {:?} / {:?}, reference {:?}", g3, g4, want));
            }
            if c1 != want.is_some() || c2 != want.is_some() {
                return Err(format!("contains_key({id}) = {c1}/{c2}, reference {}", want.is_some()));
            }
        }
        if check_alloc_size {
            let a = self.map.allocation_size();
            let l = env::live_bytes() - self.base.live_bytes;
            if a != l {
                return Err(format!("allocation_size() = {a} but the allocator ledger holds {l} bytes"));
            }
        }
        Ok(())
    }

    /// Drop everything without checking the ledgers; returns the baseline.
    pub fn dispose(self) -> Baseline {
        let MapSut { map, probe_keys, aux, base, .. } = self;
        drop(aux);
        drop(map);
        drop(probe_keys);
        base
    }

    /// Drop the map and check the ledgers.
    pub fn finish(self) -> Result<(), String> {
        let MapSut { map, probe_keys, aux, base, .. } = self;
        drop(aux);
        drop(map);
        drop(probe_keys);
        end_of_run_checks(&base)
    }
}

/// After everything has been dropped: registry, allocator ledger, canaries.
pub fn end_of_run_checks(base: &Baseline) -> Result<(), String> {
    let errs = env::take_errors();
    if !errs.is_empty() {
        return Err(errs.join("; "));
    }
    let live = env::reg_live_count();
    if live != base.live_elems {
        return Err(format!(
            "leak: {} element(s) never dropped after the collection was dropped (live serials {:?})",
            live as isize - base.live_elems as isize,
            env::reg_live_list().iter().rev().take(8).collect::<Vec<_>>()
        ));
    }
    let nb = env::live_block_count();
    if nb != base.live_blocks {
        let blocks = env::live_blocks();
        return Err(format!(
            "leak: {} allocation(s) never returned: live block sizes {:?}",
            nb as isize - base.live_blocks as isize,
            blocks.iter().map(|b| b.1).collect::<Vec<_>>()
        ));
    }
    env::alloc_check_from(base.block_idx)
}

macro_rules! chk {
    ($checked:expr, $cond:expr, $($fmt:tt)*) => {
        let ok: bool = $cond;
        if $checked && !ok {
            return Err(format!($($fmt)*));
        }
    };
}

/// Iterator with a (possibly lying) size hint that ticks `IterNext`.
pub struct HintIter<I> {
    pub inner: I,
    pub hint: (usize, Option<usize>),
}
impl<I: Iterator> Iterator for HintIter<I> {
    type Item = I::Item;
    fn next(&mut self) -> Option<I::Item> {
        env::tick(Class::IterNext);
        self.inner.next()
    }
    fn size_hint(&self) -> (usize, Option<usize>) {
        self.hint
    }
}

pub struct MapHarness<K: KeyT, V: ValT> {
    pub cfg: MapCfg,
    pub plan: [u64; 256],
    pub _p: PhantomData<fn() -> (K, V)>,
}

impl<K: KeyT, V: ValT> MapHarness<K, V> {
    pub fn new(cfg: MapCfg) -> Self {
        let plan = cfg.plan.table();
        MapHarness { cfg, plan, _p: PhantomData }
    }

    /// Keys to try for a per-key operation: every present key, plus either
    /// every absent key or (with symmetry reduction) the first absent key of
    /// each class.
    pub fn key_choices(&self, sut: &MapSut<K, V>) -> Vec<u8> {
        let mut v = Vec::new();
        let mut seen_class = [false; 256];
        for id in 0..self.cfg.ops_universe.unwrap_or(self.cfg.universe).min(self.cfg.universe) {
            if sut.mpos(id).is_some() {
                v.push(id);
            } else if self.cfg.reduce {
                let c = sut.class_of[id as usize] as usize;
                if !seen_class[c] {
                    seen_class[c] = true;
                    v.push(id);
                }
            } else {
                v.push(id);
            }
        }
        v
    }

    pub fn apply_op(&self, sut: &mut MapSut<K, V>, op: &MapOp, checked: bool, stats: &Stats) -> Result<(), String> {
        let pre = if checked { Some(sut.map.verif_dump()) } else { None };
        self.apply_inner(sut, op, checked)?;
        if let Some(pre) = pre {
            let post = sut.map.verif_dump();
            classify(&pre, &post, stats);
            if self.cfg.no_growth_when_half_empty && !pre.is_singleton && post.bucket_mask > pre.bucket_mask {
                let full_cap = hashbrown::verif::bucket_mask_to_capacity(pre.bucket_mask);
                if pre.items + 1 <= full_cap / 2 {
                    return Err(format!(
                        "removals drive growth: {:?} grew the table from {} to {} buckets although it held only {} live elements (capacity {}, {} removed-slot markers): freed slots were not reclaimed in place",
                        op, pre.bucket_mask + 1, post.bucket_mask + 1, pre.items, full_cap, inv::count_deleted(&pre)
                    ));
                }
            }
        }
        Ok(())
    }

    fn apply_inner(&self, sut: &mut MapSut<K, V>, op: &MapOp, checked: bool) -> Result<(), String> {
        let c = checked;
        match *op {
            MapOp::Insert(id) => {
                let (t1, t2) = (sut.tok(), sut.tok());
                let r = sut.map.insert(K::make(id, t1), V::make(t2)).map(|v| v.tok());
                let want = match sut.mpos(id) {
                    Some(p) => {
                        let old = sut.model[p].2;
                        sut.model[p].2 = t2;
                        Some(old)
                    }
                    None => {
                        sut.model.push((id, t1, t2));
                        None
                    }
                };
                chk!(c, r == want, "insert({id}) returned {:?}, reference {:?}", r, want);
            }
            MapOp::InsertUniqueUnchecked(id) => {
                let (t1, t2) = (sut.tok(), sut.tok());
                debug_assert!(sut.mpos(id).is_none());
                // SAFETY (contract of the method): the key is not in the map
                let (k, v) = unsafe { sut.map.insert_unique_unchecked(K::make(id, t1), V::make(t2)) };
                chk!(c, k.id() == id && k.tok() == t1 && v.tok() == t2, "insert_unique_unchecked({id}) returned references to another entry");
                v.set_tok(t2 ^ 0x0100_0000);
                sut.model.push((id, t1, t2 ^ 0x0100_0000));
            }
            MapOp::TryInsert(id) => {
                let (t1, t2) = (sut.tok(), sut.tok());
                let p = sut.mpos(id);
                match sut.map.try_insert(K::make(id, t1), V::make(t2)) {
                    Ok(v) => {
                        chk!(c, p.is_none(), "try_insert({id}) succeeded but the key is present");
                        chk!(c, v.tok() == t2, "try_insert({id}) returned a reference to the wrong value");
                        sut.model.push((id, t1, t2));
                    }
                    Err(e) => {
                        chk!(c, p.is_some(), "try_insert({id}) failed but the key is absent");
                        if let Some(p) = p {
                            let m = sut.model[p];
                            chk!(
                                c,
                                e.entry.key().tok() == m.1 && e.entry.get().tok() == m.2 && e.value.tok() == t2,
                                "try_insert({id}): OccupiedError contents ({}, {}, {}) differ from reference ({}, {}, {})",
                                e.entry.key().tok(), e.entry.get().tok(), e.value.tok(), m.1, m.2, t2
                            );
                        }
                    }
                }
            }
            MapOp::Remove(id) | MapOp::RemoveRef(id) => {
                let r = if matches!(op, MapOp::Remove(_)) {
                    sut.map.remove(&sut.probe_keys[id as usize])
                } else {
                    sut.map.remove(&KeyRef(id))
                }
                .map(|v| v.tok());
                let want = sut.mpos(id).map(|p| sut.model.swap_remove(p).2);
                chk!(c, r == want, "remove({id}) returned {:?}, reference {:?}", r, want);
            }
            MapOp::RemoveEntry(id) => {
                let r = sut.map.remove_entry(&sut.probe_keys[id as usize]).map(|(k, v)| (k.id(), k.tok(), v.tok()));
                let want = sut.mpos(id).map(|p| sut.model.swap_remove(p));
                chk!(c, r == want, "remove_entry({id}) returned {:?}, reference {:?}", r, want);
            }
            MapOp::GetMut(id) => {
                let t = sut.tok();
                let p = sut.mpos(id);
                let r = sut.map.get_mut(&sut.probe_keys[id as usize]).map(|v| {
                    let old = v.tok();
                    v.set_tok(t);
                    old
                });
                let want = p.map(|p| {
                    let old = sut.model[p].2;
                    sut.model[p].2 = t;
                    old
                });
                chk!(c, r == want, "get_mut({id}) saw {:?}, reference {:?}", r, want);
            }
            MapOp::GetKvMut(id) => {
                let t = sut.tok();
                let p = sut.mpos(id);
                let r = sut.map.get_key_value_mut(&KeyRef(id)).map(|(k, v)| {
                    let old = (k.id(), k.tok(), v.tok());
                    v.set_tok(t);
                    old
                });
                let want = p.map(|p| {
                    let old = sut.model[p];
                    sut.model[p].2 = t;
                    old
                });
                chk!(c, r == want, "get_key_value_mut({id}) saw {:?}, reference {:?}", r, want);
            }
            MapOp::Entry(id, act) => {
                let t1 = sut.tok();
                let key = K::make(id, t1);
                let p = sut.mpos(id);
                let e = sut.map.entry(key);
                let occ = matches!(e, Entry::Occupied(_));
                chk!(c, occ == p.is_some(), "entry({id}) is {} but reference says present={}", if occ { "Occupied" } else { "Vacant" }, p.is_some());
                chk!(c, e.key().id() == id, "entry({id}).key() has id {}", e.key().id());
                entry_act(&mut sut.model, &mut sut.next_tok, e, act, id, t1, p, c)?;
            }
            MapOp::EntryRef(id, act) => {
                let kr = KeyRef(id);
                let p = sut.mpos(id);
                let e = sut.map.entry_ref(&kr);
                let occ = matches!(e, EntryRef::Occupied(_));
                chk!(c, occ == p.is_some(), "entry_ref({id}) is {} but reference says present={}", if occ { "Occupied" } else { "Vacant" }, p.is_some());
                entry_ref_act(&mut sut.model, &mut sut.next_tok, e, act, id, p, c)?;
            }
            MapOp::Extend(kind, id) => {
                let id2 = (id + 1) % self.cfg.universe;
                let ids: Vec<u8> = match kind {
                    XList::Empty => vec![],
                    XList::One => vec![id],
                    XList::Dup => vec![id, id],
                    XList::Two | XList::LieLow => vec![id, id2],
                    XList::LieHigh => vec![id],
                };
                let hint = match kind {
                    XList::LieLow => (0, Some(0)),
                    XList::LieHigh => (3, None),
                    _ => (ids.len(), Some(ids.len())),
                };
                let mut items = Vec::new();
                for &i in &ids {
                    let (t1, t2) = (sut.tok(), sut.tok());
                    items.push((K::make(i, t1), V::make(t2)));
                    match sut.mpos(i) {
                        Some(p) => sut.model[p].2 = t2,
                        None => sut.model.push((i, t1, t2)),
                    }
                }
                sut.map.extend(HintIter { inner: items.into_iter(), hint });
            }
            MapOp::FromIterSelf => {
                // rebuild through FromIterator: all pairs, then a duplicate of the first key
                let old = std::mem::take(&mut sut.map);
                let mut items: Vec<(K, V)> = old.into_iter().collect();
                if let Some(first) = items.first() {
                    let id = first.0.id();
                    let (t1, t2) = (sut.tok(), sut.tok());
                    items.push((K::make(id, t1), V::make(t2)));
                    let p = sut.mpos(id).expect("model/table mismatch");
                    sut.model[p].2 = t2;
                }
                let n = items.len();
                sut.map = HintIter { inner: items.into_iter(), hint: (n, Some(n)) }.collect();
            }
            MapOp::RawEntry(id, b, act) => crate::mapentry::raw_entry_op(sut, id, b, act, c)?,
            MapOp::RustcEntry(id, act) => crate::mapentry::rustc_entry_op(sut, id, act, c)?,
            MapOp::IntoIterForEach => {
                let old = std::mem::take(&mut sut.map);
                let mut got: Vec<ModelEntry> = Vec::new();
                let mut it = old.into_iter();
                if let Some((k, v)) = it.next() {
                    got.push((k.id(), k.tok(), v.tok()));
                }
                it.for_each(|(k, v)| {
                    env::tick(Class::Closure);
                    got.push((k.id(), k.tok(), v.tok()));
                });
                got.sort_unstable();
                let mut want = std::mem::take(&mut sut.model);
                want.sort_unstable();
                chk!(c, got == want, "into_iter().for_each visited {:?}, reference {:?}", got, want);
            }
            MapOp::DrainForEach => {
                let mut got: Vec<ModelEntry> = Vec::new();
                {
                    let mut d = sut.map.drain();
                    if let Some((k, v)) = d.next() {
                        got.push((k.id(), k.tok(), v.tok()));
                    }
                    d.for_each(|(k, v)| {
                        env::tick(Class::Closure);
                        got.push((k.id(), k.tok(), v.tok()));
                    });
                }
                got.sort_unstable();
                let mut want = std::mem::take(&mut sut.model);
                want.sort_unstable();
                chk!(c, got == want, "drain(): next() then for_each visited {:?}, reference {:?}", got, want);
            }
            MapOp::DrainDropEarly => {
                let mut first = None;
                {
                    let mut d = sut.map.drain();
                    if let Some((k, v)) = d.next() {
                        first = Some((k.id(), k.tok(), v.tok()));
                    }
                }
                chk!(c, first.is_some() == !sut.model.is_empty(), "drain(): first next() returned {:?} for a map of {} entries", first, sut.model.len());
                if let Some(f) = first {
                    chk!(c, sut.model.contains(&f), "drain() yielded {:?} which is not stored", f);
                }
                sut.model.clear();
            }
            MapOp::IntoIterDropEarly => {
                let old = std::mem::take(&mut sut.map);
                let mut it = old.into_iter();
                let first = it.next().map(|(k, v)| (k.id(), k.tok(), v.tok()));
                drop(it);
                if let Some(f) = first {
                    chk!(c, sut.model.contains(&f), "into_iter() yielded {:?} which is not stored", f);
                }
                sut.model.clear();
            }
            MapOp::ExtractIfDropEarly => {
                let mut first = None;
                {
                    let mut it = sut.map.extract_if(|_, _| {
                        env::tick(Class::Closure);
                        true
                    });
                    if let Some((k, v)) = it.next() {
                        first = Some((k.id(), k.tok(), v.tok()));
                    }
                }
                chk!(c, first.is_some() == !sut.model.is_empty(), "extract_if(all): first next() returned {:?} for a map of {} entries", first, sut.model.len());
                if let Some(f) = first {
                    let p = sut.model.iter().position(|e| *e == f);
                    chk!(c, p.is_some(), "extract_if(all) yielded {:?} which is not stored", f);
                    if let Some(p) = p {
                        sut.model.swap_remove(p);
                    }
                }
            }
            MapOp::ExtractIfEvenCount => {
                let evens = sut.model.iter().filter(|e| e.0 % 2 == 0).count();
                let mut calls = 0usize;
                let n = {
                    let mut it = sut.map.extract_if(|k, _| {
                        env::tick(Class::Closure);
                        calls += 1;
                        k.id() % 2 == 0
                    });
                    let first = it.next().is_some() as usize;
                    first + it.count()
                };
                chk!(c, n == evens, "extract_if(even): next() + count() = {n}, reference {evens}");
                chk!(c, calls == sut.model.len(), "extract_if(even) called the predicate {calls} times for {} elements", sut.model.len());
                sut.model.retain(|e| e.0 % 2 != 0);
            }
            MapOp::Clear => {
                sut.map.clear();
                sut.model.clear();
            }
            MapOp::CloneDrop => {
                let c0 = env::clone_count();
                sut.aux = Some(sut.map.clone());
                let cl = sut.aux.take().unwrap();
                // every key and every value of the copy was made by the element type's own Clone
                chk!(c, !K::CLONE_IS_USER_CODE || env::clone_count() - c0 == 2 * sut.model.len() as u64, "clone() of {} entries called Clone::clone {} times, expected {}", sut.model.len(), env::clone_count() - c0, 2 * sut.model.len());
                chk!(c, cl == sut.map && sut.map == cl, "clone() does not compare equal to its source");
                let mut got: Vec<ModelEntry> = cl.iter().map(|(k, v)| (k.id(), k.tok(), v.tok())).collect();
                got.sort_unstable();
                let mut want = sut.model.clone();
                want.sort_unstable();
                chk!(c, got == want, "clone() holds {:?}, reference {:?}", got, want);
                drop(cl);
            }
            MapOp::CloneInto(t) => {
                let len = sut.model.len();
                let u = self.cfg.universe as usize;
                let mut tgt: Map<K, V> = match t {
                    Tgt::Big | Tgt::EmptyBig => Map::with_capacity_and_hasher_in(4 * len + 8, PlanBuild::default(), CheckAlloc),
                    _ => Map::default(),
                };
                let nkeys = match t {
                    Tgt::New => 0,
                    Tgt::One => 1,
                    Tgt::SameLen => len,
                    Tgt::Big => 2,
                    Tgt::Tomb | Tgt::Emptied => u,
                    Tgt::EmptyBig => 0,
                };
                for i in 0..nkeys.min(u) {
                    let (t1, t2) = (sut.tok(), sut.tok());
                    tgt.insert(K::make(i as u8, t1), V::make(t2));
                }
                if t == Tgt::Tomb {
                    for i in 0..u / 2 {
                        tgt.remove(&KeyRef(i as u8));
                    }
                }
                if t == Tgt::Emptied {
                    for i in 0..u {
                        tgt.remove(&KeyRef(i as u8));
                    }
                }
                sut.aux = Some(tgt);
                let c0 = env::clone_count();
                sut.aux.as_mut().unwrap().clone_from(&sut.map);
                let tgt = sut.aux.take().unwrap();
                chk!(c, !K::CLONE_IS_USER_CODE || env::clone_count() - c0 == 2 * len as u64, "clone_from of {len} entries called Clone::clone {} times, expected {}", env::clone_count() - c0, 2 * len);
                chk!(c, tgt == sut.map && sut.map == tgt, "clone_from result does not compare equal to its source");
                let old = std::mem::replace(&mut sut.map, tgt);
                drop(old);
            }
            MapOp::Reserve(r) => {
                let d = sut.map.verif_dump();
                let full_cap = hashbrown::verif::bucket_mask_to_capacity(d.bucket_mask);
                let len = sut.map.len();
                let add = match r {
                    Res::One => sut.map.capacity() - len + 1,
                    Res::Half => {
                        if full_cap / 2 > len {
                            full_cap / 2 - len
                        } else {
                            1
                        }
                    }
                    Res::Double => 2 * sut.map.capacity() + 1,
                };
                sut.map.reserve(add);
                chk!(c, sut.map.capacity() >= len + add, "reserve({add}) left capacity {} < len {} + {add}", sut.map.capacity(), len);
            }
            MapOp::ShrinkToFit => {
                sut.map.shrink_to_fit();
            }
            MapOp::ShrinkTo(s) => {
                let len = sut.map.len();
                let cap = sut.map.capacity();
                let m = match s {
                    Shr::Zero => 0,
                    Shr::Len => len,
                    Shr::LenPlus1 => len + 1,
                    Shr::CapMinus1 => cap.saturating_sub(1),
                    Shr::CapPlus1 => cap + 1,
                };
                sut.map.shrink_to(m);
                chk!(
                    c,
                    sut.map.capacity() >= len.max(m.min(cap)),
                    "shrink_to({m}) left capacity {} < max(len {len}, min(m, old capacity {cap}))",
                    sut.map.capacity()
                );
            }
            MapOp::Retain(kind) => {
                let base = sut.next_tok;
                sut.next_tok += 256;
                let mut visit = 0u32;
                let mut seen: Vec<ModelEntry> = Vec::new();
                let mut kept_ids: Vec<u8> = Vec::new();
                sut.map.retain(|k, v| {
                    env::tick(Class::Closure);
                    seen.push((k.id(), k.tok(), v.tok()));
                    let keep = match kind {
                        Ret::All => true,
                        Ret::None => false,
                        Ret::EvenIds => k.id() % 2 == 0,
                        Ret::Alternate => visit % 2 == 0,
                        Ret::KeepHigh => k.id() as usize >= hashbrown::verif::GROUP_WIDTH,
                    };
                    visit += 1;
                    if keep {
                        v.set_tok(base + k.id() as u32);
                        kept_ids.push(k.id());
                    }
                    keep
                });
                seen.sort_unstable();
                let mut want = sut.model.clone();
                want.sort_unstable();
                chk!(c, seen == want, "retain: predicate saw {:?}, reference holds {:?}", seen, want);
                sut.model.retain(|e| kept_ids.contains(&e.0));
                for e in sut.model.iter_mut() {
                    e.2 = base + e.0 as u32;
                }
            }
        }
        Ok(())
    }
}

#[allow(clippy::too_many_arguments)]
fn entry_act<K: KeyT, V: ValT>(
    model: &mut Vec<ModelEntry>,
    next_tok: &mut u32,
    e: Entry<'_, K, V, PlanBuild, CheckAlloc>,
    act: EAct,
    id: u8,
    t1: u32,
    p: Option<usize>,
    c: bool,
) -> Result<(), String> {
    let mut tok = || {
        let t = *next_tok;
        *next_tok += 1;
        t
    };
    let t2 = tok();
    let t3 = tok();
    match act {
        EAct::OrInsert | EAct::OrInsertWith | EAct::OrInsertWithKey | EAct::OrDefault => {
            let v = match act {
                EAct::OrInsert => e.or_insert(V::make(t2)),
                EAct::OrInsertWith => e.or_insert_with(|| {
                    env::tick(Class::Closure);
                    V::make(t2)
                }),
                EAct::OrInsertWithKey => e.or_insert_with_key(|k| {
                    env::tick(Class::Closure);
                    let _ = k.id();
                    V::make(t2)
                }),
                _ => e.or_default(),
            };
            let newtok = if act == EAct::OrDefault { DEFAULT_TOK } else { t2 };
            let want = match p {
                Some(p) => model[p].2,
                None => {
                    model.push((id, t1, newtok));
                    newtok
                }
            };
            chk!(c, v.tok() == want, "entry({id}).{:?} returned value {}, reference {}", act, v.tok(), want);
        }
        EAct::Insert => {
            let o = e.insert(V::make(t2));
            let wk = match p {
                Some(p) => {
                    model[p].2 = t2;
                    model[p].1
                }
                None => {
                    model.push((id, t1, t2));
                    t1
                }
            };
            chk!(c, o.key().tok() == wk && o.get().tok() == t2, "entry({id}).insert: entry holds ({}, {}), reference ({wk}, {t2})", o.key().tok(), o.get().tok());
        }
        EAct::AndModifyOrInsert => {
            let v = e
                .and_modify(|v| {
                    env::tick(Class::Closure);
                    v.set_tok(t3)
                })
                .or_insert(V::make(t2));
            let want = match p {
                Some(p) => {
                    model[p].2 = t3;
                    t3
                }
                None => {
                    model.push((id, t1, t2));
                    t2
                }
            };
            chk!(c, v.tok() == want, "entry({id}).and_modify.or_insert gave {}, reference {}", v.tok(), want);
        }
        EAct::Remove => {
            if let Entry::Occupied(o) = e {
                let v = o.remove().tok();
                let want = p.map(|p| model.swap_remove(p).2);
                chk!(c, Some(v) == want, "occupied.remove() of {id} returned {v}, reference {:?}", want);
            }
        }
        EAct::RemoveEntry => {
            if let Entry::Occupied(o) = e {
                let (k, v) = o.remove_entry();
                let want = p.map(|p| model.swap_remove(p));
                chk!(c, Some((k.id(), k.tok(), v.tok())) == want, "occupied.remove_entry() of {id} returned ({}, {}), reference {:?}", k.tok(), v.tok(), want);
            }
        }
        EAct::ReplaceSome | EAct::ReplaceNone => {
            if let Entry::Occupied(o) = e {
                let some = act == EAct::ReplaceSome;
                let mut seen = None;
                let r = o.replace_entry_with(|k, v| {
                    env::tick(Class::Closure);
                    seen = Some((k.id(), k.tok(), v.tok()));
                    if some {
                        Some(V::make(t2))
                    } else {
                        None
                    }
                });
                let m = p.map(|p| model[p]);
                chk!(c, seen == m, "replace_entry_with({id}) passed {:?} to the closure, reference {:?}", seen, m);
                chk!(c, matches!(r, Entry::Occupied(_)) == some, "replace_entry_with({id}) returned the wrong entry kind");
                if let Some(p) = p {
                    if some {
                        model[p].2 = t2;
                    } else {
                        model.swap_remove(p);
                    }
                }
                // the returned entry must be a handle to this very entry: read and write through it
                match r {
                    Entry::Occupied(mut o2) => {
                        chk!(c, o2.key().id() == id && o2.get().tok() == t2, "replace_entry_with({id}): the returned entry shows ({}, {}), expected the new value {t2}", o2.key().id(), o2.get().tok());
                        o2.get_mut().set_tok(t2 ^ 0x0800_0000);
                        if let Some(p) = p {
                            model[p].2 = t2 ^ 0x0800_0000;
                        }
                    }
                    Entry::Vacant(v2) => {
                        chk!(c, v2.key().id() == id, "replace_entry_with({id}): the returned vacant entry is for another key");
                        // ... and it is a usable vacant entry: insert through it
                        let kt = v2.key().tok();
                        let r = v2.insert(V::make(t2 ^ 0x0400_0000));
                        chk!(c, r.tok() == t2 ^ 0x0400_0000, "replace_entry_with({id}): inserting through the returned vacant entry returned another value");
                        model.push((id, kt, t2 ^ 0x0400_0000));
                    }
                }
            }
        }
        EAct::AndReplaceSome | EAct::AndReplaceNone => {
            let some = act == EAct::AndReplaceSome;
            let r = e.and_replace_entry_with(|_k, _v| {
                env::tick(Class::Closure);
                if some {
                    Some(V::make(t2))
                } else {
                    None
                }
            });
            let want_occ = p.is_some() && some;
            chk!(c, matches!(r, Entry::Occupied(_)) == want_occ, "and_replace_entry_with({id}) returned the wrong entry kind");
            if let Some(p) = p {
                if some {
                    model[p].2 = t2;
                } else {
                    model.swap_remove(p);
                }
            }
            match r {
                Entry::Occupied(mut o2) => {
                    chk!(c, o2.key().id() == id && o2.get().tok() == t2, "and_replace_entry_with({id}): the returned entry shows ({}, {}), expected the new value {t2}", o2.key().id(), o2.get().tok());
                    o2.get_mut().set_tok(t2 ^ 0x0800_0000);
                    if let Some(p) = p {
                        model[p].2 = t2 ^ 0x0800_0000;
                    }
                }
                Entry::Vacant(v2) => {
                    // the vacant entry handed back (after a removal, or for an absent key) is usable: insert through it
                    chk!(c, v2.key().id() == id, "and_replace_entry_with({id}): the returned vacant entry is for another key");
                    let kt = v2.key().tok();
                    let r2 = v2.insert(V::make(t2 ^ 0x0400_0000));
                    chk!(c, r2.tok() == t2 ^ 0x0400_0000, "and_replace_entry_with({id}): inserting through the returned vacant entry returned another value");
                    model.push((id, kt, t2 ^ 0x0400_0000));
                }
            }
        }
        EAct::OccInsert => {
            if let Entry::Occupied(mut o) = e {
                let old = o.insert(V::make(t2)).tok();
                let want = p.map(|p| {
                    let old = model[p].2;
                    model[p].2 = t2;
                    old
                });
                chk!(c, Some(old) == want, "occupied.insert of {id} returned {old}, reference {:?}", want);
            }
        }
        EAct::VacantInsertEntry => {
            if let Entry::Vacant(v) = e {
                let o = v.insert_entry(V::make(t2));
                chk!(c, o.key().tok() == t1 && o.get().tok() == t2, "vacant.insert_entry({id}) holds the wrong pair");
                model.push((id, t1, t2));
            }
        }
        EAct::VacantIntoKey => {
            if let Entry::Vacant(v) = e {
                let k = v.into_key();
                chk!(c, k.tok() == t1 && k.id() == id, "vacant.into_key({id}) returned another key");
            }
        }
        EAct::DropUnused => {
            drop(e);
        }
    }
    Ok(())
}

fn entry_ref_act<K: KeyT, V: ValT>(
    model: &mut Vec<ModelEntry>,
    next_tok: &mut u32,
    e: EntryRef<'_, '_, K, KeyRef, V, PlanBuild, CheckAlloc>,
    act: EAct,
    id: u8,
    p: Option<usize>,
    c: bool,
) -> Result<(), String> {
    let mut tok = || {
        let t = *next_tok;
        *next_tok += 1;
        t
    };
    let t2 = tok();
    let t3 = tok();
    let t1 = FROM_REF_TOK;
    match act {
        EAct::OrInsert | EAct::OrInsertWith | EAct::OrDefault => {
            let v = match act {
                EAct::OrInsert => e.or_insert(V::make(t2)),
                EAct::OrInsertWith => e.or_insert_with(|| {
                    env::tick(Class::Closure);
                    V::make(t2)
                }),
                _ => e.or_default(),
            };
            let newtok = if act == EAct::OrDefault { DEFAULT_TOK } else { t2 };
            let want = match p {
                Some(p) => model[p].2,
                None => {
                    model.push((id, t1, newtok));
                    newtok
                }
            };
            chk!(c, v.tok() == want, "entry_ref({id}).{:?} returned value {}, reference {}", act, v.tok(), want);
        }
        EAct::Insert => {
            let o = e.insert(V::make(t2));
            let wk = match p {
                Some(p) => {
                    model[p].2 = t2;
                    model[p].1
                }
                None => {
                    model.push((id, t1, t2));
                    t1
                }
            };
            chk!(c, o.key().tok() == wk && o.get().tok() == t2, "entry_ref({id}).insert: entry holds ({}, {}), reference ({wk}, {t2})", o.key().tok(), o.get().tok());
        }
        EAct::AndModifyOrInsert => {
            let v = e
                .and_modify(|v| {
                    env::tick(Class::Closure);
                    v.set_tok(t3)
                })
                .or_insert(V::make(t2));
            let want = match p {
                Some(p) => {
                    model[p].2 = t3;
                    t3
                }
                None => {
                    model.push((id, t1, t2));
                    t2
                }
            };
            chk!(c, v.tok() == want, "entry_ref({id}).and_modify.or_insert gave {}, reference {}", v.tok(), want);
        }
        EAct::Remove => {
            if let EntryRef::Occupied(o) = e {
                let v = o.remove().tok();
                let want = p.map(|p| model.swap_remove(p).2);
                chk!(c, Some(v) == want, "entry_ref occupied.remove() of {id} returned {v}, reference {:?}", want);
            }
        }
        EAct::ReplaceNone => {
            if let EntryRef::Occupied(o) = e {
                let r = o.replace_entry_with(|_k, _v| {
                    env::tick(Class::Closure);
                    None
                });
                chk!(c, matches!(r, Entry::Vacant(_)), "replace_entry_with(None) returned Occupied");
                if let Some(p) = p {
                    model.swap_remove(p);
                }
            }
        }
        EAct::VacantInsertEntry => {
            if let EntryRef::Vacant(v) = e {
                let o = v.insert_entry(V::make(t2));
                chk!(c, o.key().tok() == t1 && o.get().tok() == t2, "vacant_ref.insert_entry({id}) holds the wrong pair");
                model.push((id, t1, t2));
            }
        }
        _ => {
            drop(e);
        }
    }
    Ok(())
}

/// Mechanism classification of one transition from the pre/post dumps.
pub fn classify(pre: &TableDump, post: &TableDump, stats: &Stats) {
    let (nb0, nb1) = (
        if pre.is_singleton { 0 } else { pre.bucket_mask + 1 },
        if post.is_singleton { 0 } else { post.bucket_mask + 1 },
    );
    let (d0, d1) = (inv::count_deleted(pre), inv::count_deleted(post));
    let same_alloc = pre.ctrl_addr == post.ctrl_addr && nb0 == nb1;
    if nb1 > nb0 {
        stats.hit(Mech::Grew);
    }
    if nb1 < nb0 {
        stats.hit(if nb1 == 0 { Mech::Freed } else { Mech::Shrank });
    }
    if nb1 == nb0 && nb0 != 0 && pre.ctrl_addr != post.ctrl_addr {
        stats.hit(Mech::ReallocSameSize);
    }
    if same_alloc && nb0 != 0 {
        if d0 > 0 && d1 == 0 && post.items > 0 && post.items >= pre.items {
            stats.hit(Mech::RehashInPlace);
        }
        if d1 > d0 {
            stats.hit(Mech::TombstoneCreated);
        }
        if post.items + 1 == pre.items && d1 == d0 {
            stats.hit(Mech::ErasedToEmpty);
        }
        if post.items == pre.items + 1 && d1 + 1 == d0 {
            stats.hit(Mech::TombstoneReused);
        }
        if post.growth_left < pre.growth_left && post.items > pre.items && d1 == d0 {
            stats.hit(Mech::EmptyConsumed);
        }
    }
    if nb1 != 0 {
        if nb1 < post.group_width {
            stats.hit(Mech::SmallTable);
        }
        if post.growth_left == 0 {
            stats.hit(Mech::FullLoad);
        }
        if d1 > 0 {
            stats.hit(Mech::TombstonedState);
        }
    }
}

impl<K: KeyT, V: ValT> Harness for MapHarness<K, V> {
    type Op = MapOp;
    type Sut = MapSut<K, V>;

    fn init(&self) -> MapSut<K, V> {
        env::reset();
        if self.cfg.alt_hasher {
            env::with(|e| e.plan_b = self.plan);
        } else {
            env::set_plan(&self.plan);
        }
        MapSut::new(&self.cfg)
    }

    fn init_nested(&self) -> MapSut<K, V> {
        if self.cfg.alt_hasher {
            env::with(|e| e.plan_b = self.plan);
        }
        MapSut::new(&self.cfg)
    }

    fn ops(&self, sut: &MapSut<K, V>) -> Vec<MapOp> {
        let a = &self.cfg.alphabet;
        let mut v = Vec::new();
        let keys = self.key_choices(sut);
        let live = sut.model.len();
        let may_insert = |id: u8| sut.mpos(id).is_some() || self.cfg.max_live.map_or(true, |m| live < m);
        for &id in &keys {
            if a.insert && may_insert(id) {
                v.push(MapOp::Insert(id));
            }
            if a.remove {
                v.push(MapOp::Remove(id));
            }
        }
        for &id in &keys {
            if a.try_insert && may_insert(id) {
                v.push(MapOp::TryInsert(id));
            }
            if a.try_insert && sut.mpos(id).is_none() && may_insert(id) {
                v.push(MapOp::InsertUniqueUnchecked(id));
            }
            if a.remove_variants {
                v.push(MapOp::RemoveRef(id));
                v.push(MapOp::RemoveEntry(id));
            }
            if a.get_mut {
                v.push(MapOp::GetMut(id));
                v.push(MapOp::GetKvMut(id));
            }
            if may_insert(id) {
                for &act in &a.entry {
                    v.push(MapOp::Entry(id, act));
                }
                for &act in &a.entry_ref {
                    v.push(MapOp::EntryRef(id, act));
                }
                for &x in &a.extend {
                    if x == XList::Empty && id != keys[0] {
                        continue;
                    }
                    if matches!(x, XList::Two | XList::LieLow) && self.cfg.max_live.map_or(false, |m| live + 2 > m) {
                        continue;
                    }
                    v.push(MapOp::Extend(x, id));
                }
            }
        }
        for &id in &keys {
            if !may_insert(id) {
                continue;
            }
            if a.raw_entry {
                for &b in crate::mapentry::RBUILDS {
                    for &act in crate::mapentry::RACTS {
                        v.push(MapOp::RawEntry(id, b, act));
                    }
                }
            }
            if a.rustc_entry {
                for &act in crate::mapentry::RUACTS {
                    v.push(MapOp::RustcEntry(id, act));
                }
            }
        }
        if a.from_iter {
            v.push(MapOp::FromIterSelf);
        }
        if a.clone {
            v.push(MapOp::IntoIterForEach);
            v.push(MapOp::DrainForEach);
            v.push(MapOp::DrainDropEarly);
            v.push(MapOp::IntoIterDropEarly);
            if a.order_dependent {
                v.push(MapOp::ExtractIfDropEarly);
            }
            v.push(MapOp::ExtractIfEvenCount);
            v.push(MapOp::CloneDrop);
            for &t in TARGETS {
                v.push(MapOp::CloneInto(t));
            }
        }
        if a.clear {
            v.push(MapOp::Clear);
        }
        let d = sut.map.verif_dump();
        let nb = if d.is_singleton { 0 } else { d.bucket_mask + 1 };
        for &r in &a.reserve {
            if matches!(r, Res::Double | Res::One) && nb >= self.cfg.max_buckets {
                continue;
            }
            v.push(MapOp::Reserve(r));
        }
        if a.shrink_to_fit {
            v.push(MapOp::ShrinkToFit);
        }
        for &s in &a.shrink_to {
            v.push(MapOp::ShrinkTo(s));
        }
        for &r in &a.retain {
            v.push(MapOp::Retain(r));
        }
        v
    }

    fn apply(&self, sut: &mut MapSut<K, V>, op: &MapOp, checked: bool, stats: &Stats) -> Result<(), String> {
        self.apply_op(sut, op, checked, stats)
    }

    fn check(&self, sut: &mut MapSut<K, V>) -> Result<(), String> {
        if let Some(b) = self.cfg.bucket_bound {
            let d = sut.map.verif_dump();
            if !d.is_singleton && d.bucket_mask + 1 > b {
                return Err(format!(
                    "churn with at most {} live elements grew the table to {} buckets ({} bytes), above the bound of {} buckets",
                    self.cfg.max_live.unwrap_or(0),
                    d.bucket_mask + 1,
                    sut.map.allocation_size(),
                    b
                ));
            }
        }
        sut.check_all(self.cfg.universe, true, self.cfg.check_alloc_size)
    }

    fn canon(&self, sut: &MapSut<K, V>) -> Vec<u8> {
        canon_of(&sut.map.verif_dump(), &|i| {
            sut.map.verif_bucket(i).map(|(k, _)| if self.cfg.reduce { sut.class_of[k.id() as usize] } else { k.id() })
        })
    }

    fn finish(&self, sut: MapSut<K, V>) -> Result<(), String> {
        sut.finish()
    }

    fn probes(&self, rebuild: &dyn Fn() -> MapSut<K, V>, sut: &mut MapSut<K, V>, stats: &Stats) -> Result<(), String> {
        use crate::mapprobes as mp;
        for p in &self.cfg.probes {
            match *p {
                Probe::Iterators => mp::probe_iterators(rebuild, sut, stats)?,
                Probe::Removal { max_subset_len } => mp::probe_removal(rebuild, sut, self.cfg.universe, max_subset_len, stats)?,
                Probe::Entry => {
                    for id in 0..self.cfg.universe {
                        crate::mapentry::raw_entry_lookup(sut, id)?;
                    }
                    stats.probe(3 * self.cfg.universe as u64);
                }
                Probe::ManyMut => mp::probe_many_mut(sut, self.cfg.universe, stats)?,
                Probe::Wrappers => {
                    mp::probe_wrappers(rebuild, sut, self.cfg.universe, stats)?;
                    // the by-reference Extend impls need Copy keys and values: plain flavour only
                    use std::any::Any;
                    if let Some(ps) = (sut as &mut dyn Any).downcast_mut::<MapSut<PKey, PVal>>() {
                        let rb = |_: ()| -> MapSut<PKey, PVal> {
                            let b: Box<dyn Any> = Box::new(rebuild());
                            *b.downcast::<MapSut<PKey, PVal>>().ok().expect("flavour")
                        };
                        mp::probe_extend_refs(&|| rb(()), ps, self.cfg.universe, stats)?;
                    }
                }
                Probe::Capacity => mp::probe_capacity(rebuild, sut, self.cfg.universe, stats)?,
                Probe::TryReserve => mp::probe_try_reserve(rebuild, sut, self.cfg.universe, stats)?,
                _ => {}
            }
        }
        Ok(())
    }
}

/// Canonical state bytes: width, bucket count, growth_left, control bytes of
/// the real buckets, then for each FULL slot the label of its key.
pub fn canon_of(d: &TableDump, label: &dyn Fn(usize) -> Option<u8>) -> Vec<u8> {
    let mut c = Vec::with_capacity(80);
    c.push(d.group_width as u8);
    if d.is_singleton {
        c.push(0xFE);
        return c;
    }
    let n = d.bucket_mask + 1;
    c.extend_from_slice(&(n as u32).to_le_bytes());
    c.extend_from_slice(&(d.growth_left as u32).to_le_bytes());
    c.extend_from_slice(&d.ctrl[..n]);
    for i in 0..n {
        if inv::is_full(d.ctrl[i]) {
            c.push(label(i).unwrap_or(0xFF));
        }
    }
    c
}
