//! Property-specific probes run in every visited HashMap state.

use crate::env::{self, CheckAlloc, Class};
use crate::explore::Stats;
use crate::keys::*;
use crate::mapsut::*;
use hashbrown::hash_map;
use std::fmt::Debug;

type E3 = (u8, u32, u32);

fn sorted(mut v: Vec<E3>) -> Vec<E3> {
    v.sort_unstable();
    v
}

#[derive(Clone, Copy, Debug, PartialEq, Eq)]
pub enum Tail {
    Next,
    Fold,
    ForEach,
    /// stop after the `j` steps and drop the iterator (partial consumption)
    DropNow,
}

/// Drive an exact-size iterator: `j` steps of `next()`, then finish by `tail`.
/// Checks size_hint / len at every step and None-forever after exhaustion.
pub fn drive<I, T>(mut it: I, total: usize, j: usize, tail: Tail, what: &str, conv: &dyn Fn(T) -> E3) -> Result<Vec<E3>, String>
where
    I: Iterator<Item = T> + ExactSizeIterator,
{
    let mut out = Vec::with_capacity(total);
    let mut r = total;
    let chk = |it: &I, r: usize, step: usize| -> Result<(), String> {
        let sh = it.size_hint();
        if sh != (r, Some(r)) {
            return Err(format!("{what}: size_hint() = {:?} after {step} items, but {r} remain", sh));
        }
        if it.len() != r {
            return Err(format!("{what}: len() = {} after {step} items, but {r} remain", it.len()));
        }
        Ok(())
    };
    chk(&it, r, 0)?;
    for step in 0..j {
        match it.next() {
            Some(x) => {
                if r == 0 {
                    return Err(format!("{what}: yielded an item after {total} items (more than the collection holds)"));
                }
                out.push(conv(x));
                r -= 1;
            }
            None => {
                if r != 0 {
                    return Err(format!("{what}: next() returned None after {step} items although {r} remain"));
                }
            }
        }
        chk(&it, r, step + 1)?;
    }
    match tail {
        Tail::DropNow => {
            drop(it);
        }
        Tail::Next => {
            let mut guard = 0;
            while let Some(x) = it.next() {
                if r == 0 {
                    return Err(format!("{what}: yielded more than {total} items"));
                }
                out.push(conv(x));
                r -= 1;
                chk(&it, r, total - r)?;
                guard += 1;
                if guard > total + 4 {
                    return Err(format!("{what}: does not terminate"));
                }
            }
            if r != 0 {
                return Err(format!("{what}: stopped with {r} items remaining"));
            }
            for _ in 0..3 {
                if it.next().is_some() {
                    return Err(format!("{what}: yielded an item after returning None"));
                }
            }
            chk(&it, 0, total)?;
            // an iterator run dry by next() is empty for internal iteration too
            let extra = it.fold(0usize, |a, _| a + 1);
            if extra != 0 {
                return Err(format!("{what}: after next() returned None, fold still visits {extra} item(s)"));
            }
        }
        Tail::Fold => {
            let mut n = 0usize;
            let rest = it.fold(Vec::new(), |mut acc, x| {
                n += 1;
                if n <= total + 4 {
                    acc.push(conv(x));
                }
                acc
            });
            if n != r {
                return Err(format!("{what}: fold visited {n} items but {r} remained after {j} next() calls"));
            }
            out.extend(rest);
        }
        Tail::ForEach => {
            let mut n = 0usize;
            let mut rest = Vec::new();
            it.for_each(|x| {
                n += 1;
                if n <= total + 4 {
                    rest.push(conv(x));
                }
            });
            if n != r {
                return Err(format!("{what}: for_each visited {n} items but {r} remained after {j} next() calls"));
            }
            out.extend(rest);
        }
    }
    Ok(out)
}

/// `j` steps of `next()`, then `nth(k)`, then finish by fold: `nth` skips exactly min(k, remaining) items,
/// an overshooting `nth` exhausts the iterator for every later consumer (next, len, fold).
pub fn drive_nth<I, T>(mut it: I, total: usize, j: usize, k: usize, what: &str, conv: &dyn Fn(T) -> E3, stored: &[E3]) -> Result<(), String>
where
    I: Iterator<Item = T> + ExactSizeIterator,
{
    let mut out = Vec::new();
    let mut r = total;
    for _ in 0..j {
        match it.next() {
            Some(x) => {
                out.push(conv(x));
                r = r.checked_sub(1).ok_or_else(|| format!("{what}: yielded more than {total} items"))?;
            }
            None => break,
        }
    }
    let got = it.nth(k);
    let skipped = k.min(r);
    if k < r {
        match got {
            Some(x) => out.push(conv(x)),
            None => return Err(format!("{what}: nth({k}) returned None with {r} items remaining")),
        }
        r -= k + 1;
    } else {
        if got.is_some() {
            return Err(format!("{what}: nth({k}) returned an item with only {r} items remaining"));
        }
        r = 0;
    }
    if it.len() != r || it.size_hint() != (r, Some(r)) {
        return Err(format!("{what}: after {j} x next() and nth({k}): len() = {}, size_hint() = {:?}, but {r} items remain", it.len(), it.size_hint()));
    }
    let mut n = 0usize;
    let rest = it.fold(Vec::new(), |mut acc, x| {
        n += 1;
        if n <= total + 4 {
            acc.push(conv(x));
        }
        acc
    });
    if n != r {
        return Err(format!("{what}: after {j} x next() and nth({k}) a fold visited {n} items but {r} remain"));
    }
    out.extend(rest);
    if out.len() != total - skipped {
        return Err(format!("{what}: {j} x next(), nth({k}), fold yielded {} items in total, expected {}", out.len(), total - skipped));
    }
    let so = sorted(out);
    if so.windows(2).any(|w| w[0] == w[1]) || so.iter().any(|e| !stored.contains(e)) {
        return Err(format!("{what}: {j} x next(), nth({k}), fold yielded {:?} which is not a duplicate-free selection of {:?}", so, stored));
    }
    Ok(())
}

fn expect(what: &str, got: Vec<E3>, want: &[E3]) -> Result<(), String> {
    let got = sorted(got);
    if got != want {
        return Err(format!("{what}: yielded {:?}, reference {:?}", got, want));
    }
    Ok(())
}

/// C09: every iterator kind x every prefix length x {next, fold, for_each, clone}.
pub fn probe_iterators<K: KeyT, V: ValT>(rebuild: &dyn Fn() -> MapSut<K, V>, sut: &mut MapSut<K, V>, stats: &Stats) -> Result<(), String> {
    let n = sut.model.len();
    let full = sorted(sut.model.clone());
    let keys = sorted(sut.model.iter().map(|e| (e.0, e.1, 0)).collect());
    let vals = sorted(sut.model.iter().map(|e| (0, 0, e.2)).collect());
    let mut count = 0u64;
    let kv = |(k, v): (&K, &V)| (k.id(), k.tok(), v.tok());
    let kvm = |(k, v): (&K, &mut V)| (k.id(), k.tok(), v.tok());
    let ko = |k: &K| (k.id(), k.tok(), 0);
    let vo = |v: &V| (0, 0, v.tok());
    let vm = |v: &mut V| (0, 0, v.tok());
    for j in 0..=n + 2 {
        crate::crumbs::touch();
        for tail in [Tail::Next, Tail::Fold, Tail::ForEach] {
            expect("iter()", drive(sut.map.iter(), n, j, tail, "iter()", &kv)?, &full)?;
            expect("(&map).into_iter()", drive((&sut.map).into_iter(), n, j, tail, "(&map).into_iter()", &kv)?, &full)?;
            expect("keys()", drive(sut.map.keys(), n, j, tail, "keys()", &ko)?, &keys)?;
            expect("values()", drive(sut.map.values(), n, j, tail, "values()", &vo)?, &vals)?;
            expect("iter_mut()", drive(sut.map.iter_mut(), n, j, tail, "iter_mut()", &kvm)?, &full)?;
            expect("(&mut map).into_iter()", drive((&mut sut.map).into_iter(), n, j, tail, "(&mut map).into_iter()", &kvm)?, &full)?;
            expect("values_mut()", drive(sut.map.values_mut(), n, j, tail, "values_mut()", &vm)?, &vals)?;
            count += 7;
        }
        // clone at position j: both continue independently from the same position
        if j <= n {
            let mut a = sut.map.iter();
            let mut first = Vec::new();
            for _ in 0..j {
                first.push(kv(a.next().ok_or("iter(): ended early")?));
            }
            let b = a.clone();
            let ra = drive(a, n - j, 1.min(n - j), Tail::Next, "iter() after clone (original)", &kv)?;
            let rb = drive(b, n - j, 0, Tail::Fold, "iter().clone()", &kv)?;
            if sorted(ra.clone()) != sorted(rb) {
                return Err("iter().clone() does not continue from the same position".into());
            }
            first.extend(ra);
            expect("iter() + clone", first, &full)?;
            let mut a = sut.map.keys();
            for _ in 0..j {
                a.next();
            }
            let b = a.clone();
            let ra = drive(a, n - j, 0, Tail::Next, "keys() after clone", &ko)?;
            let rb = drive(b, n - j, 0, Tail::Next, "keys().clone()", &ko)?;
            if sorted(ra) != sorted(rb) {
                return Err("keys().clone() does not continue from the same position".into());
            }
            let mut a = sut.map.values();
            for _ in 0..j {
                a.next();
            }
            let b = a.clone();
            let ra = drive(a, n - j, 0, Tail::Fold, "values() after clone", &vo)?;
            let rb = drive(b, n - j, 0, Tail::Next, "values().clone()", &vo)?;
            if sorted(ra) != sorted(rb) {
                return Err("values().clone() does not continue from the same position".into());
            }
            count += 3;
        }
        // Debug of the collection and of every iterator at position j lists exactly the elements not yet yielded
        if j <= n {
            let marks = |text: String, marker: &str| text.matches(marker).count();
            let check = |what: &str, text: String, keys_want: usize, vals_want: usize| -> Result<(), String> {
                let (k, v) = (marks(text.clone(), "K#"), marks(text, "V#"));
                // (a Debug impl may print less - "Drain { .. }" - but never something that is not there any more)
                if k > keys_want || v > vals_want {
                    return Err(format!("Debug of {what} after {j} of {n} items lists {k} keys and {v} values, but only {keys_want} / {vals_want} remain"));
                }
                let errs = env::take_errors();
                if !errs.is_empty() {
                    return Err(format!("Debug of {what} after {j} of {n} items: {}", errs.join("; ")));
                }
                Ok(())
            };
            let r = n - j;
            if j == 0 {
                check("the map", format!("{:?}", sut.map), n, n)?;
            }
            macro_rules! adv {
                ($it:expr) => {{
                    let mut it = $it;
                    for _ in 0..j {
                        it.next();
                    }
                    it
                }};
            }
            check("iter()", format!("{:?}", adv!(sut.map.iter())), r, r)?;
            check("keys()", format!("{:?}", adv!(sut.map.keys())), r, 0)?;
            check("values()", format!("{:?}", adv!(sut.map.values())), 0, r)?;
            check("iter_mut()", format!("{:?}", adv!(sut.map.iter_mut())), r, r)?;
            check("values_mut()", format!("{:?}", adv!(sut.map.values_mut())), 0, r)?;
            {
                let mut s = rebuild();
                let m = std::mem::take(&mut s.map);
                let mut it = m.into_iter();
                let taken: Vec<(K, V)> = (0..j).filter_map(|_| it.next()).collect();
                check("into_iter()", format!("{:?}", it), r, r)?;
                drop(taken);
                drop(it);
                s.finish().map_err(|m| format!("after Debug of into_iter(): {m}"))?;
                let mut s = rebuild();
                let m = std::mem::take(&mut s.map);
                let mut it = m.into_keys();
                let taken: Vec<K> = (0..j).filter_map(|_| it.next()).collect();
                check("into_keys()", format!("{:?}", it), r, 0)?;
                drop(taken);
                drop(it);
                s.finish().map_err(|m| format!("after Debug of into_keys(): {m}"))?;
                let mut s = rebuild();
                let m = std::mem::take(&mut s.map);
                let mut it = m.into_values();
                let taken: Vec<V> = (0..j).filter_map(|_| it.next()).collect();
                check("into_values()", format!("{:?}", it), 0, r)?;
                drop(taken);
                drop(it);
                s.finish().map_err(|m| format!("after Debug of into_values(): {m}"))?;
                let mut s = rebuild();
                {
                    let mut it = s.map.drain();
                    let taken: Vec<(K, V)> = (0..j).filter_map(|_| it.next()).collect();
                    // (the taken elements are dropped first: a Debug that walks their old slots then meets dead elements)
                    drop(taken);
                    check("drain()", format!("{:?}", it), r, r)?;
                }
                s.model.clear();
                s.finish().map_err(|m| format!("after Debug of drain(): {m}"))?;
            }
            count += 10;
        }
        // nth(k): within range, exactly to the end, and overshooting
        if j <= n {
            let r = n - j;
            let mut ks = vec![0usize, 1, r.saturating_sub(1), r, r + 1, r + 17];
            ks.sort_unstable();
            ks.dedup();
            for &k in &ks {
                drive_nth(sut.map.iter(), n, j, k, "iter()", &kv, &full)?;
                drive_nth(sut.map.keys(), n, j, k, "keys()", &ko, &keys)?;
                drive_nth(sut.map.values(), n, j, k, "values()", &vo, &vals)?;
                drive_nth(sut.map.iter_mut(), n, j, k, "iter_mut()", &kvm, &full)?;
                drive_nth(sut.map.values_mut(), n, j, k, "values_mut()", &vm, &vals)?;
                count += 5;
            }
            for &k in &[0usize, r, r + 1] {
                let kvo = |(k, v): (K, V)| (k.id(), k.tok(), v.tok());
                let mut s = rebuild();
                let m = std::mem::take(&mut s.map);
                drive_nth(m.into_iter(), n, j, k, "into_iter()", &kvo, &full)?;
                s.finish().map_err(|m| format!("after into_iter() with nth: {m}"))?;
                let mut s = rebuild();
                drive_nth(s.map.drain(), n, j, k, "drain()", &kvo, &full)?;
                s.model.clear();
                s.check_all(sut.probe_keys.len() as u8, true, true).map_err(|m| format!("after drain() with nth: {m}"))?;
                s.finish().map_err(|m| format!("after drain() with nth: {m}"))?;
                count += 2;
            }
        }
        // rustc_iter(): a read-only view of what IterMut / IntoIter / Drain have not yielded yet
        if j <= n {
            let rest_ok = |first: &Vec<E3>, rest: Vec<E3>, what: &str| -> Result<(), String> {
                let mut all = first.clone();
                all.extend(rest);
                if sorted(all.clone()) != full {
                    return Err(format!("{what}: yielded so far {:?} + rustc_iter() {:?} != stored {:?}", first, &all[first.len()..], full));
                }
                Ok(())
            };
            {
                let mut it = sut.map.iter_mut();
                let mut first = Vec::new();
                for _ in 0..j {
                    first.push(kvm(it.next().ok_or("iter_mut(): ended early")?));
                }
                let rest = drive(it.rustc_iter(), n - j, 0, Tail::Next, "iter_mut().rustc_iter()", &kv)?;
                rest_ok(&first, rest, "iter_mut().rustc_iter()")?;
                let again: Vec<E3> = it.map(kvm).collect();
                if again.len() != n - j {
                    return Err("iter_mut(): rustc_iter() advanced the iterator it was taken from".into());
                }
            }
            {
                let kvo = |(k, v): (K, V)| (k.id(), k.tok(), v.tok());
                let mut s = rebuild();
                let m = std::mem::take(&mut s.map);
                let mut it = m.into_iter();
                let mut first = Vec::new();
                for _ in 0..j {
                    first.push(kvo(it.next().ok_or("into_iter(): ended early")?));
                }
                let rest = drive(it.rustc_iter(), n - j, 0, Tail::Next, "into_iter().rustc_iter()", &kv)?;
                rest_ok(&first, rest, "into_iter().rustc_iter()")?;
                drop(it);
                s.finish().map_err(|m| format!("after into_iter().rustc_iter(): {m}"))?;
                let mut s = rebuild();
                {
                    let mut it = s.map.drain();
                    let mut first = Vec::new();
                    for _ in 0..j {
                        first.push(kvo(it.next().ok_or("drain(): ended early")?));
                    }
                    let rest = drive(it.rustc_iter(), n - j, 0, Tail::Next, "drain().rustc_iter()", &kv)?;
                    rest_ok(&first, rest, "drain().rustc_iter()")?;
                }
                s.model.clear();
                s.finish().map_err(|m| format!("after drain().rustc_iter(): {m}"))?;
            }
            count += 3;
        }
        // consuming iterators need a fresh replay of the state each time
        for tail in [Tail::Next, Tail::Fold] {
            let kvo = |(k, v): (K, V)| (k.id(), k.tok(), v.tok());
            let koo = |k: K| (k.id(), k.tok(), 0);
            let voo = |v: V| (0, 0, v.tok());
            {
                let mut s = rebuild();
                let m = std::mem::take(&mut s.map);
                expect("into_iter()", drive(m.into_iter(), n, j, tail, "into_iter()", &kvo)?, &full)?;
                s.finish().map_err(|m| format!("after into_iter(): {m}"))?;
            }
            {
                let mut s = rebuild();
                let m = std::mem::take(&mut s.map);
                expect("into_keys()", drive(m.into_keys(), n, j, tail, "into_keys()", &koo)?, &keys)?;
                s.finish().map_err(|m| format!("after into_keys(): {m}"))?;
            }
            {
                let mut s = rebuild();
                let m = std::mem::take(&mut s.map);
                expect("into_values()", drive(m.into_values(), n, j, tail, "into_values()", &voo)?, &vals)?;
                s.finish().map_err(|m| format!("after into_values(): {m}"))?;
            }
            {
                let mut s = rebuild();
                expect("drain()", drive(s.map.drain(), n, j, tail, "drain()", &kvo)?, &full)?;
                if !s.map.is_empty() || s.map.len() != 0 {
                    return Err("drain(): collection not empty after the drain was consumed".into());
                }
                s.model.clear();
                s.check_all(sut.probe_keys.len() as u8, true, true).map_err(|m| format!("after drain(): {m}"))?;
                s.finish().map_err(|m| format!("after drain(): {m}"))?;
            }
            count += 4;
        }
        // partial consumption: j items taken, iterator dropped; the rest must be dropped exactly once
        if j <= n {
            let kvo = |(k, v): (K, V)| (k.id(), k.tok(), v.tok());
            let koo = |k: K| (k.id(), k.tok(), 0);
            let voo = |v: V| (0, 0, v.tok());
            let subset = |what: &str, got: Vec<E3>, of: &[E3]| -> Result<(), String> {
                let got = sorted(got);
                if got.len() != j.min(n) || got.windows(2).any(|w| w[0] == w[1]) || got.iter().any(|g| !of.contains(g)) {
                    return Err(format!("{what} (dropped after {j} items): yielded {:?}, stored {:?}", got, of));
                }
                Ok(())
            };
            {
                let mut s = rebuild();
                let m = std::mem::take(&mut s.map);
                subset("into_iter()", drive(m.into_iter(), n, j, Tail::DropNow, "into_iter()", &kvo)?, &full)?;
                s.finish().map_err(|m| format!("after into_iter() dropped after {j} items: {m}"))?;
            }
            {
                let mut s = rebuild();
                let m = std::mem::take(&mut s.map);
                subset("into_keys()", drive(m.into_keys(), n, j, Tail::DropNow, "into_keys()", &koo)?, &keys)?;
                s.finish().map_err(|m| format!("after into_keys() dropped after {j} items: {m}"))?;
            }
            {
                let mut s = rebuild();
                let m = std::mem::take(&mut s.map);
                subset("into_values()", drive(m.into_values(), n, j, Tail::DropNow, "into_values()", &voo)?, &vals)?;
                s.finish().map_err(|m| format!("after into_values() dropped after {j} items: {m}"))?;
            }
            count += 3;
        }
    }
    // default-constructed iterators are empty
    fn empty<I: Iterator + ExactSizeIterator>(mut it: I, what: &str) -> Result<(), String> {
        if it.len() != 0 || it.size_hint() != (0, Some(0)) || it.next().is_some() || it.next().is_some() {
            return Err(format!("{what}::default() is not an empty iterator"));
        }
        Ok(())
    }
    empty(hash_map::Iter::<K, V>::default(), "Iter")?;
    empty(hash_map::IterMut::<K, V>::default(), "IterMut")?;
    empty(hash_map::Keys::<K, V>::default(), "Keys")?;
    empty(hash_map::Values::<K, V>::default(), "Values")?;
    empty(hash_map::ValuesMut::<K, V>::default(), "ValuesMut")?;
    empty(hash_map::IntoIter::<K, V, CheckAlloc>::default(), "IntoIter")?;
    empty(hash_map::IntoKeys::<K, V, CheckAlloc>::default(), "IntoKeys")?;
    empty(hash_map::IntoValues::<K, V, CheckAlloc>::default(), "IntoValues")?;
    // fold on a default iterator
    if hash_map::Iter::<K, V>::default().fold(0, |a, _| a + 1) != 0 {
        return Err("Iter::default().fold visited an element".into());
    }
    count += 9;
    stats.probe(count);
    Ok(())
}

/// C10: retain / extract_if with every subset of the stored elements as the
/// predicate's true-set; every early-drop point of extract_if and drain.
pub fn probe_removal<K: KeyT, V: ValT>(
    rebuild: &dyn Fn() -> MapSut<K, V>,
    sut: &mut MapSut<K, V>,
    universe: u8,
    max_len_for_subsets: usize,
    stats: &Stats,
) -> Result<(), String> {
    let n = sut.model.len();
    let full = sorted(sut.model.clone());
    let ids: Vec<u8> = full.iter().map(|e| e.0).collect();
    let mut count = 0u64;
    let pre_alloc = sut.map.allocation_size();
    let subsets: Vec<u32> = if n <= max_len_for_subsets {
        (0..(1u32 << n)).collect()
    } else {
        // all subsets of size <= 1, complements of those, and the two alternating patterns
        let mut v = vec![0u32, (1u32 << n) - 1, 0x5555_5555 & ((1u32 << n) - 1), 0xAAAA_AAAA & ((1u32 << n) - 1)];
        for i in 0..n {
            v.push(1 << i);
            v.push(((1u32 << n) - 1) ^ (1 << i));
        }
        v
    };
    let in_set = |mask: u32, id: u8| -> bool { ids.iter().position(|&x| x == id).map_or(false, |p| mask >> p & 1 == 1) };
    for &mask in &subsets {
        crate::crumbs::touch();
        // retain: keep exactly `mask`
        {
            let mut s = rebuild();
            let mut seen: Vec<E3> = Vec::new();
            s.map.retain(|k, v| {
                env::tick(Class::Closure);
                seen.push((k.id(), k.tok(), v.tok()));
                let keep = in_set(mask, k.id());
                if keep {
                    v.set_tok(v.tok() ^ 0x4000_0000);
                }
                keep
            });
            if sorted(seen.clone()) != full {
                return Err(format!("retain: predicate was called on {:?}, expected exactly once on each of {:?}", sorted(seen), full));
            }
            s.model.retain(|e| in_set(mask, e.0));
            for e in s.model.iter_mut() {
                e.2 ^= 0x4000_0000;
            }
            s.check_all(universe, true, true).map_err(|m| format!("after retain(keep mask {mask:#b} of ids {:?}): {m}", ids))?;
            s.finish().map_err(|m| format!("after retain: {m}"))?;
            count += 1;
        }
        // extract_if: extract exactly `mask`, dropped after `cut` yielded items (cut = all, and each early point)
        let extracted_total = (0..n).filter(|p| mask >> p & 1 == 1).count();
        for (cut, fin) in (0..=extracted_total).flat_map(|c| [(c, 0u8), (c, 1u8)]) {
            if cut < extracted_total && n > max_len_for_subsets {
                continue;
            }
            let mut rest = 0usize;
            let mut s = rebuild();
            let mut visited: Vec<u8> = Vec::new();
            let mut yielded: Vec<E3> = Vec::new();
            {
                let mut it = s.map.extract_if(|k, v| {
                    env::tick(Class::Closure);
                    visited.push(k.id());
                    v.set_tok(v.tok() ^ 0x2000_0000);
                    in_set(mask, k.id())
                });
                for step in 0..cut {
                    let (lo, hi) = it.size_hint();
                    let left = extracted_total - step;
                    if lo > left || hi.map_or(false, |h| h < left) {
                        return Err(format!("extract_if: size_hint() = {:?} but exactly {left} more elements are yielded", (lo, hi)));
                    }
                    match it.next() {
                        Some((k, v)) => yielded.push((k.id(), k.tok(), v.tok())),
                        None => return Err("extract_if: ended before yielding every selected element".into()),
                    }
                }
                {
                    let (lo, hi) = it.size_hint();
                    let left = extracted_total - cut;
                    if lo > left || hi.map_or(false, |h| h < left) {
                        return Err(format!("extract_if: size_hint() = {:?} after {cut} items but exactly {left} more elements are yielded", (lo, hi)));
                    }
                }
                if fin == 1 {
                    // internal iteration (count -> fold) after `cut` external steps
                    rest = it.count();
                    if cut + rest != extracted_total {
                        return Err(format!("extract_if: {cut} next() calls then count() = {rest}, but the predicate selects {extracted_total} elements"));
                    }
                } else if cut == extracted_total {
                    if let Some((k, _)) = it.next() {
                        return Err(format!("extract_if: yielded key {} which the predicate did not select (or yielded twice)", k.id()));
                    }
                    if it.next().is_some() {
                        return Err("extract_if: yielded an item after None".into());
                    }
                }
            }
            if fin == 1 && visited.len() != n {
                return Err(format!("extract_if: next() x {cut} then count() visited {} of {} elements", visited.len(), n));
            }
            // each element visited at most once
            let mut vs = visited.clone();
            vs.sort_unstable();
            vs.dedup();
            if vs.len() != visited.len() {
                return Err(format!("extract_if: predicate visited an element twice: {:?}", visited));
            }
            if cut == extracted_total && visited.len() != n {
                return Err(format!("extract_if: exhausted after visiting {} of {} elements", visited.len(), n));
            }
            for y in &yielded {
                if !in_set(mask, y.0) {
                    return Err(format!("extract_if: yielded {:?} for which the predicate returned false", y));
                }
                let want = full.iter().find(|e| e.0 == y.0).unwrap();
                if y.1 != want.1 || y.2 != want.2 ^ 0x2000_0000 {
                    return Err(format!("extract_if: yielded {:?}, expected entry {:?} with the predicate's mutation", y, want));
                }
            }
            // visited & selected elements are removed (and must all have been yielded); everything else stays
            let removed: Vec<u8> = visited.iter().copied().filter(|&id| in_set(mask, id)).collect();
            if removed.len() != yielded.len() + rest {
                return Err(format!("extract_if: predicate selected {} visited elements but {} were yielded", removed.len(), yielded.len() + rest));
            }
            s.model.retain(|e| !removed.contains(&e.0));
            for e in s.model.iter_mut() {
                if visited.contains(&e.0) {
                    e.2 ^= 0x2000_0000;
                }
            }
            s.check_all(universe, true, true)
                .map_err(|m| format!("after extract_if(select mask {mask:#b} of ids {:?}, dropped after {cut} items): {m}", ids))?;
            s.finish().map_err(|m| format!("after extract_if: {m}"))?;
            count += 1;
        }
    }
    // drain dropped after j items
    for (j, fin) in (0..=n).flat_map(|j| [(j, 0u8), (j, 1u8)]) {
        let mut s = rebuild();
        let mut got = Vec::new();
        {
            let mut d = s.map.drain();
            for _ in 0..j {
                match d.next() {
                    Some((k, v)) => got.push((k.id(), k.tok(), v.tok())),
                    None => return Err("drain(): ended early".into()),
                }
            }
            if fin == 1 {
                if d.len() != n - j {
                    return Err(format!("drain(): len() = {} after {j} of {n} items", d.len()));
                }
                d.for_each(|(k, v)| got.push((k.id(), k.tok(), v.tok())));
                if sorted(got.clone()) != full {
                    return Err(format!("drain(): next() x {j} then for_each yielded {:?}, stored {:?}", sorted(got), full));
                }
            }
        }
        for g in &got {
            if !full.contains(g) {
                return Err(format!("drain(): yielded {:?} which is not stored", g));
            }
        }
        s.model.clear();
        if s.map.allocation_size() != pre_alloc {
            return Err(format!("drain(): allocation changed from {} to {} bytes", pre_alloc, s.map.allocation_size()));
        }
        s.check_all(universe, true, true).map_err(|m| format!("after drain() dropped after {j} items: {m}"))?;
        // still usable
        if universe > 0 {
            s.map.insert(K::make(0, 77), V::make(78));
            s.model.push((0, 77, 78));
            s.check_all(universe, true, true).map_err(|m| format!("insert after partial drain(): {m}"))?;
        }
        s.finish().map_err(|m| format!("after partial drain(): {m}"))?;
        count += 1;
    }
    stats.probe(count);
    Ok(())
}

pub fn dbg<T: Debug>(t: &T) -> String {
    format!("{:?}", t)
}

// ---------------------------------------------------------------------------
// C08 capacity contract
// ---------------------------------------------------------------------------

fn boundary_values(cap: usize) -> Vec<usize> {
    let mut v: Vec<usize> = (0..=4 * cap.max(1)).collect();
    for k in 2..10usize {
        let b = (1usize << k) / 8 * 7;
        for d in [b.saturating_sub(1), b, b + 1] {
            if d > 4 * cap && d <= 520 {
                v.push(d);
            }
        }
    }
    v.sort_unstable();
    v.dedup();
    v
}

/// id of the i-th "fresh" key (outside the universe) — same class structure as the plan
fn fresh_id(i: usize) -> u8 {
    (128 + i) as u8
}

pub fn probe_capacity<K: KeyT, V: ValT>(rebuild: &dyn Fn() -> MapSut<K, V>, sut: &mut MapSut<K, V>, universe: u8, stats: &Stats) -> Result<(), String> {
    let mut count = 0u64;
    let len = sut.map.len();
    let cap = sut.map.capacity();
    let asize = sut.map.allocation_size();
    if cap < len {
        return Err(format!("capacity() {cap} < len() {len}"));
    }
    // fill to capacity: no allocator traffic at all
    {
        let mut s = rebuild();
        let room = s.map.capacity() - s.map.len();
        if room <= 120 {
            let (a0, d0) = env::alloc_calls();
            for i in 0..room {
                let (t1, t2) = (s.tok(), s.tok());
                let id = fresh_id(i);
                let r = s.map.insert(K::make(id, t1), V::make(t2));
                if r.is_some() {
                    return Err("fill: fresh key reported as present".into());
                }
                s.model.push((id, t1, t2));
            }
            let (a1, d1) = env::alloc_calls();
            if a1 != a0 || d1 != d0 {
                return Err(format!(
                    "inserting capacity()-len() = {room} absent keys performed {} allocation(s) and {} deallocation(s) (capacity {}, len {})",
                    a1 - a0, d1 - d0, cap, len
                ));
            }
            if s.map.len() != len + room {
                return Err("fill: len() wrong after filling to capacity".into());
            }
            // fresh keys are outside the universe: compare contents only
            let mut got: Vec<E3> = s.map.iter().map(|(k, v)| (k.id(), k.tok(), v.tok())).collect();
            got.sort_unstable();
            let mut want = s.model.clone();
            want.sort_unstable();
            if got != want {
                return Err(format!("fill to capacity: contents {:?}, reference {:?}", got, want));
            }
            for e in &want {
                if s.map.get(&KeyRef(e.0)).map(|v| v.tok()) != Some(e.2) {
                    return Err(format!("fill to capacity: key {} not found afterwards", e.0));
                }
            }
            s.finish().map_err(|m| format!("after fill to capacity: {m}"))?;
            count += 1;
        }
    }
    // the same through the bulk insertion API: extending by j <= capacity() - len() absent keys (j = 0 included),
    // with an exact or an understating size hint, performs no allocation
    {
        let room = cap - len;
        if room <= 120 {
            let mut js = vec![0usize, 1, room / 2, room];
            js.sort_unstable();
            js.dedup();
            for &j in js.iter().filter(|&&j| j <= room) {
                for exact_hint in [true, false] {
                    let mut s = rebuild();
                    let items: Vec<(K, V)> = (0..j).map(|i| (K::make(fresh_id(i), 9000 + i as u32), V::make(9500 + i as u32))).collect();
                    let hint = if exact_hint { (j, Some(j)) } else { (0, None) };
                    let (a0, d0) = env::alloc_calls();
                    s.map.extend(crate::mapsut::HintIter { inner: items.into_iter(), hint });
                    let (a1, d1) = env::alloc_calls();
                    if a1 != a0 || d1 != d0 {
                        return Err(format!(
                            "extend by {j} absent keys (size hint {:?}) with capacity() - len() = {room} performed {} allocation(s) and {} deallocation(s) (capacity {cap}, len {len})",
                            hint, a1 - a0, d1 - d0
                        ));
                    }
                    if s.map.len() != len + j || s.map.capacity() < len + j {
                        return Err(format!("extend by {j} absent keys: len() = {}, capacity() = {}", s.map.len(), s.map.capacity()));
                    }
                    s.finish().map_err(|m| format!("after extend by {j} absent keys: {m}"))?;
                    count += 1;
                }
            }
        }
    }
    // reserve(n)
    for n in boundary_values(cap) {
        crate::crumbs::touch();
        let mut s = rebuild();
        let before = s.map.allocation_size();
        let (a0, _) = env::alloc_calls();
        s.map.reserve(n);
        let (a1, _) = env::alloc_calls();
        if s.map.capacity() < len + n {
            return Err(format!("reserve({n}): capacity() = {} < len() {len} + {n}", s.map.capacity()));
        }
        if n <= cap - len && (a1 != a0 || s.map.allocation_size() != before) {
            return Err(format!("reserve({n}) with {} spare capacity touched the allocator", cap - len));
        }
        s.check_all(universe, true, true).map_err(|m| format!("after reserve({n}): {m}"))?;
        s.finish().map_err(|m| format!("after reserve({n}): {m}"))?;
        count += 1;
    }
    // shrink_to(m)
    let mut ms: Vec<usize> = (0..=cap + 1).collect();
    ms.extend([2 * cap + 3, 1000, usize::MAX]);
    for m in ms {
        let mut s = rebuild();
        s.map.shrink_to(m);
        let ncap = s.map.capacity();
        let nsize = s.map.allocation_size();
        if nsize > asize {
            return Err(format!("shrink_to({m}) enlarged the allocation from {asize} to {nsize} bytes"));
        }
        if ncap < len.max(m.min(cap)) {
            return Err(format!("shrink_to({m}): capacity() = {ncap} < max(len {len}, min(m, previous capacity {cap}))"));
        }
        if len == 0 && m == 0 {
            if nsize != 0 || env::live_bytes() != s.base.live_bytes {
                return Err(format!("shrink_to(0) on an empty collection kept {nsize} bytes allocated"));
            }
        } else {
            let want_n = len.max(m);
            if want_n < (1 << 20) {
                let fresh: Map<K, V> = Map::with_capacity_and_hasher_in(want_n, PlanBuild::default(), CheckAlloc);
                let fsize = fresh.allocation_size();
                drop(fresh);
                if nsize > fsize.max(0) && nsize > fsize {
                    return Err(format!(
                        "shrink_to({m}) left {nsize} bytes allocated, more than a fresh with_capacity({want_n}) = {fsize} bytes"
                    ));
                }
            }
        }
        s.check_all(universe, true, true).map_err(|e| format!("after shrink_to({m}): {e}"))?;
        s.finish().map_err(|e| format!("after shrink_to({m}): {e}"))?;
        count += 1;
    }
    // shrink_to_fit
    {
        let mut s = rebuild();
        s.map.shrink_to_fit();
        if s.map.allocation_size() > asize {
            return Err("shrink_to_fit enlarged the allocation".into());
        }
        if len == 0 && s.map.allocation_size() != 0 {
            return Err("shrink_to_fit on an empty collection kept its allocation".into());
        }
        if len > 0 {
            let fresh: Map<K, V> = Map::with_capacity_and_hasher_in(len, PlanBuild::default(), CheckAlloc);
            if s.map.allocation_size() > fresh.allocation_size() {
                return Err(format!("shrink_to_fit left {} bytes, a fresh with_capacity({len}) needs {}", s.map.allocation_size(), fresh.allocation_size()));
            }
        }
        s.check_all(universe, true, true).map_err(|e| format!("after shrink_to_fit: {e}"))?;
        s.finish().map_err(|e| format!("after shrink_to_fit: {e}"))?;
        count += 1;
    }
    // clear and drain keep the allocation
    {
        let mut s = rebuild();
        let (a0, d0) = env::alloc_calls();
        s.map.clear();
        let (a1, d1) = env::alloc_calls();
        if (a1, d1) != (a0, d0) || s.map.allocation_size() != asize {
            return Err("clear() touched the allocation".into());
        }
        if s.map.capacity() < cap {
            return Err(format!("clear() reduced capacity from {cap} to {}", s.map.capacity()));
        }
        s.model.clear();
        s.check_all(universe, true, true).map_err(|e| format!("after clear: {e}"))?;
        s.finish().map_err(|e| format!("after clear: {e}"))?;
        let mut s = rebuild();
        let (a0, d0) = env::alloc_calls();
        drop(s.map.drain());
        let (a1, d1) = env::alloc_calls();
        if (a1, d1) != (a0, d0) || s.map.allocation_size() != asize {
            return Err("drain() touched the allocation".into());
        }
        s.model.clear();
        s.check_all(universe, true, true).map_err(|e| format!("after drain: {e}"))?;
        s.finish().map_err(|e| format!("after drain: {e}"))?;
        count += 2;
    }
    stats.probe(count);
    Ok(())
}

/// State-independent part of C08: constructors.
pub fn probe_constructors<K: KeyT, V: ValT>() -> Result<u64, String> {
    let mut count = 0;
    let (a0, _) = env::alloc_calls();
    let m1: Map<K, V> = Map::default();
    let m2: Map<K, V> = Map::with_hasher_in(PlanBuild::default(), CheckAlloc);
    let m3: Map<K, V> = Map::with_capacity_and_hasher_in(0, PlanBuild::default(), CheckAlloc);
    let (a1, _) = env::alloc_calls();
    if a1 != a0 {
        return Err("default()/with_hasher_in()/with_capacity(0) called the allocator".into());
    }
    {
        // constructors of the default-hasher / global-allocator flavours
        use hashbrown::{HashMap, HashSet, HashTable};
        let (a0, _) = env::alloc_calls();
        let n1: HashMap<K, V, hashbrown::DefaultHashBuilder, CheckAlloc> = HashMap::new_in(CheckAlloc);
        let n2: HashSet<K, hashbrown::DefaultHashBuilder, CheckAlloc> = HashSet::new_in(CheckAlloc);
        let n3: HashTable<K, CheckAlloc> = HashTable::new_in(CheckAlloc);
        let (a1, _) = env::alloc_calls();
        if a1 != a0 || n1.capacity() != 0 || n2.capacity() != 0 || n3.capacity() != 0 || n1.allocation_size() + n2.allocation_size() + n3.allocation_size() != 0 {
            return Err("new_in() allocated or reports capacity".into());
        }
        for n in [0usize, 1, 3, 4, 7, 8, 14, 15, 28, 29, 100] {
            let c1: HashMap<K, V, hashbrown::DefaultHashBuilder, CheckAlloc> = HashMap::with_capacity_in(n, CheckAlloc);
            let c2: HashSet<K, hashbrown::DefaultHashBuilder, CheckAlloc> = HashSet::with_capacity_in(n, CheckAlloc);
            let c3: HashTable<K, CheckAlloc> = HashTable::with_capacity_in(n, CheckAlloc);
            let g1: HashMap<K, V, PlanBuild> = HashMap::with_capacity_and_hasher(n, PlanBuild::default());
            let g2: HashSet<K, PlanBuild> = HashSet::with_capacity_and_hasher(n, PlanBuild::default());
            let g3: HashMap<K, V> = HashMap::with_capacity(n);
            let g4: HashSet<K> = HashSet::with_capacity(n);
            let g5: HashTable<K> = HashTable::with_capacity(n);
            let caps = [c1.capacity(), c2.capacity(), c3.capacity(), g1.capacity(), g2.capacity(), g3.capacity(), g4.capacity(), g5.capacity()];
            if caps.iter().any(|&c| c < n) || (n == 0 && caps.iter().any(|&c| c != 0)) {
                return Err(format!("with_capacity*({n}) constructors report capacities {:?}", caps));
            }
            if c1.allocation_size() + c2.allocation_size() + c3.allocation_size() != env::live_bytes() {
                return Err(format!("with_capacity_in({n}): allocation_size() of map+set+table != ledger {}", env::live_bytes()));
            }
            if (g1.allocation_size() == 0) != (n == 0) || (g5.allocation_size() == 0) != (n == 0) {
                return Err(format!("with_capacity({n}) (global allocator): allocation_size() = {}", g1.allocation_size()));
            }
        }
        if env::live_bytes() != 0 {
            return Err("with_capacity_in constructors leaked".into());
        }
        count += 11;
    }
    {
        // clear() and a consumed drain() keep the allocation, also of large and almost empty tables
        use hashbrown::{HashMap, HashSet, HashTable};
        for cap in [28usize, 448, 3584, 7168, 20000] {
            for items in [1usize, 2, 50, 128, 250] {
                if items > cap {
                    continue;
                }
                let mut m: HashMap<u32, u32, PlanBuild, CheckAlloc> = HashMap::with_capacity_and_hasher_in(cap, PlanBuild::default(), CheckAlloc);
                let mut st: HashSet<u8, PlanBuild, CheckAlloc> = HashSet::with_capacity_and_hasher_in(cap, PlanBuild::default(), CheckAlloc);
                let mut t: HashTable<u32, CheckAlloc> = HashTable::with_capacity_in(cap, CheckAlloc);
                for i in 0..items {
                    m.insert((i % 250) as u32 | ((i as u32) << 8), i as u32);
                    st.insert((i % 250) as u8);
                    t.insert_unique(i as u64, i as u32, |x| *x as u64);
                }
                let before = (m.allocation_size(), st.allocation_size(), t.allocation_size(), m.capacity(), st.capacity(), t.capacity());
                for round in 0..2 {
                    let (a0, d0) = env::alloc_calls();
                    if round == 0 {
                        m.clear();
                        st.clear();
                        t.clear();
                    } else {
                        m.insert(1, 1);
                        st.insert(1);
                        t.insert_unique(1, 1, |x| *x as u64);
                        let _ = (m.drain().count(), st.drain().count(), t.drain().count());
                    }
                    let (a1, d1) = env::alloc_calls();
                    let after = (m.allocation_size(), st.allocation_size(), t.allocation_size(), m.capacity(), st.capacity(), t.capacity());
                    if a1 != a0 || d1 != d0 || after != before || !m.is_empty() || !st.is_empty() || !t.is_empty() {
                        return Err(format!(
                            "{} of a table with capacity {cap} holding {items} elements: allocation sizes / capacities {:?} -> {:?}, {} allocator calls (the allocation must be kept)",
                            if round == 0 { "clear()" } else { "drain()" }, before, after, (a1 - a0) + (d1 - d0)
                        ));
                    }
                }
                count += 1;
            }
        }
        if env::live_bytes() != 0 {
            return Err("clear / drain probes leaked".into());
        }
    }
    {
        // zero-sized element types: a HashTable can hold any number of them, so the capacity contract applies unchanged
        use hashbrown::{HashMap, HashSet, HashTable};
        #[derive(Clone, Copy, PartialEq, Eq, Hash)]
        struct Unit;
        for n in (0usize..=64).chain([100, 448, 449, 1000, 3584, 3585, 4096]) {
            let t1: HashTable<(), CheckAlloc> = HashTable::with_capacity_in(n, CheckAlloc);
            let t2: HashTable<Unit, CheckAlloc> = HashTable::with_capacity_in(n, CheckAlloc);
            let t3: HashTable<[u64; 0], CheckAlloc> = HashTable::with_capacity_in(n, CheckAlloc);
            let m1: HashMap<(), (), PlanBuild, CheckAlloc> = HashMap::with_capacity_and_hasher_in(n, PlanBuild::default(), CheckAlloc);
            let s1: HashSet<Unit, PlanBuild, CheckAlloc> = HashSet::with_capacity_and_hasher_in(n, PlanBuild::default(), CheckAlloc);
            let caps = [t1.capacity(), t2.capacity(), t3.capacity(), m1.capacity(), s1.capacity()];
            if caps.iter().any(|&c| c < n) {
                return Err(format!("with_capacity({n}) for zero-sized element types reports capacities {:?}", caps));
            }
            // parity with new() + reserve(n), and the reserved room is real
            let mut r1: HashTable<(), CheckAlloc> = HashTable::new_in(CheckAlloc);
            r1.reserve(n, |_| 0);
            if r1.capacity() < n {
                return Err(format!("HashTable<()>: new() + reserve({n}) gives capacity {}", r1.capacity()));
            }
            let mut t1 = t1;
            let (a0, _) = env::alloc_calls();
            for _ in 0..n {
                t1.insert_unique(0, (), |_| 0);
            }
            let (a1, _) = env::alloc_calls();
            if a1 != a0 || t1.len() != n {
                return Err(format!("HashTable<()>::with_capacity({n}): inserting {n} entries called the allocator {} times", a1 - a0));
            }
            count += 1;
        }
        if env::live_bytes() != 0 {
            return Err("zero-sized with_capacity constructors leaked".into());
        }
    }
    for m in [&m1, &m2, &m3] {
        if m.capacity() != 0 || m.allocation_size() != 0 || m.len() != 0 {
            return Err("empty constructor produced capacity or allocation".into());
        }
    }
    drop((m1, m2, m3));
    let mut ns: Vec<usize> = (1..=4096).collect();
    for k in 12..20usize {
        let b = (1usize << k) / 8 * 7;
        ns.extend([b - 1, b, b + 1, (1 << k) - 1, 1 << k, (1 << k) + 1]);
    }
    for n in ns {
        let m: Map<K, V> = Map::with_capacity_and_hasher_in(n, PlanBuild::default(), CheckAlloc);
        if m.capacity() < n {
            return Err(format!("with_capacity({n}).capacity() = {}", m.capacity()));
        }
        if m.allocation_size() != env::live_bytes() {
            return Err(format!("with_capacity({n}): allocation_size() {} != ledger {}", m.allocation_size(), env::live_bytes()));
        }
        let d = m.verif_dump();
        crate::inv::check_structure(&d, crate::inv::Which { lawful_hash: true }, &|_| None)?;
        drop(m);
        if env::live_bytes() != 0 {
            return Err(format!("with_capacity({n}) leaked its allocation"));
        }
        count += 1;
    }
    Ok(count)
}

// ---------------------------------------------------------------------------
// C12 try_reserve
// ---------------------------------------------------------------------------

/// u128 reference: does reserving room for `new_items` overflow, and if not,
/// which layout will be requested? None = CapacityOverflow.
pub fn ref_layout(new_items: u128, size: usize, ctrl_align: usize, width: usize) -> Option<(usize, usize)> {
    let buckets: u128 = if new_items < 15 {
        let min_cap: u128 = match (width, size) {
            (16, 0..=1) => 14,
            (16, 2..=3) => 7,
            (8, 0..=1) => 7,
            _ => 3,
        };
        let c = new_items.max(min_cap);
        if c < 4 {
            4
        } else if c < 8 {
            8
        } else {
            16
        }
    } else {
        if new_items * 8 > usize::MAX as u128 {
            return None;
        }
        let adj = new_items * 8 / 7;
        adj.next_power_of_two()
    };
    if buckets > usize::MAX as u128 {
        return None;
    }
    let data = size as u128 * buckets;
    let a = ctrl_align as u128;
    let ctrl_offset = (data + a - 1) / a * a;
    if data + a - 1 > usize::MAX as u128 {
        return None;
    }
    let len = ctrl_offset + buckets + width as u128;
    if len > usize::MAX as u128 || len > isize::MAX as u128 - (a - 1) {
        return None;
    }
    Some((len as usize, ctrl_align))
}

pub fn probe_try_reserve<K: KeyT, V: ValT>(rebuild: &dyn Fn() -> MapSut<K, V>, sut: &mut MapSut<K, V>, universe: u8, stats: &Stats) -> Result<(), String> {
    use hashbrown::TryReserveError;
    let mut count = 0u64;
    let len = sut.map.len();
    let cap = sut.map.capacity();
    let d0 = sut.map.verif_dump();
    let full_cap = hashbrown::verif::bucket_mask_to_capacity(d0.bucket_mask);
    let (size, ctrl_align) = hashbrown::verif::table_layout_of::<(K, V)>();
    let w = hashbrown::verif::GROUP_WIDTH;
    let mut adds: Vec<usize> = (0..=2 * cap + 2).collect();
    for k in 2..64u32 {
        let b = ((1u128 << k) / 8 * 7) as usize;
        adds.extend([b.wrapping_sub(1), b, b.wrapping_add(1)]);
    }
    let sz = size.max(1);
    adds.extend([
        isize::MAX as usize - 1,
        isize::MAX as usize,
        isize::MAX as usize + 1,
        usize::MAX,
        usize::MAX - 1,
        usize::MAX - len,
        (usize::MAX - len).wrapping_add(1),
        usize::MAX / sz - 1,
        usize::MAX / sz,
        usize::MAX / sz + 1,
        usize::MAX / 8 - 1,
        usize::MAX / 8,
        usize::MAX / 8 + 1,
        isize::MAX as usize / sz,
        isize::MAX as usize / sz / 2,
    ]);
    adds.sort_unstable();
    adds.dedup();
    // allocator behaviours: serve (but refuse > 1 MiB), refuse the next request
    for behaviour in 0..2 {
        for &add in &adds {
            let mut s = rebuild();
            let before_canon = s.map.verif_dump();
            let before_blocks = env::live_blocks();
            env::with(|e| {
                e.refused.clear();
                e.requests.clear();
                e.log_requests = true;
                e.refuse_above = Some(1 << 20);
                e.refuse_at = if behaviour == 1 { Some(0) } else { None };
            });
            let r = env::catch(|| s.map.try_reserve(add));
            let (refused, requests) = env::with(|e| {
                e.log_requests = false;
                e.refuse_above = None;
                e.refuse_at = None;
                (std::mem::take(&mut e.refused), std::mem::take(&mut e.requests))
            });
            let r = match r {
                Ok(r) => r,
                Err(m) => return Err(format!("try_reserve({add}) panicked: {m}")),
            };
            // reference
            let new_items = len as u128 + add as u128;
            let expect: Result<Option<(usize, usize)>, ()> = if add <= cap - len {
                Ok(None) // fast path, no allocation
            } else if new_items > usize::MAX as u128 {
                Err(())
            } else if new_items <= (full_cap / 2) as u128 {
                Ok(None) // in place
            } else {
                let want = new_items.max(full_cap as u128 + 1);
                match ref_layout(want, size, ctrl_align, w) {
                    None => Err(()),
                    Some(l) => Ok(Some(l)),
                }
            };
            for rq in &requests {
                if !rq.1.is_power_of_two() || rq.0 > isize::MAX as usize - (rq.1 - 1) {
                    return Err(format!("try_reserve({add}) asked the allocator for an invalid layout {:?}", rq));
                }
            }
            match (&r, &expect) {
                (Ok(()), Ok(l)) => {
                    if !refused.is_empty() {
                        return Err(format!("try_reserve({add}) returned Ok although the allocator refused {:?}", refused));
                    }
                    if let Some(l) = l {
                        if requests.first() != Some(l) {
                            return Err(format!("try_reserve({add}) requested {:?}, reference layout {:?}", requests, l));
                        }
                    } else if !requests.is_empty() {
                        return Err(format!("try_reserve({add}) allocated {:?} although no allocation is needed", requests));
                    }
                    if s.map.capacity() < len + add {
                        return Err(format!("try_reserve({add}) = Ok but capacity() {} < len {len} + {add}", s.map.capacity()));
                    }
                    s.check_all(universe, true, true).map_err(|m| format!("after try_reserve({add}) = Ok: {m}"))?;
                }
                (Err(TryReserveError::CapacityOverflow), Err(())) => {}
                (Err(TryReserveError::AllocError { layout }), Ok(Some(l))) => {
                    if refused.len() != 1 || refused[0] != (layout.size(), layout.align()) {
                        return Err(format!("try_reserve({add}): AllocError carries {:?} but the allocator refused {:?}", layout, refused));
                    }
                    if (layout.size(), layout.align()) != *l {
                        return Err(format!("try_reserve({add}): refused layout {:?}, reference {:?}", layout, l));
                    }
                }
                (got, want) => {
                    return Err(format!("try_reserve({add}) (len {len}, capacity {cap}) returned {:?}, reference expects {:?} [Err(()) = CapacityOverflow, Ok(Some(layout)) = allocation of layout]", got, want));
                }
            }
            if r.is_err() {
                // nothing changed, nothing leaked
                let after = s.map.verif_dump();
                if after != before_canon {
                    return Err(format!("try_reserve({add}) failed but changed the table"));
                }
                if env::live_blocks() != before_blocks {
                    return Err(format!("try_reserve({add}) failed but changed the set of live allocations"));
                }
                s.check_all(universe, true, true).map_err(|m| format!("after failed try_reserve({add}): {m}"))?;
            }
            s.finish().map_err(|m| format!("after try_reserve({add}): {m}"))?;
            count += 1;
        }
    }
    stats.probe(count);
    Ok(())
}

// ---------------------------------------------------------------------------
// C15 get_many_mut / get_many_key_value_mut
// ---------------------------------------------------------------------------

fn many_map<K: KeyT, V: ValT, const N: usize>(s: &mut MapSut<K, V>, ids: [u8; N], kv: bool, unchecked: bool) -> Result<(), String> {
    let krefs: [KeyRef; N] = std::array::from_fn(|i| KeyRef(ids[i]));
    let mut expect_panic = false;
    for i in 0..N {
        for j in 0..i {
            if ids[i] == ids[j] && s.mpos(ids[i]).is_some() {
                expect_panic = true;
            }
        }
    }
    if unchecked && expect_panic {
        // overlapping requests are outside the contract of the unsafe variants
        return Ok(());
    }
    let before = sorted(s.model.clone());
    let map = &mut s.map;
    let r = env::catch(|| {
        // repeated requests are passed as the SAME query object (the first one with that id) in half of the
        // variants, as separate equal objects in the other half
        let ks: [&KeyRef; N] = std::array::from_fn(|i| if kv == unchecked { &krefs[ids.iter().position(|&x| x == ids[i]).unwrap()] } else { &krefs[i] });
        let mut out: [Option<(usize, u8, u32, u32)>; N] = [None; N];
        if kv {
            // SAFETY (contract of the unchecked variant): no two requests resolve to the same entry
            let res = if unchecked { unsafe { map.get_many_key_value_unchecked_mut(ks) } } else { map.get_many_key_value_mut(ks) };
            for (i, r) in res.into_iter().enumerate() {
                if let Some((k, v)) = r {
                    let addr = v as *mut V as usize;
                    let old = v.tok();
                    v.set_tok(0x7000_0000 + i as u32);
                    out[i] = Some((addr, k.id(), k.tok(), old));
                }
            }
        } else {
            // SAFETY: as above
            let res = if unchecked { unsafe { map.get_many_unchecked_mut(ks) } } else { map.get_many_mut(ks) };
            for (i, r) in res.into_iter().enumerate() {
                if let Some(v) = r {
                    let addr = v as *mut V as usize;
                    let old = v.tok();
                    v.set_tok(0x7000_0000 + i as u32);
                    out[i] = Some((addr, ids[i], 0, old));
                }
            }
        }
        out
    });
    let name = match (kv, unchecked) {
        (true, false) => "get_many_key_value_mut",
        (false, false) => "get_many_mut",
        (true, true) => "get_many_key_value_unchecked_mut",
        (false, true) => "get_many_unchecked_mut",
    };
    match r {
        Err(m) => {
            if !expect_panic {
                return Err(format!("{name}({:?}) panicked ({m}) although no two requests resolve to the same entry", ids));
            }
            let got = sorted(s.map.iter().map(|(k, v)| (k.id(), k.tok(), v.tok())).collect());
            if got != before {
                return Err(format!("{name}({:?}) panicked and changed the map", ids));
            }
        }
        Ok(out) => {
            if expect_panic {
                return Err(format!("{name}({:?}) returned although two requests resolve to the same entry (aliasing &mut)", ids));
            }
            for i in 0..N {
                for j in 0..i {
                    if let (Some(a), Some(b)) = (out[i], out[j]) {
                        if a.0 == b.0 && std::mem::size_of::<V>() != 0 {
                            return Err(format!("{name}({:?}) returned two references to the same entry (requests {j} and {i})", ids));
                        }
                    }
                }
            }
            for i in 0..N {
                let p = s.mpos(ids[i]);
                match (out[i], p) {
                    (Some((_, id, ktok, old)), Some(p)) => {
                        let m = s.model[p];
                        if id != ids[i] || old != m.2 || (kv && ktok != m.1) {
                            return Err(format!("{name}({:?}): result {i} is ({id}, {ktok}, {old}), reference entry {:?}", ids, m));
                        }
                        s.model[p].2 = 0x7000_0000 + i as u32;
                    }
                    (None, None) => {}
                    (Some(_), None) => return Err(format!("{name}({:?}): result {i} is Some but key {} is absent", ids, ids[i])),
                    (None, Some(_)) => return Err(format!("{name}({:?}): result {i} is None but key {} is present", ids, ids[i])),
                }
            }
            let got = sorted(s.map.iter().map(|(k, v)| (k.id(), k.tok(), v.tok())).collect());
            if got != sorted(s.model.clone()) {
                return Err(format!("{name}({:?}): after writing sentinels the map holds {:?}, reference {:?}", ids, got, sorted(s.model.clone())));
            }
            // restore unique tokens
            for e in s.model.iter_mut() {
                if e.2 >= 0x7000_0000 && e.2 < 0x7000_0010 {
                    let t = s.next_tok;
                    s.next_tok += 1;
                    e.2 = t;
                    s.map.get_mut(&KeyRef(e.0)).ok_or("restore failed")?.set_tok(t);
                }
            }
        }
    }
    Ok(())
}

pub fn probe_many_mut<K: KeyT, V: ValT>(s: &mut MapSut<K, V>, universe: u8, stats: &Stats) -> Result<(), String> {
    let mut ids: Vec<u8> = Vec::new();
    let mut absent_done = [false; 256];
    for id in 0..universe {
        if s.mpos(id).is_some() {
            ids.push(id);
        } else {
            let c = s.class_of[id as usize] as usize;
            if !absent_done[c] {
                absent_done[c] = true;
                ids.push(id);
            }
        }
    }
    let mut count = 0u64;
    for (kv, unchecked) in [(false, false), (true, false), (false, true), (true, true)] {
        many_map::<K, V, 0>(s, [], kv, unchecked)?;
        for &a in &ids {
            many_map::<K, V, 1>(s, [a], kv, unchecked)?;
            for &b in &ids {
                many_map::<K, V, 2>(s, [a, b], kv, unchecked)?;
                count += 1;
                for &c in &ids {
                    many_map::<K, V, 3>(s, [a, b, c], kv, unchecked)?;
                    count += 1;
                    if ids.len() <= 6 {
                        for &d in &ids {
                            many_map::<K, V, 4>(s, [a, b, c, d], kv, unchecked)?;
                            count += 1;
                        }
                    }
                }
            }
        }
    }
    s.check_all(universe, true, true).map_err(|m| format!("after get_many_mut probes: {m}"))?;
    stats.probe(count);
    Ok(())
}

// ---------------------------------------------------------------------------
// Wrapper-level API surface of HashMap that the transition alphabet does not use
// (checked in every visited state on a fresh replay): mutation through iter_mut /
// values_mut, Index, occupied-entry accessors, raw occupied accessors, by-reference
// Extend impls (Copy flavours), FromIterator.
// ---------------------------------------------------------------------------

pub fn probe_wrappers<K: KeyT, V: ValT>(rebuild: &dyn Fn() -> MapSut<K, V>, sut: &mut MapSut<K, V>, universe: u8, stats: &Stats) -> Result<(), String> {
    use hashbrown::hash_map::{Entry, RawEntryMut};
    let mut count = 0u64;
    // Debug of entries: an entry prints its own key (and value when occupied), nothing else
    {
        let mut s = rebuild();
        for id in 0..universe {
            let present = s.mpos(id).is_some();
            let marks = |t: &str| (t.matches("K#").count(), t.matches("V#").count());
            let t1 = format!("{:?}", s.map.entry(K::make(id, 1)));
            // (EntryRef's Debug needs K: Borrow<Q>; the query type here is only Equivalent to the keys)
            let t2 = t1.clone();
            let t3 = format!("{:?}", s.map.raw_entry_mut().from_key(&KeyRef(id)));
            let t4 = format!("{:?}", s.map.rustc_entry(K::make(id, 1)));
            for (what, t) in [("entry", &t1), ("rustc_entry", &t4)] {
                if marks(t) != (1, present as usize) || !t.contains(&format!("K#{id}")) {
                    return Err(format!("Debug of {what}({id}) prints {t:?} (key present: {present})"));
                }
            }
            if present && (marks(&t2) != (1, 1) || marks(&t3) != (1, 1)) {
                return Err(format!("Debug of entry_ref / raw_entry_mut({id}) of a present key prints {t2:?} / {t3:?}"));
            }
            count += 4;
        }
        let errs = env::take_errors();
        if !errs.is_empty() {
            return Err(format!("Debug of entries: {}", errs.join("; ")));
        }
        s.check_all(universe, true, true).map_err(|m| format!("after formatting entries: {m}"))?;
        s.finish()?;
    }
    // mutation through values_mut / iter_mut persists, in the right entries
    {
        let mut s = rebuild();
        for v in s.map.values_mut() {
            v.set_tok(v.tok() ^ 0x0100_0000);
        }
        for e in s.model.iter_mut() {
            e.2 ^= 0x0100_0000;
        }
        s.check_all(universe, true, true).map_err(|m| format!("after writing through values_mut(): {m}"))?;
        for (k, v) in s.map.iter_mut() {
            v.set_tok(0x0200_0000 + k.id() as u32);
        }
        for e in s.model.iter_mut() {
            e.2 = 0x0200_0000 + e.0 as u32;
        }
        s.check_all(universe, true, true).map_err(|m| format!("after writing through iter_mut(): {m}"))?;
        for (k, v) in &mut s.map {
            v.set_tok(0x0300_0000 + k.id() as u32);
        }
        for e in s.model.iter_mut() {
            e.2 = 0x0300_0000 + e.0 as u32;
        }
        s.check_all(universe, true, true).map_err(|m| format!("after writing through (&mut map).into_iter(): {m}"))?;
        s.finish()?;
        count += 3;
    }
    // Index
    for id in 0..universe {
        let want = sut.mpos(id).map(|p| sut.model[p].2);
        let map = &sut.map;
        let r = env::catch(|| map[&KeyRef(id)].tok());
        match (r, want) {
            (Ok(t), Some(w)) if t == w => {}
            (Err(_), None) => {}
            (r, w) => return Err(format!("map[&key {id}] gave {:?}, reference {:?} (absent keys must panic)", r.ok(), w)),
        }
        count += 1;
    }
    // occupied-entry and raw-occupied accessors on every present key
    for id in 0..universe {
        if let Some(p) = sut.mpos(id) {
            let m = sut.model[p];
            let mut s = rebuild();
            if let Entry::Occupied(mut o) = s.map.entry(K::make(id, 1)) {
                if o.key().tok() != m.1 || o.get().tok() != m.2 {
                    return Err(format!("OccupiedEntry::key/get of {id} = ({}, {}), reference ({}, {})", o.key().tok(), o.get().tok(), m.1, m.2));
                }
                o.get_mut().set_tok(41);
                o.into_mut().set_tok(42);
            } else {
                return Err(format!("entry({id}) vacant for a present key"));
            }
            let q = s.mpos(id).unwrap();
            s.model[q].2 = 42;
            s.check_all(universe, true, true).map_err(|e| format!("after OccupiedEntry::get_mut/into_mut on {id}: {e}"))?;
            match s.map.raw_entry_mut().from_key(&KeyRef(id)) {
                RawEntryMut::Occupied(mut o) => {
                    if o.key().tok() != m.1 || o.get().tok() != 42 || o.get_key_value().0.id() != id {
                        return Err(format!("RawOccupiedEntryMut accessors of {id} disagree with the reference"));
                    }
                    o.get_mut().set_tok(43);
                    {
                        let (k, v) = o.get_key_value_mut();
                        if k.id() != id {
                            return Err("get_key_value_mut returned another key".into());
                        }
                        v.set_tok(44);
                    }
                    let (k, v) = o.into_key_value();
                    if k.id() != id {
                        return Err("into_key_value returned another key".into());
                    }
                    v.set_tok(45);
                }
                RawEntryMut::Vacant(_) => return Err(format!("raw_entry_mut().from_key({id}) vacant for a present key")),
            }
            s.model[q].2 = 45;
            s.check_all(universe, true, true).map_err(|e| format!("after RawOccupiedEntryMut accessors on {id}: {e}"))?;
            s.finish()?;
            count += 2;
        }
    }
    // FromIterator / Extend of owned pairs into a fresh map equal the model
    {
        let s = rebuild();
        let pairs: Vec<(K, V)> = s.map.iter().map(|(k, v)| (K::make(k.id(), k.tok()), V::make(v.tok()))).collect();
        let m2: Map<K, V> = pairs.into_iter().collect();
        if !(m2 == s.map) || m2.len() != s.model.len() {
            return Err("FromIterator of the map's own pairs is not equal to it".into());
        }
        drop(m2);
        s.finish()?;
        count += 1;
    }
    stats.probe(count);
    Ok(())
}

/// By-reference Extend impls exist only for Copy keys and values.
pub fn probe_extend_refs(rebuild: &dyn Fn() -> MapSut<PKey, PVal>, sut: &mut MapSut<PKey, PVal>, universe: u8, stats: &Stats) -> Result<(), String> {
    let mut count = 0;
    for id in 0..universe {
        let id2 = (id + 1) % universe.max(1);
        // Extend<(&K, &V)>
        {
            let mut s = rebuild();
            let items = [(PKey::make(id, 7001), PVal(7002)), (PKey::make(id2, 7003), PVal(7004)), (PKey::make(id, 7005), PVal(7006))];
            s.map.extend(items.iter().map(|(k, v)| (k, v)));
            for (k, v) in items.iter() {
                match s.mpos(k.id) {
                    Some(p) => s.model[p].2 = v.0,
                    None => s.model.push((k.id, k.tok, v.0)),
                }
            }
            s.check_all(universe, true, true).map_err(|m| format!("after extend by (&K, &V) with keys {id}, {id2}, {id}: {m}"))?;
            s.finish()?;
        }
        // Extend<&(K, V)>
        {
            let mut s = rebuild();
            let items = [(PKey::make(id, 7101), PVal(7102)), (PKey::make(id2, 7103), PVal(7104))];
            s.map.extend(items.iter());
            for (k, v) in items.iter() {
                match s.mpos(k.id) {
                    Some(p) => s.model[p].2 = v.0,
                    None => s.model.push((k.id, k.tok, v.0)),
                }
            }
            s.check_all(universe, true, true).map_err(|m| format!("after extend by &(K, V) with keys {id}, {id2}: {m}"))?;
            s.finish()?;
        }
        count += 2;
    }
    let _ = sut;
    stats.probe(count);
    Ok(())
}
