//! Reports produced by one configuration run and the evidence part file.

use crate::explore::{Harness, Limits, Outcome, Stats};
use serde_json::{json, Value};

#[derive(Clone, Copy, PartialEq, Eq, Debug)]
pub enum Tier {
    Quick,
    Thorough,
}

#[derive(Clone, Debug)]
pub struct Viol {
    pub config: String,
    pub message: String,
    /// JSON: operation history (and anything else needed to replay)
    pub replay: Value,
}

#[derive(Clone, Debug, Default)]
pub struct ConfigReport {
    pub label: String,
    pub mode: String,
    pub states: u64,
    pub transitions: u64,
    pub probes: u64,
    pub executions: u64,
    pub exhaustive: bool,
    pub cap: Option<String>,
    pub wall_s: f64,
    pub detail: Value,
    pub samples: Vec<Value>,
    pub violations: Vec<Viol>,
    /// machinery failure (not a verdict)
    pub machinery_error: Option<String>,
}

impl ConfigReport {
    pub fn to_json(&self) -> Value {
        json!({
            "config": self.label,
            "mode": self.mode,
            "states": self.states,
            "transitions": self.transitions,
            "probes": self.probes,
            "executions": self.executions,
            "exhaustive": self.exhaustive,
            "cap_hit": self.cap,
            "wall_s": (self.wall_s * 1000.0).round() / 1000.0,
            "detail": self.detail,
            "samples": self.samples,
            "violations": self.violations.iter().map(|v| json!({"config": v.config, "message": v.message, "replay": v.replay})).collect::<Vec<_>>(),
            "machinery_error": self.machinery_error,
        })
    }
}

/// A configuration of a property check.
pub trait Config: Send + Sync {
    fn label(&self) -> String;
    fn run(&self) -> ConfigReport;
    /// Re-execute a recorded counterexample; Err(message) if it reproduces.
    fn replay(&self, replay: &Value) -> Result<(), String>;
}

/// Generic closed/seeded BFS configuration over a `Harness`.
pub struct BfsConfig<H: Harness> {
    pub label: String,
    pub harness: H,
    pub seeds: Vec<Vec<H::Op>>,
    pub limits: Limits,
    /// requirements on the finished exploration (anti-vacuity, fixpoint, ...):
    /// Err = machinery error, not a verdict
    #[allow(clippy::type_complexity)]
    pub post: Option<Box<dyn Fn(&Outcome<H::Op>, &Stats) -> Result<Value, String> + Send + Sync>>,
    /// extra verdict over the finished exploration (property-level): Err = violation message + history index
    #[allow(clippy::type_complexity)]
    pub verdict: Option<Box<dyn Fn(&Outcome<H::Op>, &Stats) -> Result<(), (usize, String)> + Send + Sync>>,
    pub require_fixpoint: bool,
}

impl<H: Harness> BfsConfig<H> {
    pub fn new(label: String, harness: H, limits: Limits) -> Self {
        BfsConfig { label, harness, seeds: vec![vec![]], limits, post: None, verdict: None, require_fixpoint: false }
    }
}

pub fn outcome_report<Op: Clone + serde::Serialize>(label: &str, mode: &str, out: &Outcome<Op>, stats: &Stats) -> ConfigReport {
    use std::sync::atomic::Ordering;
    let mut rep = ConfigReport {
        label: label.to_string(),
        mode: mode.to_string(),
        states: out.states as u64,
        transitions: out.transitions,
        probes: stats.probes.load(Ordering::Relaxed),
        executions: out.transitions,
        exhaustive: out.exhaustive,
        cap: out.cap_hit.clone(),
        wall_s: out.wall_s,
        ..Default::default()
    };
    rep.detail = json!({
        "seed_states": out.seeds,
        "levels": out.levels,
        "depth": out.levels.len().saturating_sub(1),
        "mechanisms": stats.mech_map(),
        "replayed_operations": stats.replayed_ops.load(Ordering::Relaxed),
    });
    // samples: deepest state's history and a mid one
    if out.states > 0 {
        let last = out.states - 1;
        rep.samples.push(json!({"state": last, "history": out.history(last)}));
        let mid = out.states / 2;
        if mid != last {
            rep.samples.push(json!({"state": mid, "history": out.history(mid)}));
        }
    }
    if let Some((hist, msg)) = &out.violation {
        rep.violations.push(Viol { config: label.to_string(), message: msg.clone(), replay: json!({"history": hist}) });
    }
    rep
}

impl<H: Harness + Send + Sync> Config for BfsConfig<H>
where
    H::Op: 'static,
{
    fn label(&self) -> String {
        self.label.clone()
    }
    fn run(&self) -> ConfigReport {
        let stats = Stats::default();
        crate::crumbs::set_config(&self.label);
        let out = crate::explore::bfs(&self.harness, self.seeds.clone(), &self.limits, &stats);
        let mut rep = outcome_report(&self.label, "bfs", &out, &stats);
        if let Some((_, m)) = &out.violation {
            if m.starts_with("MACHINERY") {
                rep.machinery_error = Some(m.clone());
                rep.violations.clear();
            }
        }
        if rep.violations.is_empty() && rep.machinery_error.is_none() {
            if let Some(v) = &self.verdict {
                if let Err((idx, msg)) = v(&out, &stats) {
                    rep.violations.push(Viol { config: self.label.clone(), message: msg, replay: json!({"history": out.history(idx)}) });
                }
            }
            if self.require_fixpoint && !out.exhaustive {
                rep.machinery_error = Some(format!("fixpoint required but not reached ({:?})", out.cap_hit));
            }
            if let Some(p) = &self.post {
                match p(&out, &stats) {
                    Ok(extra) => {
                        if let Value::Object(m) = &mut rep.detail {
                            m.insert("post".into(), extra);
                        }
                    }
                    Err(e) => rep.machinery_error = Some(e),
                }
            }
        }
        rep
    }
    fn replay(&self, replay: &Value) -> Result<(), String> {
        let hist: Vec<H::Op> = serde_json::from_value(replay["history"].clone()).map_err(|e| format!("MACHINERY: bad replay file: {e}"))?;
        let stats = Stats::default();
        let h = &self.harness;
        let r = crate::env::catch(|| -> Result<(), String> {
            let mut sut = h.init();
            for op in &hist {
                h.apply(&mut sut, op, true, &stats)?;
                h.check(&mut sut)?;
            }
            let hist2 = hist.clone();
            let rebuild = || crate::explore::replay_nested(h, &hist2, &Stats::default()).expect("replay failed");
            h.probes(&rebuild, &mut sut, &stats)?;
            h.finish(sut)?;
            let errs = crate::env::take_errors();
            if !errs.is_empty() {
                return Err(errs.join("; "));
            }
            Ok(())
        });
        match r {
            Ok(r) => r,
            Err(m) => Err(format!("unexpected panic: {m}")),
        }
    }
}
