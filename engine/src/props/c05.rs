//! C05: broken Hash/Eq implementations cannot cause undefined behaviour.
//! Stateless, deviation-bounded enumeration of environment answers: every
//! `Hash` call is a choice among 4 hashes (lawful, same position/other tag,
//! other position/same tag, other group+tag), every `Eq` call a choice among
//! {lawful, flipped}; all executions with at most d unlawful answers.

use crate::env::{self, CheckAlloc};
use crate::explore;
use crate::inv;
use crate::keys::*;
use crate::mapsut::{end_of_run_checks, Baseline};
use crate::report::{Config, ConfigReport, Tier, Viol};
use hashbrown::HashMap;
use serde::{Deserialize, Serialize};
use serde_json::{json, Value};
use std::sync::atomic::{AtomicBool, AtomicU64, AtomicUsize, Ordering};
use std::sync::Mutex;

type M = HashMap<TKey, TVal, PlanBuild, CheckAlloc>;
const ZERO_BASE: Baseline = Baseline { live_elems: 0, live_blocks: 0, live_bytes: 0, block_idx: 0, reg_idx: 0 };

#[derive(Clone, Copy, Debug, PartialEq, Eq, Serialize, Deserialize)]
pub enum COp {
    Insert(u8),
    Remove(u8),
    Get(u8),
    EntryOrInsert(u8),
    EntryRemove(u8),
    ReserveHalf,
    ReserveOne,
    ShrinkToFit,
    RetainEven,
    CloneDrop,
    CloneFromSmall,
    GetMany2(u8, u8),
    Iterate,
    Drain,
    Clear,
    Extend2(u8, u8),
    // HashSet programs (the set's own operations that search and insert themselves)
    SInsert(u8),
    SRemove(u8),
    SGet(u8),
    SGetOrInsert(u8),
    SGetOrInsertWith(u8),
    SReplace(u8),
    STake(u8),
    SEntry(u8),
    SXorAssign(u8, u8),
    SSubAssign(u8, u8),
    SOrAssign(u8, u8),
    SAndAssign(u8, u8),
    SRetainEven,
    SIterate,
}

type S = hashbrown::HashSet<TKey, PlanBuild, CheckAlloc>;

fn alphabet_set(ids: &[u8]) -> Vec<COp> {
    let mut v = Vec::new();
    for &i in ids {
        v.extend([COp::SInsert(i), COp::SRemove(i), COp::SGet(i), COp::SGetOrInsert(i), COp::SGetOrInsertWith(i), COp::SReplace(i), COp::STake(i), COp::SEntry(i)]);
    }
    v.extend([COp::SRetainEven, COp::SIterate]);
    if ids.len() >= 2 {
        v.push(COp::SXorAssign(ids[0], ids[1]));
        v.push(COp::SSubAssign(ids[0], ids[1]));
        v.push(COp::SOrAssign(ids[0], ids[1]));
        v.push(COp::SAndAssign(ids[0], ids[1]));
    }
    v
}

fn structure_set(m: &S, what: &dyn Fn() -> String) -> Result<(), String> {
    let d = m.verif_dump();
    inv::check_structure(&d, inv::Which { lawful_hash: false }, &|_| None).map_err(|e| format!("{}: {e}", what()))?;
    if m.capacity() < m.len() {
        return Err(format!("{}: capacity() < len()", what()));
    }
    let mut n = 0usize;
    for k in m.iter() {
        n += 1;
        if n > m.len() + 2 {
            break;
        }
        if !env::reg_is_live(k.serial) {
            return Err(format!("{}: the set yields an element that is not live", what()));
        }
    }
    if n != m.len() {
        return Err(format!("{}: len() = {} but iter() yields {n}", what(), m.len()));
    }
    Ok(())
}

fn apply_set(s: &mut S, op: COp, tok: &mut u32) -> Result<(), String> {
    let mut t = || {
        *tok += 1;
        *tok
    };
    match op {
        COp::SInsert(i) => {
            s.insert(TKey::make(i, t()));
        }
        COp::SRemove(i) => {
            s.remove(&KeyRef(i));
        }
        COp::SGet(i) => {
            if let Some(k) = s.get(&KeyRef(i)) {
                if !env::reg_is_live(k.serial) {
                    return Err("get() returned a reference to an element that is not live".into());
                }
            }
            let _ = s.contains(&TKey::make(i, 0));
        }
        COp::SGetOrInsert(i) => {
            let k = s.get_or_insert(TKey::make(i, t()));
            if !env::reg_is_live(k.serial) {
                return Err("get_or_insert() returned a reference to an element that is not live".into());
            }
        }
        COp::SGetOrInsertWith(i) => {
            let tk = t();
            // the documented panic ("new value is not equivalent") is allowed under an unlawful Eq
            let r = env::catch(|| {
                let k = s.get_or_insert_with(&KeyRef(i), |q| TKey::make(q.0, tk));
                (k.serial, k.id)
            });
            match r {
                Ok((serial, _)) => {
                    if !env::reg_is_live(serial) {
                        return Err("get_or_insert_with() returned a reference to an element that is not live".into());
                    }
                }
                Err(msg) => {
                    if !msg.contains("not equivalent") {
                        return Err(format!("get_or_insert_with panicked with an undocumented message: {msg}"));
                    }
                }
            }
        }
        COp::SReplace(i) => {
            s.replace(TKey::make(i, t()));
        }
        COp::STake(i) => {
            s.take(&KeyRef(i));
        }
        COp::SEntry(i) => match s.entry(TKey::make(i, t())) {
            hashbrown::hash_set::Entry::Occupied(o) => {
                o.remove();
            }
            hashbrown::hash_set::Entry::Vacant(v) => {
                v.insert();
            }
        },
        COp::SXorAssign(a, b) | COp::SSubAssign(a, b) | COp::SOrAssign(a, b) | COp::SAndAssign(a, b) => {
            let mut o = S::default();
            o.insert(TKey::make(a, t()));
            o.insert(TKey::make(b, t()));
            match op {
                COp::SXorAssign(..) => *s ^= &o,
                COp::SSubAssign(..) => *s -= &o,
                COp::SOrAssign(..) => *s |= &o,
                _ => *s &= &o,
            }
        }
        COp::SRetainEven => s.retain(|k| k.id % 2 == 0),
        COp::SIterate => {
            let n = s.iter().count();
            if n != s.len() {
                return Err(format!("iteration yields {n} elements, len() = {}", s.len()));
            }
        }
        _ => return Err("MACHINERY: map operation in a set program".into()),
    }
    Ok(())
}

fn is_set_op(op: COp) -> bool {
    matches!(
        op,
        COp::SInsert(_) | COp::SRemove(_) | COp::SGet(_) | COp::SGetOrInsert(_) | COp::SGetOrInsertWith(_) | COp::SReplace(_) | COp::STake(_) | COp::SEntry(_) | COp::SXorAssign(..) | COp::SSubAssign(..) | COp::SOrAssign(..) | COp::SAndAssign(..) | COp::SRetainEven | COp::SIterate
    )
}

fn alphabet(ids: &[u8]) -> Vec<COp> {
    let mut v = Vec::new();
    for &i in ids {
        v.push(COp::Insert(i));
        v.push(COp::Remove(i));
        v.push(COp::Get(i));
        v.push(COp::EntryOrInsert(i));
        v.push(COp::EntryRemove(i));
    }
    v.extend([COp::ReserveHalf, COp::ReserveOne, COp::ShrinkToFit, COp::RetainEven, COp::CloneDrop, COp::CloneFromSmall, COp::Iterate, COp::Drain, COp::Clear]);
    if ids.len() >= 2 {
        v.push(COp::GetMany2(ids[0], ids[1]));
        v.push(COp::GetMany2(ids[0], ids[0]));
        v.push(COp::Extend2(ids[0], ids[1]));
    }
    v
}

fn structure(m: &M, what: &dyn Fn() -> String) -> Result<(), String> {
    let d = m.verif_dump();
    inv::check_structure(&d, inv::Which { lawful_hash: false }, &|_| None).map_err(|e| format!("{}: {e}", what()))?;
    if m.capacity() < m.len() {
        return Err(format!("{}: capacity() < len()", what()));
    }
    let mut n = 0usize;
    for (k, v) in m.iter() {
        n += 1;
        if n > m.len() + 2 {
            break;
        }
        if !env::reg_is_live(k.serial) || !env::reg_is_live(v.serial) {
            return Err(format!("{}: the map yields an element that is not live", what()));
        }
    }
    if n != m.len() {
        return Err(format!("{}: len() = {} but iter() yields {n}", what(), m.len()));
    }
    Ok(())
}

fn apply(m: &mut M, op: COp, tok: &mut u32) -> Result<(), String> {
    let mut t = || {
        *tok += 1;
        *tok
    };
    match op {
        COp::Insert(i) => {
            m.insert(TKey::make(i, t()), TVal::make(t()));
        }
        COp::Remove(i) => {
            m.remove(&KeyRef(i));
        }
        COp::Get(i) => {
            let _ = m.get(&KeyRef(i)).map(|v| v.tok);
            let _ = m.contains_key(&TKey::make(i, 0));
        }
        COp::EntryOrInsert(i) => {
            m.entry(TKey::make(i, t())).or_insert_with(|| TVal::make(7));
        }
        COp::EntryRemove(i) => {
            if let hashbrown::hash_map::Entry::Occupied(o) = m.entry(TKey::make(i, t())) {
                o.remove();
            }
        }
        COp::ReserveHalf => {
            let d = m.verif_dump();
            let fc = hashbrown::verif::bucket_mask_to_capacity(d.bucket_mask);
            let add = if fc / 2 > m.len() { fc / 2 - m.len() } else { 1 };
            m.reserve(add);
        }
        COp::ReserveOne => {
            let add = m.capacity() - m.len() + 1;
            m.reserve(add);
        }
        COp::ShrinkToFit => m.shrink_to_fit(),
        COp::RetainEven => m.retain(|k, _| k.id % 2 == 0),
        COp::CloneDrop => {
            let c = m.clone();
            structure(&c, &|| "clone".into())?;
            let _ = c == *m;
            drop(c);
        }
        COp::CloneFromSmall => {
            let mut c = M::default();
            c.insert(TKey::make(9, t()), TVal::make(t()));
            c.clone_from(m);
            structure(&c, &|| "clone_from target".into())?;
            drop(c);
        }
        COp::GetMany2(a, b) => {
            // the documented duplicate panic is allowed
            let r = env::catch(|| {
                let [x, y] = m.get_many_mut([&KeyRef(a), &KeyRef(b)]);
                if let (Some(x), Some(y)) = (x, y) {
                    if std::ptr::eq(x, y) {
                        return Err("get_many_mut returned two references to the same entry".to_string());
                    }
                    x.tok = 1;
                    y.tok = 2;
                }
                Ok(())
            });
            match r {
                Ok(r) => r?,
                Err(msg) => {
                    if !msg.contains("duplicate keys found") {
                        return Err(format!("get_many_mut panicked with an undocumented message: {msg}"));
                    }
                }
            }
        }
        COp::Iterate => {
            let n = m.iter().count();
            let n2 = m.values_mut().count();
            let n3 = m.keys().fold(0, |a, _| a + 1);
            if n != m.len() || n2 != n || n3 != n {
                return Err(format!("iteration yields {n}/{n2}/{n3} elements, len() = {}", m.len()));
            }
        }
        COp::Drain => {
            let l = m.len();
            let n = m.drain().count();
            if n != l || !m.is_empty() {
                return Err(format!("drain yields {n} elements, len() was {l}"));
            }
        }
        COp::Clear => m.clear(),
        COp::Extend2(a, b) => {
            let items = vec![(TKey::make(a, t()), TVal::make(t())), (TKey::make(b, t()), TVal::make(t()))];
            m.extend(items);
        }
        _ => return Err("MACHINERY: set operation in a map program".into()),
    }
    Ok(())
}

/// One execution: seed (lawful), then `ops` with the choice prefix. Returns the choice log.
fn execute(plan: &[u64; 256], alt: &[[u64; 3]; 256], seed: &[COp], ops: &[COp], prefix: &[u8]) -> Result<Vec<(u8, u8)>, String> {
    env::reset();
    env::set_plan(plan);
    env::with(|e| e.alt = *alt);
    let mut m = M::default();
    let mut st = S::default();
    let mut tok = 1000u32;
    for &op in seed {
        if is_set_op(op) {
            apply_set(&mut st, op, &mut tok).map_err(|e| format!("MACHINERY: seed failed: {e}"))?;
        } else {
            apply(&mut m, op, &mut tok).map_err(|e| format!("MACHINERY: seed failed: {e}"))?;
        }
    }
    env::set_choosing(true, prefix.to_vec());
    let mut res: Result<(), String> = Ok(());
    for (i, &op) in ops.iter().enumerate() {
        let r = env::catch(|| if is_set_op(op) { apply_set(&mut st, op, &mut tok) } else { apply(&mut m, op, &mut tok) });
        match r {
            Ok(Ok(())) => {}
            Ok(Err(e)) => {
                res = Err(format!("operation {i} ({:?}): {e}", op));
                break;
            }
            Err(msg) => {
                res = Err(format!("operation {i} ({:?}) panicked under unlawful Hash/Eq answers: {msg}", op));
                break;
            }
        }
        // choices off while the monitors look at the table
        let log = env::with(|e| {
            e.choices.enabled = false;
            e.choices.log.len()
        });
        let _ = log;
        env::set_choosing_flag(false);
        let s = structure(&m, &|| format!("after operation {i} ({:?})", op)).and_then(|_| structure_set(&st, &|| format!("after operation {i} ({:?})", op)));
        env::set_choosing_flag(true);
        if let Err(e) = s {
            res = Err(e);
            break;
        }
    }
    let log = env::with(|e| e.choices.log.clone());
    env::set_choosing_flag(false);
    if res.is_ok() {
        // len == number yielded when drained; every element dropped exactly once; ledgers
        let l = m.len();
        let n = m.drain().count();
        if n != l {
            res = Err(format!("drain() yields {n} elements but len() was {l}"));
        }
    }
    drop(m);
    if res.is_ok() {
        let l = st.len();
        let n = st.drain().count();
        if n != l {
            res = Err(format!("set: drain() yields {n} elements but len() was {l}"));
        }
    }
    drop(st);
    if res.is_ok() {
        res = end_of_run_checks(&ZERO_BASE);
    }
    res.map(|_| log)
}

fn deviations(v: &[u8]) -> usize {
    v.iter().filter(|&&c| c != 0).count()
}

/// All executions of the program `seed; ops` with at most `d` unlawful answers.
fn explore_choices(plan: &[u64; 256], alt: &[[u64; 3]; 256], seed: &[COp], ops: &[COp], d: usize, count: &AtomicU64, maxpts: &AtomicU64) -> Result<(), (Vec<u8>, String)> {
    let mut stack: Vec<Vec<u8>> = vec![vec![]];
    while let Some(prefix) = stack.pop() {
        crate::crumbs::touch();
        count.fetch_add(1, Ordering::Relaxed);
        let log = match execute(plan, alt, seed, ops, &prefix) {
            Ok(l) => l,
            Err(m) => return Err((prefix, m)),
        };
        maxpts.fetch_max(log.len() as u64, Ordering::Relaxed);
        // the replayed prefix must have been consumed exactly
        if log.len() < prefix.len() {
            return Err((prefix, "MACHINERY: execution shorter than its choice prefix (nondeterminism)".into()));
        }
        let used = deviations(&prefix);
        if used >= d {
            continue;
        }
        for i in prefix.len()..log.len() {
            let (arity, _) = log[i];
            for alt_c in 1..arity {
                let mut nx: Vec<u8> = log[..i].iter().map(|x| x.1).collect();
                nx.push(alt_c);
                stack.push(nx);
            }
        }
    }
    Ok(())
}

#[derive(Clone)]
struct SeedDef {
    name: &'static str,
    plan: Plan,
    seed: Vec<COp>,
    ids: Vec<u8>,
    len: usize,
    dev: usize,
}

struct Choices {
    tier: Tier,
}
impl Choices {
    fn seeds(&self) -> Vec<SeedDef> {
        let q = self.tier == Tier::Quick;
        let sse2 = super::width() == 16;
        let fill: u8 = if sse2 { 28 } else { 14 };
        let tomb: u8 = if sse2 { 20 } else { 10 };
        let mut full: Vec<COp> = (0..fill).map(COp::Insert).collect();
        let mut tombs = full.clone();
        tombs.extend((0..tomb).map(COp::Remove));
        let three: Vec<COp> = (0..3).map(COp::Insert).collect();
        let two_groups: Vec<COp> = (0..if sse2 { 17 } else { 9 }).map(COp::Insert).collect();
        // MAX plan, key 0 (the element in the LAST bucket) stays, the next ones become tombstones
        let mut max_tombs: Vec<COp> = (0..fill).map(COp::Insert).collect();
        max_tombs.extend((1..=tomb).map(COp::Remove));
        let mut max_tombs_b: Vec<COp> = (0..fill).map(COp::Insert).collect();
        max_tombs_b.extend((0..tomb).map(COp::Remove));
        let mut max_tombs_c: Vec<COp> = (0..fill).map(COp::Insert).collect();
        max_tombs_c.extend((fill - tomb..fill).map(COp::Remove));
        full.truncate(fill as usize);
        // one home per key, every element removed one by one: no element left, the free-slot budget spent on tombstones
        let mut emptied: Vec<COp> = (0..fill).map(COp::Insert).collect();
        emptied.extend((0..fill).map(COp::Remove));
        vec![
            SeedDef { name: "emptied-by-removals", plan: Plan::Seq, seed: emptied, ids: vec![fill + 1, 0], len: 2, dev: 2 },
            SeedDef { name: "empty", plan: Plan::Zero, seed: vec![], ids: vec![0, 1], len: if q { 3 } else { 4 }, dev: 3 },
            SeedDef { name: "three-keys", plan: Plan::Cluster(2), seed: three, ids: vec![1, 5], len: 3, dev: 3 },
            SeedDef { name: "tombstone-saturated", plan: Plan::Zero, seed: tombs, ids: vec![tomb + 1, 100], len: if q { 2 } else { 3 }, dev: 3 },
            SeedDef { name: "two-groups", plan: Plan::Seq, seed: two_groups, ids: vec![2, 100], len: 2, dev: 3 },
            SeedDef { name: "max-plan-tombstones", plan: Plan::Max, seed: max_tombs, ids: vec![0, 100], len: if q { 1 } else { 2 }, dev: 2 },
            // (which key ends up in the last bucket depends on the growth history: three removal patterns)
            SeedDef { name: "max-plan-tombstones-b", plan: Plan::Max, seed: max_tombs_b, ids: vec![fill - 1, 100], len: 1, dev: 2 },
            SeedDef { name: "max-plan-tombstones-c", plan: Plan::Max, seed: max_tombs_c, ids: vec![0, 100], len: 1, dev: 2 },
            SeedDef { name: "full-load", plan: Plan::Zero, seed: full, ids: vec![3, 100], len: if q { 1 } else { 2 }, dev: 3 },
            SeedDef { name: "set-empty", plan: Plan::Zero, seed: vec![], ids: vec![0, 1], len: 2, dev: 3 },
            SeedDef { name: "set-three-keys", plan: Plan::Cluster(2), seed: (0..3).map(COp::SInsert).collect(), ids: vec![1, 5], len: 2, dev: 3 },
            SeedDef { name: "set-tombstone-saturated", plan: Plan::Zero, seed: (0..fill).map(COp::SInsert).chain((0..tomb).map(COp::SRemove)).collect(), ids: vec![tomb + 1, 100], len: if q { 1 } else { 2 }, dev: 3 },
        ]
    }
}

fn sequences(alpha: &[COp], len: usize) -> Vec<Vec<COp>> {
    let mut out: Vec<Vec<COp>> = vec![vec![]];
    for _ in 0..len {
        let mut next = Vec::new();
        for s in &out {
            for &a in alpha {
                let mut t = s.clone();
                t.push(a);
                next.push(t);
            }
        }
        out = next;
    }
    out
}

impl Config for Choices {
    fn label(&self) -> String {
        "choice-enumeration".into()
    }
    fn run(&self) -> ConfigReport {
        crate::crumbs::set_config(&self.label());
        let t0 = std::time::Instant::now();
        let wall_cap = if self.tier == Tier::Quick { 45.0 } else { 1500.0 };
        let count = AtomicU64::new(0);
        let maxpts = AtomicU64::new(0);
        let viol: Mutex<Option<(Value, String)>> = Mutex::new(None);
        let capped = AtomicBool::new(false);
        let mut per = Vec::new();
        for sd in self.seeds() {
            let plan = sd.plan.table();
            let alt = alt_table(&plan);
            let seqs = sequences(&if sd.name.starts_with("set-") { alphabet_set(&sd.ids) } else { alphabet(&sd.ids) }, sd.len);
            let next = AtomicUsize::new(0);
            let c0 = count.load(Ordering::Relaxed);
            std::thread::scope(|sc| {
                for w in 0..explore::nthreads() {
                    let (seqs, next, count, maxpts, viol, capped, sd, plan, alt) = (&seqs, &next, &count, &maxpts, &viol, &capped, &sd, &plan, &alt);
                    sc.spawn(move || {
                        env::WORKER.with(|c| c.set(w));
                        loop {
                            let i = next.fetch_add(1, Ordering::Relaxed);
                            if i >= seqs.len() || viol.lock().unwrap().is_some() {
                                break;
                            }
                            if t0.elapsed().as_secs_f64() > wall_cap {
                                capped.store(true, Ordering::Relaxed);
                                break;
                            }
                            crate::crumbs::set_replay(&json!({"seed": sd.name, "ops": seqs[i], "choices": Value::Null}).to_string());
                            if let Err((prefix, m)) = explore_choices(plan, alt, &sd.seed, &seqs[i], sd.dev, count, maxpts) {
                                *viol.lock().unwrap() = Some((json!({"seed": sd.name, "ops": seqs[i], "choices": prefix}), m));
                            }
                        }
                        crate::crumbs::clear();
                    });
                }
            });
            per.push(json!({"seed": sd.name, "plan": sd.plan.name(), "seed_ops": sd.seed.len(), "op_sequences": seqs.len(), "sequence_length": sd.len,
                "deviation_bound": sd.dev, "executions": count.load(Ordering::Relaxed) - c0}));
            if viol.lock().unwrap().is_some() {
                break;
            }
        }
        let mut rep = ConfigReport {
            label: self.label(),
            mode: "choices".into(),
            states: per.len() as u64,
            executions: count.load(Ordering::Relaxed),
            exhaustive: !capped.load(Ordering::Relaxed),
            cap: if capped.load(Ordering::Relaxed) { Some(format!("wall cap {wall_cap}s")) } else { None },
            wall_s: t0.elapsed().as_secs_f64(),
            ..Default::default()
        };
        rep.detail = json!({"seeds": per, "max_choice_points_in_one_execution": maxpts.load(Ordering::Relaxed), "distinct_nontrivial": rep.executions,
            "menu": "Hash: lawful | same position other tag | neighbouring position same tag | other group and tag; Eq: lawful | flipped"});
        rep.samples.push(json!({"seed": "three-keys", "ops": ["Insert(1)", "ReserveHalf"], "choices": [0, 2, 0, 1]}));
        if let Some((rp, m)) = viol.into_inner().unwrap() {
            if m.starts_with("MACHINERY") {
                rep.machinery_error = Some(m);
            } else {
                rep.violations.push(Viol { config: self.label(), message: m, replay: rp });
            }
        }
        rep
    }
    fn replay(&self, rp: &Value) -> Result<(), String> {
        let name = rp["seed"].as_str().unwrap_or("");
        let ops: Vec<COp> = serde_json::from_value(rp["ops"].clone()).map_err(|e| format!("MACHINERY: bad replay: {e}"))?;
        for tier in [Tier::Quick, Tier::Thorough] {
            for sd in (Choices { tier }).seeds() {
                if sd.name == name {
                    let plan = sd.plan.table();
                    let alt = alt_table(&plan);
                    if rp["choices"].is_null() {
                        let (c, m) = (AtomicU64::new(0), AtomicU64::new(0));
                        return match env::catch(|| explore_choices(&plan, &alt, &sd.seed, &ops, sd.dev, &c, &m)) {
                            Ok(r) => r.map_err(|e| e.1),
                            Err(m) => Err(format!("unexpected panic: {m}")),
                        };
                    }
                    let ch: Vec<u8> = serde_json::from_value(rp["choices"].clone()).map_err(|e| format!("MACHINERY: bad replay: {e}"))?;
                    return match env::catch(|| execute(&plan, &alt, &sd.seed, &ops, &ch)) {
                        Ok(r) => r.map(|_| ()),
                        Err(m) => Err(format!("unexpected panic: {m}")),
                    };
                }
            }
        }
        Err("MACHINERY: unknown seed".into())
    }
}

pub fn configs(tier: Tier) -> Vec<Box<dyn Config>> {
    vec![Box::new(Choices { tier })]
}
