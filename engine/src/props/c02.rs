//! C02: safe API is memory-safe for every program, element layout and hasher
//! (element-layout grid x collections x leak points), plus the C01 space with
//! the memory monitors. C03: every element and allocation released exactly once.

use crate::explore::Limits;
use crate::keys::*;
use crate::laysut::*;
use crate::mapsut::*;
use crate::report::{BfsConfig, Config, Tier};
use crate::tablesut::TProbe;
use crate::inv;

pub fn lay<L: Lay>(coll: Coll, plan: Plan, universe: u8, tier: Tier) -> Box<dyn Config> {
    let h = LayHarness::<L>::new(coll, plan, universe, true);
    let label = h.label();
    let lim = Limits { max_wall_s: if tier == Tier::Quick { 20.0 } else { 300.0 }, ..Default::default() };
    Box::new(BfsConfig::new(label, h, lim))
}

fn all_colls<L: Lay>(v: &mut Vec<Box<dyn Config>>, plan: Plan, universe: u8, tier: Tier) {
    for c in [Coll::Set, Coll::Map, Coll::Table] {
        v.push(lay::<L>(c, plan, universe, tier));
    }
}

pub fn configs_c02(tier: Tier) -> Vec<Box<dyn Config>> {
    let q = tier == Tier::Quick;
    let sse2 = super::width() == 16;
    let mut v: Vec<Box<dyn Config>> = Vec::new();
    let tiny = std::env::var("HBMC_TINY").is_ok(); // interpreter-sized spaces (Miri executor)
    let u = if tiny { 2 } else if q { 4 } else { 6 };
    // universes large enough to pass a group (and the small-table minima) for one-byte elements
    let ubig = if tiny { 3 } else if sse2 { if q { 15 } else { 16 } } else { if q { 8 } else { 9 } };
    all_colls::<Z0>(&mut v, Plan::Zero, 1, tier);
    all_colls::<Z16>(&mut v, Plan::Zero, 1, tier);
    // (the single element sits in the LAST bucket: its index is not 0)
    all_colls::<Z16>(&mut v, Plan::Max, 1, tier);
    all_colls::<S3>(&mut v, Plan::Seq, u, tier);
    v.push(lay::<S6>(Coll::Map, Plan::Zero, u, tier));
    v.push(Box::new(ZstTables { tier }));
    if !tiny {
        // the parallel iterators are part of the safe API: split trees of the real producers and real pools (details: C19)
        v.push(Box::new(super::c19::SplitTrees { tier }));
        v.push(Box::new(super::c19::Pools { tier }));
    }
    all_colls::<S1>(&mut v, Plan::Zero, u, tier);
    v.push(lay::<S1>(Coll::Set, Plan::Seq, ubig, tier));
    all_colls::<S2>(&mut v, Plan::Max, u, tier);
    all_colls::<S8>(&mut v, Plan::Seq, u, tier);
    all_colls::<D8>(&mut v, Plan::Zero, u, tier);
    if !q {
        all_colls::<S24>(&mut v, Plan::Zero, u, tier);
        v.push(lay::<D8>(Coll::Map, Plan::Zero, ubig, tier));
    } else {
        v.push(lay::<S24>(Coll::Map, Plan::Zero, u, tier));
    }
    all_colls::<D200>(&mut v, Plan::Seq, u, tier);
    all_colls::<A32>(&mut v, Plan::Max, u, tier);
    all_colls::<A64>(&mut v, Plan::Zero, u, tier);
    if tiny {
        return v;
    }
    // reservation requests around every overflow boundary, fallible and infallible: no invalid layout reaches the
    // allocator, the infallible paths panic with the documented message instead of reaching unreachable code
    {
        fn tr<L: Lay>(v: &mut Vec<Box<dyn Config>>, coll: Coll, u: u8, tier: Tier) {
            let mut h = LayHarness::<L>::new(coll, Plan::Zero, u, false);
            h.try_reserve_probes = true;
            let l = format!("{}-reservation-boundaries", h.label());
            v.push(Box::new(BfsConfig::new(l, h, Limits { max_wall_s: if tier == Tier::Quick { 30.0 } else { 600.0 }, ..Default::default() })));
        }
        let u = if q { 2 } else { 5 };
        tr::<Z0>(&mut v, Coll::Table, u, tier);
        tr::<S8>(&mut v, Coll::Map, u, tier);
        tr::<D200>(&mut v, Coll::Set, u, tier);
    }
    // the HashMap history space with all memory monitors (tracked + plain flavours)
    let mut c = MapCfg::new(Plan::Zero, if q { 6 } else { 11 });
    c.max_buckets = if sse2 { 64 } else { 32 };
    // (iterator probes: every iterator at every position, incl. what its Debug impl walks over)
    c.probes = vec![Probe::Iterators];
    let l = format!("{}-tracked-memory-monitors", c.label());
    v.push(Box::new(BfsConfig::new(l, MapHarness::<TKey, TVal>::new(c.clone()), Limits { max_wall_s: if q { 30.0 } else { 600.0 }, ..Default::default() })));
    c.plan = Plan::Last;
    c.universe = if q { 5 } else { 7 };
    let l = format!("{}-plain-memory-monitors", c.label());
    v.push(Box::new(BfsConfig::new(l, MapHarness::<PKey, PVal>::new(c), Limits { max_wall_s: if q { 30.0 } else { 600.0 }, ..Default::default() })));
    // panicking callbacks are part of "every safe program": a small fault enumeration (details: C04)
    v.push(super::c04::mk::<TKey, TVal>(Plan::Zero, if q { 5 } else { 7 }, vec![vec![]], None, tier, false, "-faults"));
    v
}

pub fn configs_c03(tier: Tier) -> Vec<Box<dyn Config>> {
    let q = tier == Tier::Quick;
    let sse2 = super::width() == 16;
    let mut v: Vec<Box<dyn Config>> = Vec::new();
    // HashMap: full alphabet (incl. clone_from into occupied targets, from_iter, shrink) + every
    // consumption cut of every owning iterator + every removal predicate, tracked elements
    let mut c = MapCfg::new(Plan::Zero, if q { 6 } else { 10 });
    c.max_buckets = if sse2 { 64 } else { 32 };
    c.probes = vec![Probe::Iterators, Probe::Removal { max_subset_len: if q { 5 } else { 8 } }];
    let l = format!("{}-map-release", c.label());
    v.push(Box::new(BfsConfig::new(l, MapHarness::<TKey, TVal>::new(c.clone()), Limits { max_wall_s: if q { 40.0 } else { 900.0 }, ..Default::default() })));
    c.plan = if sse2 { Plan::Seq } else { Plan::Cluster(2) };
    c.universe = if q { 4 } else { 6 };
    let l = format!("{}-map-release", c.label());
    v.push(Box::new(BfsConfig::new(l, MapHarness::<TKey, TVal>::new(c), Limits { max_wall_s: if q { 40.0 } else { 900.0 }, ..Default::default() })));
    // HashTable: extract_if / drain cuts are operations of its alphabet; into_iter / drain cuts as probes
    v.push(super::c06::tab(Plan::Zero, if q { 4 } else { 7 }, if q { 6 } else { 9 }, vec![TProbe::Iterators], true, tier, "-release"));
    // HashSet with tracked elements: its own operations (the assigning operators `|=`, `&=`, `^=`, `-=`, `replace`,
    // `take`, `get_or_insert*`) move elements in and out of the table themselves
    {
        let mut c = crate::setsut::SetCfg::new(Plan::Zero, if q { 4 } else { 6 });
        c.max_buckets = if sse2 { 64 } else { 32 };
        let l = format!("{}-set-release", c.label());
        v.push(Box::new(BfsConfig::new(l, crate::setsut::SetHarness::new(c), Limits { max_wall_s: if q { 40.0 } else { 600.0 }, ..Default::default() })));
    }
    // HashSet / layouts with drop glue through the leak-free part of the layout system
    // exactly-once release also when a callback panics (single-fault enumeration, details: C04)
    v.push(super::c04::mk::<TKey, TVal>(if sse2 { Plan::Seq } else { Plan::Zero }, if q { 4 } else { 7 }, vec![vec![]], None, tier, false, "-faults"));
    for coll in [Coll::Set, Coll::Map, Coll::Table] {
        let h = LayHarness::<D200>::new(coll, Plan::Zero, if q { 5 } else { 7 }, false);
        let l = format!("{}-release", h.label());
        v.push(Box::new(BfsConfig::new(l, h, Limits { max_wall_s: 60.0, ..Default::default() })));
    }
    // element sizes whose bucket array needs padding: every block goes back with the layout it was requested with
    for coll in [Coll::Set, Coll::Map, Coll::Table] {
        let h = LayHarness::<S3>::new(coll, Plan::Seq, if q { 4 } else { 6 }, false);
        let l = format!("{}-release", h.label());
        v.push(Box::new(BfsConfig::new(l, h, Limits { max_wall_s: 60.0, ..Default::default() })));
    }
    let h = LayHarness::<S6>::new(Coll::Set, Plan::Zero, if q { 4 } else { 6 }, false);
    let l = format!("{}-release", h.label());
    v.push(Box::new(BfsConfig::new(l, h, Limits { max_wall_s: 60.0, ..Default::default() })));
    // elements aligned more strictly than a control group: the block goes back with the alignment it was requested with
    for coll in [Coll::Set, Coll::Map, Coll::Table] {
        let h = LayHarness::<A64>::new(coll, Plan::Zero, if q { 3 } else { 5 }, false);
        let l = format!("{}-release", h.label());
        v.push(Box::new(BfsConfig::new(l, h, Limits { max_wall_s: 60.0, ..Default::default() })));
    }
    // zero-sized elements with a construction / clone / drop ledger
    v.push(Box::new(ZstTables { tier }));
    // parallel drains hand every element to exactly one consumer or drop it exactly once (details: C19)
    v.push(Box::new(super::c19::SplitTrees { tier }));
    v.push(Box::new(super::c19::Pools { tier }));
    v
}

// ---------------------------------------------------------------------------
// Zero-sized elements in a HashTable: many entries (distinct caller-supplied
// hashes), buckets encoded as index pseudo-pointers. Exhaustive enumeration of
// (number of entries, removal predicate by visit order).
// ---------------------------------------------------------------------------

use crate::env::{self, CheckAlloc};
use crate::report::{ConfigReport, Viol};
use serde_json::json;

pub struct ZstTables {
    pub tier: Tier,
}

thread_local! {
    static ZLIVE: std::cell::Cell<i64> = const { std::cell::Cell::new(0) };
}
/// zero-sized element with a ledger: constructions and clones minus drops
pub struct ZTok(());
impl ZTok {
    fn new() -> Self {
        ZLIVE.with(|c| c.set(c.get() + 1));
        ZTok(())
    }
}
impl Clone for ZTok {
    fn clone(&self) -> Self {
        zclone_tick();
        ZTok::new()
    }
}
impl Drop for ZTok {
    fn drop(&mut self) {
        ZLIVE.with(|c| c.set(c.get() - 1));
    }
}
/// zero-sized token types of the enumeration: alignment 1 and an over-aligned one (the bucket pseudo-pointer
/// of a zero-sized element encodes the index in units of one, whatever the alignment)
pub trait ZT: Clone + 'static {
    const NAME: &'static str;
    fn new() -> Self;
}
impl ZT for ZTok {
    const NAME: &'static str = "align 1";
    fn new() -> Self {
        ZTok::new()
    }
}
#[repr(align(16))]
pub struct ZTokA(());
impl ZT for ZTokA {
    const NAME: &'static str = "align 16";
    fn new() -> Self {
        ZLIVE.with(|c| c.set(c.get() + 1));
        ZTokA(())
    }
}
impl Clone for ZTokA {
    fn clone(&self) -> Self {
        zclone_tick();
        <ZTokA as ZT>::new()
    }
}
impl Drop for ZTokA {
    fn drop(&mut self) {
        ZLIVE.with(|c| c.set(c.get() - 1));
    }
}
thread_local! {
    /// the k-th clone of a zero-sized token panics (0 = never)
    static ZCLONE_PANIC_AT: std::cell::Cell<u32> = const { std::cell::Cell::new(0) };
}
fn zclone_tick() {
    let fire = ZCLONE_PANIC_AT.with(|c| {
        let k = c.get();
        if k == 0 {
            return false;
        }
        c.set(k - 1);
        k == 1
    });
    if fire {
        panic!("{}", env::FAULT_MSG);
    }
}
fn zlive() -> i64 {
    ZLIVE.with(|c| c.get())
}

fn zst_case(n: usize, mask: u32, mode: u8) -> Result<(), String> {
    zst_case_of::<ZTok>(n, mask, mode)?;
    zst_case_of::<ZTokA>(n, mask, mode)
}

fn zst_case_of<Z: ZT>(n: usize, mask: u32, mode: u8) -> Result<(), String> {
    type T<Z> = hashbrown::HashTable<Z, CheckAlloc>;
    env::reset();
    ZLIVE.with(|c| c.set(0));
    // a zero-sized element carries no information, so the re-hashing closure can only be a
    // constant: all entries share one hash (they spread along its probe sequence)
    const H0: u64 = 5 | (0x15 << 57);
    let hashes: Vec<u64> = vec![H0; n];
    let mut t = T::<Z>::default();
    for &h in &hashes {
        t.insert_unique(h, Z::new(), |_| H0);
    }
    let what = || format!("HashTable<zero-sized, {}> with {n} entries, removal pattern {mask:#b}, mode {mode}", Z::NAME);
    let chk = |t: &T<Z>, want: usize| -> Result<(), String> {
        let d = t.verif_dump();
        inv::check_structure_public(&d).map_err(|m| format!("{}: {m}", what()))?;
        if t.len() != want || t.iter().count() != want {
            return Err(format!("{}: len() = {}, iter() yields {}, expected {want}", what(), t.len(), t.iter().count()));
        }
        Ok(())
    };
    chk(&t, n)?;
    if t.allocation_size() != env::live_bytes() {
        return Err(format!("{}: allocation_size() = {} but the allocator ledger holds {} bytes", what(), t.allocation_size(), env::live_bytes()));
    }
    // clone / clone_from create exactly one new element per stored element (ledger of a zero-sized type)
    {
        let c = t.clone();
        if zlive() != 2 * n as i64 {
            return Err(format!("{}: after clone() {} zero-sized elements are live, expected {}", what(), zlive(), 2 * n));
        }
        chk(&c, n)?;
        let mut c2 = T::<Z>::default();
        for _ in 0..3 {
            c2.insert_unique(H0, Z::new(), |_| H0);
        }
        c2.clone_from(&t);
        if zlive() != 3 * n as i64 {
            return Err(format!("{}: after clone() and clone_from() {} zero-sized elements are live, expected {}", what(), zlive(), 3 * n));
        }
        chk(&c2, n)?;
        drop((c, c2));
        if zlive() != n as i64 {
            return Err(format!("{}: after dropping both clones {} zero-sized elements are live, expected {n}", what(), zlive()));
        }
    }
    // iterators over zero-sized elements: exact lengths at every step, next / fold / for_each agree
    {
        use crate::mapprobes::{drive, Tail};
        let z = |_: &Z| (0u8, 0u32, 0u32);
        let zm = |_: &mut Z| (0u8, 0u32, 0u32);
        let zo = |_: Z| (0u8, 0u32, 0u32);
        let mut js = vec![0usize, 1, n / 2, n, n + 1];
        js.sort_unstable();
        js.dedup();
        for &j in &js {
            for tail in [Tail::Next, Tail::Fold, Tail::ForEach] {
                let k = drive(t.iter(), n, j, tail, "HashTable<zero-sized>::iter()", &z)?.len();
                let km = drive(t.iter_mut(), n, j, tail, "HashTable<zero-sized>::iter_mut()", &zm)?.len();
                let ko = drive(t.clone().into_iter(), n, j, tail, "HashTable<zero-sized>::into_iter()", &zo)?.len();
                let mut c = t.clone();
                let kd = drive(c.drain(), n, j, tail, "HashTable<zero-sized>::drain()", &zo)?.len();
                if [k, km, ko, kd] != [n; 4] || !c.is_empty() {
                    return Err(format!("{}: iterators yielded {:?} elements, expected {n} each", what(), [k, km, ko, kd]));
                }
            }
            let mut c = t.clone();
            drop(drive(c.drain(), n, j, Tail::DropNow, "HashTable<zero-sized>::drain() dropped early", &zo)?);
            if !c.is_empty() {
                return Err(format!("{}: drain() dropped after {j} items left {} elements", what(), c.len()));
            }
            drop(c);
            drop(drive(t.clone().into_iter(), n, j, Tail::DropNow, "HashTable<zero-sized>::into_iter() dropped early", &zo)?);
            if zlive() != n as i64 {
                return Err(format!("{}: after partly consumed owning iterators {} zero-sized elements are live, expected {n}", what(), zlive()));
            }
        }
    }
    let mut visit = 0u32;
    let mut removed = 0usize;
    match mode {
        0 => {
            t.retain(|_| {
                let keep = mask >> (visit % 32) & 1 == 0;
                visit += 1;
                if !keep {
                    removed += 1;
                }
                keep
            });
        }
        1 => {
            let got = t
                .extract_if(|_| {
                    let r = mask >> (visit % 32) & 1 == 1;
                    visit += 1;
                    r
                })
                .count();
            removed = got;
        }
        _ => {
            // remove through find_entry by hash, for the hashes selected by the mask
            for (i, &h) in hashes.iter().enumerate() {
                if mask >> (i % 32) & 1 == 1 {
                    match t.find_entry(h, |_| true) {
                        Ok(o) => {
                            o.remove();
                            removed += 1;
                        }
                        Err(_) => return Err(format!("{}: entry inserted with hash #{i} not found", what())),
                    }
                }
            }
        }
    }
    chk(&t, n - removed)?;
    if mode == 2 {
        // the hashes that were not removed must still be found, the removed ones... every element is
        // `()`, so a lookup by a removed hash may only succeed through another entry with equal tag
        if n - removed > 0 && t.find(H0, |_| true).is_none() {
            return Err(format!("{}: {} entries remain but a lookup with their hash finds none", what(), n - removed));
        }
        if t.iter_hash(H0).count() != n - removed {
            return Err(format!("{}: iter_hash yields {} of the {} remaining entries", what(), t.iter_hash(H0).count(), n - removed));
        }
    }
    // still usable
    if zlive() != (n - removed) as i64 {
        return Err(format!("{}: {} zero-sized elements are live but the table holds {}", what(), zlive(), n - removed));
    }
    t.insert_unique(H0, Z::new(), |_| H0);
    chk(&t, n - removed + 1)?;
    let k = t.drain().count();
    if k != n - removed + 1 {
        return Err(format!("{}: drain yields {k}", what()));
    }
    drop(t);
    if zlive() != 0 {
        return Err(format!("{}: after dropping the table the ledger of zero-sized elements is at {}", what(), zlive()));
    }
    crate::mapsut::end_of_run_checks(&Baseline { live_elems: 0, live_blocks: 0, live_bytes: 0, block_idx: 0, reg_idx: 0 })
}

/// Panics in user code while a table of zero-sized elements is cloned or rehashed in place: the elements the
/// operation gives up must be dropped (the ledger of live tokens must equal what the tables hold).
fn zst_faults_of<Z: ZT>() -> Result<u64, String> {
    type T<Z> = hashbrown::HashTable<Z, CheckAlloc>;
    const H0: u64 = 5 | (0x15 << 57);
    let mut count = 0u64;
    let chk = |t: &T<Z>, what: &str| -> Result<(), String> {
        inv::check_structure_public(&t.verif_dump()).map_err(|m| format!("{what}: {m}"))?;
        if t.iter().count() != t.len() {
            return Err(format!("{what}: len() = {} but iter() yields {}", t.len(), t.iter().count()));
        }
        Ok(())
    };
    // 1. Clone panics at its k-th call
    for n in [1usize, 2, 5, 17] {
        for k in 1..=n as u32 {
            env::reset();
            ZLIVE.with(|c| c.set(0));
            let mut t = T::<Z>::default();
            for _ in 0..n {
                t.insert_unique(H0, Z::new(), |_| H0);
            }
            let what = format!("HashTable<zero-sized, {}> with {n} entries, Clone panicking at call {k}", Z::NAME);
            for use_clone_from in [false, true] {
                let mut tgt = T::<Z>::default();
                tgt.insert_unique(H0, Z::new(), |_| H0);
                ZCLONE_PANIC_AT.with(|c| c.set(k));
                let r = env::catch(|| {
                    if use_clone_from {
                        tgt.clone_from(&t);
                    } else {
                        tgt = t.clone();
                    }
                });
                ZCLONE_PANIC_AT.with(|c| c.set(0));
                if r.is_ok() {
                    return Err(format!("{what}: the panic was swallowed"));
                }
                chk(&t, &what)?;
                chk(&tgt, &what)?;
                if zlive() != (t.len() + tgt.len()) as i64 {
                    return Err(format!("{what} ({}): {} tokens are live but the source holds {} and the target {}", if use_clone_from { "clone_from" } else { "clone" }, zlive(), t.len(), tgt.len()));
                }
                drop(tgt);
                count += 1;
            }
            drop(t);
            if zlive() != 0 {
                return Err(format!("{what}: {} tokens live after everything was dropped", zlive()));
            }
        }
    }
    // 2. the re-hashing closure panics at its k-th call during an in-place rehash
    for removed in [15usize, 20, 27] {
        for k in 1..=(28 - removed) as u32 {
            env::reset();
            ZLIVE.with(|c| c.set(0));
            let mut t = T::<Z>::with_capacity_in(28, CheckAlloc);
            for _ in 0..28 {
                t.insert_unique(H0, Z::new(), |_| unreachable!());
            }
            for _ in 0..removed {
                match t.find_entry(H0, |_| true) {
                    Ok(o) => {
                        o.remove();
                    }
                    Err(_) => return Err("MACHINERY: zero-sized entry not found".into()),
                }
            }
            let buckets = t.verif_dump().bucket_mask + 1;
            let what = format!("HashTable<zero-sized, {}>: 28 entries, {removed} removed, reserve(1) with the hasher panicking at call {k}", Z::NAME);
            let calls = std::cell::Cell::new(0u32);
            let r = env::catch(|| {
                t.reserve(1, |_| {
                    calls.set(calls.get() + 1);
                    if calls.get() == k {
                        panic!("{}", env::FAULT_MSG);
                    }
                    H0
                })
            });
            if r.is_ok() {
                // (no in-place rehash happened, or fewer hasher calls than k)
                continue;
            }
            if t.verif_dump().bucket_mask + 1 != buckets {
                return Err(format!("MACHINERY: {what}: the table was resized, not rehashed in place"));
            }
            chk(&t, &what)?;
            if zlive() != t.len() as i64 {
                return Err(format!("{what}: {} tokens are live but the table holds {}", zlive(), t.len()));
            }
            t.insert_unique(H0, Z::new(), |_| H0);
            chk(&t, &what)?;
            drop(t);
            if zlive() != 0 {
                return Err(format!("{what}: {} tokens live after the table was dropped", zlive()));
            }
            count += 1;
        }
    }
    Ok(count)
}

fn zst_faults() -> Result<u64, String> {
    Ok(zst_faults_of::<ZTok>()? + zst_faults_of::<ZTokA>()?)
}

impl Config for ZstTables {
    fn label(&self) -> String {
        "HashTable<zero-sized>-many-entries".into()
    }
    fn run(&self) -> ConfigReport {
        crate::crumbs::set_config(&self.label());
        let t0 = std::time::Instant::now();
        let mut rep = ConfigReport { label: self.label(), mode: "enum".into(), exhaustive: true, ..Default::default() };
        // (interpreter-sized under the Miri executor)
        let maxn = if std::env::var("HBMC_TINY").is_ok() { 5 } else if self.tier == Tier::Quick { 20 } else { 40 };
        'outer: for n in 0..=maxn {
            let masks: Vec<u32> = if n <= 8 { (0..(1u32 << n)).collect() } else { vec![0, !0, 0x5555_5555, 0xAAAA_AAAA, 1, 2, 1 << (n - 1).min(31), 0x0f0f_0f0f, !1] };
            for &m in &masks {
                for mode in 0..3u8 {
                    crate::crumbs::set_replay(&json!({"zst": [n, m, mode]}).to_string());
                    rep.executions += 1;
                    match env::catch(|| zst_case(n, m, mode)) {
                        Ok(Ok(())) => {}
                        Ok(Err(e)) | Err(e) => {
                            rep.violations.push(Viol { config: self.label(), message: e, replay: json!({"zst": [n, m, mode]}) });
                            break 'outer;
                        }
                    }
                }
            }
        }
        if rep.violations.is_empty() {
            crate::crumbs::set_replay(&json!({"zst_faults": true}).to_string());
            match env::catch(zst_faults) {
                Ok(Ok(k)) => rep.executions += k,
                Ok(Err(e)) | Err(e) => rep.violations.push(Viol { config: self.label(), message: e, replay: json!({"zst_faults": true}) }),
            }
        }
        rep.states = maxn as u64 + 1;
        rep.detail = json!({"entries_up_to": maxn, "cases": rep.executions, "distinct_nontrivial": rep.executions});
        rep.samples.push(json!({"zst": [5, 0b10110, 0]}));
        rep.wall_s = t0.elapsed().as_secs_f64();
        rep
    }
    fn replay(&self, rp: &serde_json::Value) -> Result<(), String> {
        if rp.get("zst_faults").is_some() {
            return match env::catch(zst_faults) {
                Ok(r) => r.map(|_| ()),
                Err(e) => Err(e),
            };
        }
        let a = rp["zst"].as_array().ok_or("MACHINERY: bad replay")?;
        let (n, m, mode) = (a[0].as_u64().unwrap_or(0) as usize, a[1].as_u64().unwrap_or(0) as u32, a[2].as_u64().unwrap_or(0) as u8);
        match env::catch(|| zst_case(n, m, mode)) {
            Ok(r) => r,
            Err(e) => Err(e),
        }
    }
}
