//! C02: safe API is memory-safe for every program, element layout and hasher
//! (element-layout grid x collections x leak points), plus the C01 space with
//! the memory monitors. C03: every element and allocation released exactly once.

use crate::explore::Limits;
use crate::keys::*;
use crate::laysut::*;
use crate::mapsut::*;
use crate::report::{BfsConfig, Config, Tier};
use crate::tablesut::TProbe;

fn lay<L: Lay>(coll: Coll, plan: Plan, universe: u8, tier: Tier) -> Box<dyn Config> {
    let h = LayHarness::<L>::new(coll, plan, universe, true);
    let label = h.label();
    let lim = Limits { max_wall_s: if tier == Tier::Quick { 20.0 } else { 300.0 }, ..Default::default() };
    Box::new(BfsConfig::new(label, h, lim))
}

fn all_colls<L: Lay>(v: &mut Vec<Box<dyn Config>>, plan: Plan, universe: u8, tier: Tier) {
    for c in [Coll::Set, Coll::Map, Coll::Table] {
        v.push(lay::<L>(c, plan, universe, tier));
    }
}

pub fn configs_c02(tier: Tier) -> Vec<Box<dyn Config>> {
    let q = tier == Tier::Quick;
    let sse2 = super::width() == 16;
    let mut v: Vec<Box<dyn Config>> = Vec::new();
    let tiny = std::env::var("HBMC_TINY").is_ok(); // interpreter-sized spaces (Miri executor)
    let u = if tiny { 2 } else if q { 4 } else { 6 };
    // universes large enough to pass a group (and the small-table minima) for one-byte elements
    let ubig = if tiny { 3 } else if sse2 { if q { 15 } else { 17 } } else { if q { 8 } else { 10 } };
    all_colls::<Z0>(&mut v, Plan::Zero, 1, tier);
    all_colls::<S1>(&mut v, Plan::Zero, u, tier);
    v.push(lay::<S1>(Coll::Set, Plan::Seq, ubig, tier));
    all_colls::<S2>(&mut v, Plan::Max, u, tier);
    all_colls::<S8>(&mut v, Plan::Seq, u, tier);
    all_colls::<D8>(&mut v, Plan::Zero, u, tier);
    if !q {
        all_colls::<S24>(&mut v, Plan::Zero, u, tier);
        v.push(lay::<D8>(Coll::Map, Plan::Zero, ubig, tier));
    } else {
        v.push(lay::<S24>(Coll::Map, Plan::Zero, u, tier));
    }
    all_colls::<D200>(&mut v, Plan::Seq, u, tier);
    all_colls::<A32>(&mut v, Plan::Max, u, tier);
    all_colls::<A64>(&mut v, Plan::Zero, u, tier);
    if tiny {
        return v;
    }
    // the HashMap history space with all memory monitors (tracked + plain flavours)
    let mut c = MapCfg::new(Plan::Zero, if q { 6 } else { 11 });
    c.max_buckets = if sse2 { 64 } else { 32 };
    let l = format!("{}-tracked-memory-monitors", c.label());
    v.push(Box::new(BfsConfig::new(l, MapHarness::<TKey, TVal>::new(c.clone()), Limits { max_wall_s: if q { 30.0 } else { 600.0 }, ..Default::default() })));
    c.plan = Plan::Last;
    c.universe = if q { 5 } else { 7 };
    let l = format!("{}-plain-memory-monitors", c.label());
    v.push(Box::new(BfsConfig::new(l, MapHarness::<PKey, PVal>::new(c), Limits { max_wall_s: if q { 30.0 } else { 600.0 }, ..Default::default() })));
    // panicking callbacks are part of "every safe program": a small fault enumeration (details: C04)
    v.push(super::c04::mk::<TKey, TVal>(Plan::Zero, if q { 5 } else { 7 }, vec![vec![]], None, tier, false, "-faults"));
    v
}

pub fn configs_c03(tier: Tier) -> Vec<Box<dyn Config>> {
    let q = tier == Tier::Quick;
    let sse2 = super::width() == 16;
    let mut v: Vec<Box<dyn Config>> = Vec::new();
    // HashMap: full alphabet (incl. clone_from into occupied targets, from_iter, shrink) + every
    // consumption cut of every owning iterator + every removal predicate, tracked elements
    let mut c = MapCfg::new(Plan::Zero, if q { 6 } else { 10 });
    c.max_buckets = if sse2 { 64 } else { 32 };
    c.probes = vec![Probe::Iterators, Probe::Removal { max_subset_len: if q { 5 } else { 8 } }];
    let l = format!("{}-map-release", c.label());
    v.push(Box::new(BfsConfig::new(l, MapHarness::<TKey, TVal>::new(c.clone()), Limits { max_wall_s: if q { 40.0 } else { 900.0 }, ..Default::default() })));
    c.plan = if sse2 { Plan::Seq } else { Plan::Cluster(2) };
    c.universe = if q { 4 } else { 6 };
    let l = format!("{}-map-release", c.label());
    v.push(Box::new(BfsConfig::new(l, MapHarness::<TKey, TVal>::new(c), Limits { max_wall_s: if q { 40.0 } else { 900.0 }, ..Default::default() })));
    // HashTable: extract_if / drain cuts are operations of its alphabet; into_iter / drain cuts as probes
    v.push(super::c06::tab(Plan::Zero, if q { 4 } else { 7 }, if q { 6 } else { 9 }, vec![TProbe::Iterators], true, tier, "-release"));
    // HashSet / layouts with drop glue through the leak-free part of the layout system
    // exactly-once release also when a callback panics (single-fault enumeration, details: C04)
    v.push(super::c04::mk::<TKey, TVal>(if sse2 { Plan::Seq } else { Plan::Zero }, if q { 4 } else { 7 }, vec![vec![]], None, tier, false, "-faults"));
    for coll in [Coll::Set, Coll::Map, Coll::Table] {
        let h = LayHarness::<D200>::new(coll, Plan::Zero, if q { 5 } else { 8 }, false);
        let l = format!("{}-release", h.label());
        v.push(Box::new(BfsConfig::new(l, h, Limits { max_wall_s: 60.0, ..Default::default() })));
    }
    v
}
