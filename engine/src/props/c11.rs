//! C11: clone is equal and independent; == ignores layout, capacity and hasher state.

use crate::explore::Limits;
use crate::keys::*;
use crate::mappairs::MapPairs;
use crate::mapsut::*;
use crate::report::{Config, Tier};

fn pairs(pa: Plan, ua: u8, pb: Plan, ub: u8, alt: bool, tier: Tier) -> Box<dyn Config> {
    let w = super::width();
    let big: u8 = if w == 16 { 30 } else { 16 };
    let mk = |p: Plan, u: u8, alt: bool| {
        let mut c = MapCfg::new(p, big);
        c.ops_universe = Some(u);
        c.reduce = false; // which ids two maps share matters
        c.alphabet = Alphabet::core();
        c.max_buckets = 32;
        c.alt_hasher = alt;
        c
    };
    let (ca, cb) = (mk(pa, ua, false), mk(pb, ub, alt));
    let label = format!("pairs-{}-ops{}-x-{}-ops{}{}", ca.label(), ua, cb.label(), ub, if alt { "-althasher" } else { "" });
    // full-window, full-load and tombstone-saturated tables take part in every pair
    let extra: Vec<Vec<MapOp>> = super::c01::seeds_for(w).into_iter().step_by(2).collect();
    Box::new(MapPairs {
        label,
        ha: MapHarness::new(ca),
        hb: MapHarness::new(cb),
        limits: Limits { max_wall_s: if tier == Tier::Quick { 20.0 } else { 300.0 }, ..Default::default() },
        max_states: if tier == Tier::Quick { 1500 } else { 20000 },
        wall_cap: if tier == Tier::Quick { 40.0 } else { 1500.0 },
        extra,
    })
}

pub fn configs(tier: Tier) -> Vec<Box<dyn Config>> {
    let sse2 = super::width() == 16;
    let q = tier == Tier::Quick;
    let mut v: Vec<Box<dyn Config>> = Vec::new();
    // a clone that panics part-way must not leak or double-drop the clones made so far (details: C04)
    v.push(super::c04::mk::<TKey, TVal>(Plan::Zero, if q { 4 } else { 6 }, vec![vec![]], None, tier, false, "-faults"));
    if sse2 {
        v.push(pairs(Plan::Seq, if q { 4 } else { 6 }, Plan::Seq, if q { 4 } else { 6 }, false, tier));
        v.push(pairs(Plan::Zero, if q { 4 } else { 5 }, Plan::Zero, if q { 4 } else { 5 }, false, tier));
        v.push(pairs(Plan::Zero, if q { 4 } else { 5 }, Plan::Mix, if q { 4 } else { 5 }, true, tier));
    } else {
        v.push(pairs(Plan::Zero, if q { 4 } else { 5 }, Plan::Zero, if q { 4 } else { 5 }, false, tier));
        v.push(pairs(Plan::Cluster(2), if q { 4 } else { 6 }, Plan::Cluster(2), if q { 4 } else { 6 }, false, tier));
        v.push(pairs(Plan::Seq, if q { 4 } else { 5 }, Plan::Max, if q { 4 } else { 5 }, true, tier));
    }
    // clones of tables of zero-sized elements create exactly one new element per stored element
    v.push(Box::new(super::c02::ZstTables { tier }));
    // HashSet::clone / clone_from / == over all ordered pairs of set states, equal and different hasher states
    if sse2 {
        v.push(super::c07::pairs(Plan::Zero, if q { 3 } else { 5 }, Plan::Mix, if q { 3 } else { 5 }, true, tier));
    } else {
        v.push(super::c07::pairs(Plan::Seq, if q { 3 } else { 5 }, Plan::Max, if q { 3 } else { 5 }, true, tier));
    }
    v
}
