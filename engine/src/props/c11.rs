//! C11: clone is equal and independent; == ignores layout, capacity and hasher state.

use crate::explore::Limits;
use crate::keys::*;
use crate::mappairs::MapPairs;
use crate::mapsut::*;
use crate::report::{Config, Tier};

fn pairs(pa: Plan, ua: u8, pb: Plan, ub: u8, alt: bool, tier: Tier) -> Box<dyn Config> {
    let w = super::width();
    let big: u8 = if w == 16 { 30 } else { 16 };
    let mk = |p: Plan, u: u8, alt: bool| {
        let mut c = MapCfg::new(p, big);
        c.ops_universe = Some(u);
        c.reduce = false; // which ids two maps share matters
        c.alphabet = Alphabet::core();
        c.max_buckets = 32;
        c.alt_hasher = alt;
        c
    };
    let (ca, cb) = (mk(pa, ua, false), mk(pb, ub, alt));
    let label = format!("pairs-{}-ops{}-x-{}-ops{}{}", ca.label(), ua, cb.label(), ub, if alt { "-althasher" } else { "" });
    // full-window, full-load and tombstone-saturated tables take part in every pair
    let extra: Vec<Vec<MapOp>> = super::c01::seeds_for(w).into_iter().step_by(2).collect();
    Box::new(MapPairs {
        label,
        ha: MapHarness::new(ca),
        hb: MapHarness::new(cb),
        limits: Limits { max_wall_s: if tier == Tier::Quick { 20.0 } else { 300.0 }, ..Default::default() },
        max_states: if tier == Tier::Quick { 1500 } else { 20000 },
        wall_cap: if tier == Tier::Quick { 40.0 } else { 1500.0 },
        extra,
    })
}

pub fn configs(tier: Tier) -> Vec<Box<dyn Config>> {
    let sse2 = super::width() == 16;
    let q = tier == Tier::Quick;
    let mut v: Vec<Box<dyn Config>> = Vec::new();
    // a clone that panics part-way must not leak or double-drop the clones made so far (details: C04)
    v.push(super::c04::mk::<TKey, TVal>(Plan::Zero, if q { 4 } else { 6 }, vec![vec![]], None, tier, false, "-faults"));
    if sse2 {
        v.push(pairs(Plan::Seq, if q { 4 } else { 6 }, Plan::Seq, if q { 4 } else { 6 }, false, tier));
        v.push(pairs(Plan::Zero, if q { 4 } else { 5 }, Plan::Zero, if q { 4 } else { 5 }, false, tier));
        v.push(pairs(Plan::Zero, if q { 4 } else { 5 }, Plan::Mix, if q { 4 } else { 5 }, true, tier));
    } else {
        v.push(pairs(Plan::Zero, if q { 4 } else { 5 }, Plan::Zero, if q { 4 } else { 5 }, false, tier));
        v.push(pairs(Plan::Cluster(2), if q { 4 } else { 6 }, Plan::Cluster(2), if q { 4 } else { 6 }, false, tier));
        v.push(pairs(Plan::Seq, if q { 4 } else { 5 }, Plan::Max, if q { 4 } else { 5 }, true, tier));
    }
    v.push(Box::new(NonReflexiveEq));
    // clones of tables of zero-sized elements create exactly one new element per stored element
    v.push(Box::new(super::c02::ZstTables { tier }));
    // HashSet::clone / clone_from / == over all ordered pairs of set states, equal and different hasher states
    if sse2 {
        v.push(super::c07::pairs(Plan::Zero, if q { 3 } else { 5 }, Plan::Mix, if q { 3 } else { 5 }, true, tier));
    } else {
        v.push(super::c07::pairs(Plan::Seq, if q { 3 } else { 5 }, Plan::Max, if q { 3 } else { 5 }, true, tier));
    }
    v
}

// ---------------------------------------------------------------------------
// == with values whose equality is not reflexive (PartialEq only is required of V): a map that holds a
// NaN is not equal to anything, including itself and its clones; == must not depend on object identity.
// ---------------------------------------------------------------------------

use crate::env::{self, CheckAlloc};
use crate::report::{ConfigReport, Viol};
use serde_json::{json, Value};

pub struct NonReflexiveEq;

fn nonreflexive_all() -> Result<u64, String> {
    type M = hashbrown::HashMap<u8, f64, PlanBuild, CheckAlloc>;
    let mut count = 0;
    env::set_plan(&Plan::Zero.table());
    for n in 0..=4usize {
        for nan_mask in 0..(1u32 << n) {
            for other_mask in 0..(1u32 << n) {
                let build = |mask: u32, extra_cap: usize| {
                    let mut m = M::with_capacity_and_hasher_in(extra_cap, PlanBuild::default(), CheckAlloc);
                    for i in 0..n {
                        m.insert(i as u8, if mask >> i & 1 == 1 { f64::NAN } else { i as f64 });
                    }
                    m
                };
                let a = build(nan_mask, 0);
                let b = build(other_mask, 40);
                // mathematical answer: same keys (always, here) and every pair of values equal under PartialEq
                let want_ab = (0..n).all(|i| nan_mask >> i & 1 == 0 && other_mask >> i & 1 == 0);
                let want_aa = nan_mask == 0;
                let c = a.clone();
                let checks = [("a == b", a == b, want_ab), ("b == a", b == a, want_ab), ("a == a", a == a, want_aa), ("a == a.clone()", a == c, want_aa), ("a.clone() == a", c == a, want_aa), ("a != a", a != a, !want_aa)];
                for (what, got, want) in checks {
                    if got != want {
                        return Err(format!("{what}: {n} entries, NaN values at {nan_mask:#b} (a) / {other_mask:#b} (b): returned {got}, mathematical answer {want}"));
                    }
                    count += 1;
                }
            }
        }
    }
    Ok(count)
}

impl Config for NonReflexiveEq {
    fn label(&self) -> String {
        "eq-with-non-reflexive-values".into()
    }
    fn run(&self) -> ConfigReport {
        crate::crumbs::set_config(&self.label());
        let t0 = std::time::Instant::now();
        env::reset();
        let mut rep = ConfigReport { label: self.label(), mode: "enum".into(), exhaustive: true, ..Default::default() };
        match env::catch(nonreflexive_all) {
            Ok(Ok(n)) => {
                rep.executions = n;
                rep.states = 5;
                rep.detail = json!({"entries": "0..=4", "NaN placements": "all subsets, both operands", "comparisons": n, "distinct_nontrivial": n});
            }
            Ok(Err(m)) | Err(m) => rep.violations.push(Viol { config: self.label(), message: m, replay: json!({"nonreflexive": true}) }),
        }
        rep.wall_s = t0.elapsed().as_secs_f64();
        rep
    }
    fn replay(&self, _rp: &Value) -> Result<(), String> {
        env::reset();
        match env::catch(nonreflexive_all) {
            Ok(r) => r.map(|_| ()),
            Err(m) => Err(m),
        }
    }
}
