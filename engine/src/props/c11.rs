//! C11: clone is equal and independent; == ignores layout, capacity and hasher state.

use crate::explore::Limits;
use crate::keys::*;
use crate::mappairs::MapPairs;
use crate::mapsut::*;
use crate::report::{Config, Tier};

fn pairs(pa: Plan, ua: u8, pb: Plan, ub: u8, alt: bool, tier: Tier) -> Box<dyn Config> {
    let w = super::width();
    let big: u8 = if w == 16 { 30 } else { 16 };
    let mk = |p: Plan, u: u8, alt: bool| {
        let mut c = MapCfg::new(p, big);
        c.ops_universe = Some(u);
        c.reduce = false; // which ids two maps share matters
        c.alphabet = Alphabet::core();
        c.max_buckets = 32;
        c.alt_hasher = alt;
        c
    };
    let (ca, cb) = (mk(pa, ua, false), mk(pb, ub, alt));
    let label = format!("pairs-{}-ops{}-x-{}-ops{}{}", ca.label(), ua, cb.label(), ub, if alt { "-althasher" } else { "" });
    // full-window, full-load and tombstone-saturated tables take part in every pair
    let extra: Vec<Vec<MapOp>> = super::c01::seeds_for(w).into_iter().step_by(2).collect();
    Box::new(MapPairs {
        label,
        ha: MapHarness::new(ca),
        hb: MapHarness::new(cb),
        limits: Limits { max_wall_s: if tier == Tier::Quick { 20.0 } else { 300.0 }, ..Default::default() },
        max_states: if tier == Tier::Quick { 1500 } else { 20000 },
        wall_cap: if tier == Tier::Quick { 40.0 } else { 1500.0 },
        extra,
    })
}

pub fn configs(tier: Tier) -> Vec<Box<dyn Config>> {
    let sse2 = super::width() == 16;
    let q = tier == Tier::Quick;
    let mut v: Vec<Box<dyn Config>> = Vec::new();
    v.push(Box::new(super::widebattery::WideBattery { tier, part: super::widebattery::Part::Clone }));
    // a clone that panics part-way must not leak or double-drop the clones made so far (details: C04)
    v.push(super::c04::mk::<TKey, TVal>(Plan::Zero, if q { 4 } else { 6 }, vec![vec![]], None, tier, false, "-faults"));
    if sse2 {
        v.push(pairs(Plan::Seq, if q { 4 } else { 6 }, Plan::Seq, if q { 4 } else { 6 }, false, tier));
        v.push(pairs(Plan::Zero, if q { 4 } else { 5 }, Plan::Zero, if q { 4 } else { 5 }, false, tier));
        v.push(pairs(Plan::Zero, if q { 4 } else { 5 }, Plan::Mix, if q { 4 } else { 5 }, true, tier));
    } else {
        v.push(pairs(Plan::Zero, if q { 4 } else { 5 }, Plan::Zero, if q { 4 } else { 5 }, false, tier));
        v.push(pairs(Plan::Cluster(2), if q { 4 } else { 6 }, Plan::Cluster(2), if q { 4 } else { 6 }, false, tier));
        v.push(pairs(Plan::Seq, if q { 4 } else { 5 }, Plan::Max, if q { 4 } else { 5 }, true, tier));
    }
    // element type without drop glue whose Clone is user code: every element of a copy is made by Clone::clone
    {
        let mut c = MapCfg::new(Plan::Zero, if q { 5 } else { 8 });
        c.max_buckets = if sse2 { 64 } else { 32 };
        let label = format!("{}-plainclone-clones", c.label());
        v.push(Box::new(crate::report::BfsConfig::new(label, MapHarness::<CKey, CVal>::new(c), Limits { max_wall_s: if q { 20.0 } else { 300.0 }, ..Default::default() })));
    }
    v.push(Box::new(NonReflexiveEq));
    v.push(Box::new(StatelessHasherAndAllocIdentity));
    // clones of tables of zero-sized elements create exactly one new element per stored element
    v.push(Box::new(super::c02::ZstTables { tier }));
    // HashSet::clone / clone_from / == over all ordered pairs of set states, equal and different hasher states
    if sse2 {
        v.push(super::c07::pairs(Plan::Zero, if q { 3 } else { 5 }, Plan::Mix, if q { 3 } else { 5 }, true, tier));
    } else {
        v.push(super::c07::pairs(Plan::Seq, if q { 3 } else { 5 }, Plan::Max, if q { 3 } else { 5 }, true, tier));
    }
    v
}

// ---------------------------------------------------------------------------
// == with values whose equality is not reflexive (PartialEq only is required of V): a map that holds a
// NaN is not equal to anything, including itself and its clones; == must not depend on object identity.
// ---------------------------------------------------------------------------

use crate::env::{self, CheckAlloc};
use crate::report::{ConfigReport, Viol};
use serde_json::{json, Value};

pub struct NonReflexiveEq;

fn nonreflexive_all() -> Result<u64, String> {
    type M = hashbrown::HashMap<u8, f64, PlanBuild, CheckAlloc>;
    let mut count = 0;
    env::set_plan(&Plan::Zero.table());
    for n in 0..=4usize {
        for nan_mask in 0..(1u32 << n) {
            for other_mask in 0..(1u32 << n) {
                let build = |mask: u32, extra_cap: usize| {
                    let mut m = M::with_capacity_and_hasher_in(extra_cap, PlanBuild::default(), CheckAlloc);
                    for i in 0..n {
                        m.insert(i as u8, if mask >> i & 1 == 1 { f64::NAN } else { i as f64 });
                    }
                    m
                };
                let a = build(nan_mask, 0);
                let b = build(other_mask, 40);
                // mathematical answer: same keys (always, here) and every pair of values equal under PartialEq
                let want_ab = (0..n).all(|i| nan_mask >> i & 1 == 0 && other_mask >> i & 1 == 0);
                let want_aa = nan_mask == 0;
                let c = a.clone();
                let checks = [("a == b", a == b, want_ab), ("b == a", b == a, want_ab), ("a == a", a == a, want_aa), ("a == a.clone()", a == c, want_aa), ("a.clone() == a", c == a, want_aa), ("a != a", a != a, !want_aa)];
                for (what, got, want) in checks {
                    if got != want {
                        return Err(format!("{what}: {n} entries, NaN values at {nan_mask:#b} (a) / {other_mask:#b} (b): returned {got}, mathematical answer {want}"));
                    }
                    count += 1;
                }
            }
        }
    }
    // zero-sized values are values too: a marker type that is never equal to anything (a zero-sized NaN)
    #[derive(Clone, Copy)]
    struct Never;
    impl PartialEq for Never {
        fn eq(&self, _: &Never) -> bool {
            false
        }
    }
    for n in 0..=20usize {
        let mut a: hashbrown::HashMap<u8, Never, PlanBuild, CheckAlloc> = hashbrown::HashMap::with_hasher_in(PlanBuild::default(), CheckAlloc);
        let mut b: hashbrown::HashMap<u8, Never, PlanBuild, CheckAlloc> = hashbrown::HashMap::with_capacity_and_hasher_in(40, PlanBuild::default(), CheckAlloc);
        for i in 0..n {
            a.insert(i as u8, Never);
            b.insert((n - 1 - i) as u8, Never);
        }
        let c = a.clone();
        let want = n == 0;
        for (what, got) in [("a == b", a == b), ("b == a", b == a), ("a == a", a == a), ("a == a.clone()", a == c), ("a.clone() == a", c == a), ("!(a != b)", !(a != b))] {
            if got != want {
                return Err(format!("{what}: {n} entries whose zero-sized values are never equal: returned {got}, mathematical answer {want}"));
            }
            count += 1;
        }
    }
    Ok(count)
}

impl Config for NonReflexiveEq {
    fn label(&self) -> String {
        "eq-with-non-reflexive-values".into()
    }
    fn run(&self) -> ConfigReport {
        crate::crumbs::set_config(&self.label());
        let t0 = std::time::Instant::now();
        env::reset();
        let mut rep = ConfigReport { label: self.label(), mode: "enum".into(), exhaustive: true, ..Default::default() };
        match env::catch(nonreflexive_all) {
            Ok(Ok(n)) => {
                rep.executions = n;
                rep.states = 5;
                rep.detail = json!({"entries": "0..=4", "NaN placements": "all subsets, both operands", "comparisons": n, "distinct_nontrivial": n});
            }
            Ok(Err(m)) | Err(m) => rep.violations.push(Viol { config: self.label(), message: m, replay: json!({"nonreflexive": true}) }),
        }
        rep.wall_s = t0.elapsed().as_secs_f64();
        rep
    }
    fn replay(&self, _rp: &Value) -> Result<(), String> {
        env::reset();
        match env::catch(nonreflexive_all) {
            Ok(r) => r.map(|_| ()),
            Err(m) => Err(m),
        }
    }
}

// ---------------------------------------------------------------------------
// Equality and cloning with a zero-sized (stateless) hasher and with allocators that have an identity:
//  - equal sets / maps built in different insertion orders and with different removal histories are equal
//    even when their tables have the same size (the slot an element lands in depends on the history);
//  - clone_from keeps the target's storage in the target's own allocator.
// ---------------------------------------------------------------------------

pub struct StatelessHasherAndAllocIdentity;

#[derive(Default, Clone, Copy)]
struct Low2;
impl std::hash::Hasher for Low2H {
    fn finish(&self) -> u64 {
        // four home positions, two tags: plenty of collisions
        mk_hash(self.0 % 4, (self.0 % 2) as u8)
    }
    fn write(&mut self, b: &[u8]) {
        for &x in b {
            self.0 = self.0.wrapping_mul(31).wrapping_add(x as u64);
        }
    }
    fn write_u8(&mut self, v: u8) {
        self.0 = v as u64;
    }
}
struct Low2H(u64);
impl std::hash::BuildHasher for Low2 {
    type Hasher = Low2H;
    fn build_hasher(&self) -> Low2H {
        Low2H(0)
    }
}

thread_local! {
    static OWNERS: std::cell::RefCell<Vec<(usize, u8)>> = const { std::cell::RefCell::new(Vec::new()) };
    static OWNER_ERRS: std::cell::RefCell<Vec<String>> = const { std::cell::RefCell::new(Vec::new()) };
}
/// allocator with an identity: every block must be returned to the instance (id) it came from
#[derive(Clone, Copy)]
struct IdAlloc(u8);
unsafe impl allocator_api2::alloc::Allocator for IdAlloc {
    fn allocate(&self, layout: std::alloc::Layout) -> Result<std::ptr::NonNull<[u8]>, allocator_api2::alloc::AllocError> {
        let p = CheckAlloc.allocate(layout)?;
        OWNERS.with(|o| o.borrow_mut().push((p.as_ptr() as *mut u8 as usize, self.0)));
        Ok(p)
    }
    unsafe fn deallocate(&self, ptr: std::ptr::NonNull<u8>, layout: std::alloc::Layout) {
        let addr = ptr.as_ptr() as usize;
        OWNERS.with(|o| {
            let mut o = o.borrow_mut();
            match o.iter().position(|e| e.0 == addr) {
                Some(i) => {
                    let (_, id) = o.swap_remove(i);
                    if id != self.0 {
                        OWNER_ERRS.with(|e| e.borrow_mut().push(format!("a block obtained from allocator #{id} was returned to allocator #{}", self.0)));
                    }
                }
                None => OWNER_ERRS.with(|e| e.borrow_mut().push("a block was returned that no allocator instance handed out".into())),
            }
        });
        CheckAlloc.deallocate(ptr, layout)
    }
}

fn stateless_and_identity() -> Result<u64, String> {
    type S = hashbrown::HashSet<u8, Low2, CheckAlloc>;
    type M = hashbrown::HashMap<u8, u8, Low2, CheckAlloc>;
    let mut count = 0u64;
    // 1. equality under a zero-sized hasher
    for n in 0..=24u8 {
        let asc: Vec<u8> = (0..n).collect();
        let desc: Vec<u8> = (0..n).rev().collect();
        let rot: Vec<u8> = (0..n).map(|i| (i + n / 2) % n.max(1)).collect();
        let build_s = |order: &[u8], churn: bool| {
            let mut s = S::with_hasher_in(Low2, CheckAlloc);
            if churn {
                // a removal history: extra elements that are removed again shift the later ones
                for x in 100..100 + n {
                    s.insert(x);
                }
            }
            for &x in order {
                s.insert(x);
            }
            if churn {
                for x in 100..100 + n {
                    s.remove(&x);
                }
            }
            s
        };
        let build_m = |order: &[u8], churn: bool| {
            let mut m = M::with_hasher_in(Low2, CheckAlloc);
            if churn {
                for x in 100..100 + n {
                    m.insert(x, 0);
                }
            }
            for &x in order {
                m.insert(x, x.wrapping_mul(3));
            }
            if churn {
                for x in 100..100 + n {
                    m.remove(&x);
                }
            }
            m
        };
        let sets = [build_s(&asc, false), build_s(&desc, false), build_s(&rot, false), build_s(&asc, true), build_s(&desc, true)];
        let maps = [build_m(&asc, false), build_m(&desc, false), build_m(&rot, false), build_m(&asc, true), build_m(&desc, true)];
        for i in 0..sets.len() {
            for j in 0..sets.len() {
                if sets[i] != sets[j] || !(sets[i] == sets[j]) {
                    return Err(format!("HashSet == with a zero-sized hasher: two sets holding 0..{n} built with histories #{i} and #{j} (bucket counts {} / {}) compare unequal", sets[i].verif_dump().bucket_mask + 1, sets[j].verif_dump().bucket_mask + 1));
                }
                if maps[i] != maps[j] {
                    return Err(format!("HashMap == with a zero-sized hasher: two maps holding 0..{n} built with histories #{i} and #{j} compare unequal"));
                }
                count += 2;
            }
            if n > 0 {
                let mut other = sets[i].clone();
                other.remove(&0);
                other.insert(200);
                if sets[i] == other || other == sets[i] {
                    return Err(format!("HashSet == with a zero-sized hasher: sets of equal length that differ in one element compare equal (n = {n})"));
                }
                let mut om = maps[i].clone();
                *om.get_mut(&0).unwrap() = 99;
                if maps[i] == om || om == maps[i] {
                    return Err(format!("HashMap == with a zero-sized hasher: maps that differ in one value compare equal (n = {n})"));
                }
                count += 2;
            }
        }
    }
    // 2. clone / clone_from between allocator instances with an identity
    type IM = hashbrown::HashMap<u8, u8, Low2, IdAlloc>;
    type IS = hashbrown::HashSet<u8, Low2, IdAlloc>;
    let sizes = [0u8, 1, 3, 4, 7, 8, 14, 15, 28, 29];
    for &ns in &sizes {
        for &nt in &sizes {
            for unallocated_target in [false, true] {
                if unallocated_target && nt != 0 {
                    continue;
                }
                OWNERS.with(|o| o.borrow_mut().clear());
                OWNER_ERRS.with(|e| e.borrow_mut().clear());
                {
                    let mut src = IM::with_hasher_in(Low2, IdAlloc(1));
                    for x in 0..ns {
                        src.insert(x, x);
                    }
                    let mut tgt = if unallocated_target { IM::with_hasher_in(Low2, IdAlloc(2)) } else { IM::with_capacity_and_hasher_in(nt as usize, Low2, IdAlloc(2)) };
                    for x in 50..50 + nt {
                        tgt.insert(x, x);
                    }
                    tgt.clone_from(&src);
                    if tgt != src || tgt.allocator().0 != 2 {
                        return Err(format!("clone_from({ns} entries into a map of {nt}): result differs from the source or lost its own allocator"));
                    }
                    // the target's storage must live in the target's allocator: grow / shrink / drop it while the source is alive
                    tgt.insert(250, 1);
                    tgt.shrink_to_fit();
                    drop(tgt);
                    let c = src.clone();
                    if c.allocator().0 != 1 {
                        return Err("clone() does not carry the source's allocator".into());
                    }
                    drop(src);
                    drop(c);
                    let mut ssrc = IS::with_hasher_in(Low2, IdAlloc(3));
                    for x in 0..ns {
                        ssrc.insert(x);
                    }
                    let mut stgt = IS::with_capacity_and_hasher_in(nt as usize, Low2, IdAlloc(4));
                    for x in 50..50 + nt {
                        stgt.insert(x);
                    }
                    stgt.clone_from(&ssrc);
                    if stgt != ssrc {
                        return Err(format!("HashSet::clone_from({ns} elements into a set of {nt}): result differs from the source"));
                    }
                }
                let errs = OWNER_ERRS.with(|e| std::mem::take(&mut *e.borrow_mut()));
                if let Some(e) = errs.first() {
                    return Err(format!("clone_from({ns} entries into a {} of {nt} entries) between two allocator instances: {e}", if unallocated_target { "never-allocated map" } else { "map" }));
                }
                let left = OWNERS.with(|o| o.borrow().len());
                if left != 0 {
                    return Err(format!("clone_from({ns} entries into a map of {nt}): {left} block(s) were never returned"));
                }
                count += 1;
            }
        }
    }
    let errs = env::take_errors();
    if !errs.is_empty() {
        return Err(errs.join("; "));
    }
    Ok(count)
}

impl Config for StatelessHasherAndAllocIdentity {
    fn label(&self) -> String {
        "stateless-hasher-eq-and-allocator-identity".into()
    }
    fn run(&self) -> ConfigReport {
        crate::crumbs::set_config(&self.label());
        let t0 = std::time::Instant::now();
        env::reset();
        let mut rep = ConfigReport { label: self.label(), mode: "enum".into(), exhaustive: true, ..Default::default() };
        match env::catch(stateless_and_identity) {
            Ok(Ok(n)) => {
                rep.executions = n;
                rep.states = 25;
                rep.detail = json!({"eq": "sets / maps of 0..n (n <= 24) x 5 construction histories, all ordered pairs", "clone_from": "10 x 10 source / target sizes between distinct allocator instances", "checks": n, "distinct_nontrivial": n});
            }
            Ok(Err(m)) | Err(m) => rep.violations.push(Viol { config: self.label(), message: m, replay: json!({"stateless": true}) }),
        }
        rep.wall_s = t0.elapsed().as_secs_f64();
        rep
    }
    fn replay(&self, _rp: &Value) -> Result<(), String> {
        env::reset();
        match env::catch(stateless_and_identity) {
            Ok(r) => r.map(|_| ()),
            Err(m) => Err(m),
        }
    }
}
