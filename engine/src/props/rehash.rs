//! Layout grammar for the resize / in-place-rehash logic (used by C01, C06, C13):
//! exhaustive enumeration of table layouts that closed searches over small key
//! universes cannot reach - several probe starts ("homes") in one table of four
//! groups, elements displaced into their second probe group, slots freed early
//! (EMPTY again) and late (tombstones), growth_left driven to 0 by fillers -
//! followed by one triggering insertion through each insertion path. Every case
//! is a scripted HashMap history checked step by step against the reference
//! model and the structure invariants.

use crate::env;
use crate::explore::{self, Stats};
use crate::inv;
use crate::keys::*;
use crate::mapsut::*;
use crate::report::{Config, ConfigReport, Tier, Viol};
use serde::{Deserialize, Serialize};
use serde_json::{json, Value};
use std::sync::atomic::{AtomicU64, Ordering};
use std::sync::Mutex;

#[derive(Clone, Copy, Debug, Serialize, Deserialize, PartialEq)]
pub struct Blk {
    /// probe start relative to the base position
    pub home_off: i16,
    pub tag: u8,
    pub n: u8,
    /// how many of the block's first elements are removed right after the block was inserted
    pub early: u8,
    /// how many more are removed after the table was filled (tombstone phase)
    pub late: u8,
}

#[derive(Clone, Debug, Serialize, Deserialize)]
pub struct Case {
    pub base: u16,
    pub blocks: Vec<Blk>,
    pub trig_off: i16,
    pub trig_tag: u8,
    /// 0 = entry().or_insert (RawTable::insert), 1 = insert (find_or_find_insert_slot), 2 = try_insert, 3 = reserve(Half) then insert,
    /// 4 = entry(stored key).and_replace_entry_with(None) then insert through the returned vacant entry
    pub via: u8,
}

pub struct Outcome {
    pub in_place: bool,
    pub grew: bool,
    pub skipped: bool,
    /// the case as a plain history for the generic harness: operations before the triggering insertion,
    /// the triggering operations, the per-id hash plan, and the configuration (with `initial_capacity`)
    pub script: Option<Script>,
}
pub struct Script {
    pub cfg: MapCfg,
    pub plan: [u64; 256],
    pub before: Vec<MapOp>,
    pub trigger: Vec<MapOp>,
}

fn buckets_target() -> usize {
    4 * hashbrown::verif::GROUP_WIDTH
}

pub fn run_case(c: &Case) -> Result<Outcome, String> {
    let n = buckets_target();
    let mask = (n - 1) as i64;
    let stats = Stats::default();
    env::reset();
    let mut cfg = MapCfg::new(Plan::Zero, 250);
    cfg.max_buckets = 4 * n;
    cfg.check_alloc_size = true;
    let cap = hashbrown::verif::bucket_mask_to_capacity(n - 1);
    cfg.initial_capacity = Some(cap);
    let h = MapHarness::<TKey, TVal>::new(cfg.clone());
    env::set_plan(&[0u64; 256]);
    // (the baseline of the ledgers is taken before the table obtains its block)
    let mut sut = MapSut::<TKey, TVal>::new(&cfg);
    let rec: std::cell::RefCell<Vec<MapOp>> = std::cell::RefCell::new(Vec::new());
    if sut.map.verif_dump().bucket_mask + 1 != n {
        return Err("MACHINERY: unexpected bucket count".into());
    }
    let pos = |off: i16| ((c.base as i64 + off as i64) & mask) as u64;
    let mut next_id: u8 = 0;
    let mut block_ids: Vec<Vec<u8>> = Vec::new();
    let universe_now = |next: u8| next.max(1);
    let step = |sut: &mut MapSut<TKey, TVal>, op: MapOp, u: u8| -> Result<(), String> {
        rec.borrow_mut().push(op);
        h.apply_op(sut, &op, true, &stats).map_err(|m| format!("{:?}: {m}", op))?;
        sut.check_all(u, true, true).map_err(|m| format!("after {:?}: {m}", op))
    };
    for b in &c.blocks {
        let mut ids = Vec::new();
        for _ in 0..b.n {
            let id = next_id;
            next_id += 1;
            env::with(|e| e.plan[id as usize] = mk_hash(pos(b.home_off), b.tag));
            if sut.map.capacity() == sut.map.len() {
                return Ok(Outcome { in_place: false, grew: false, skipped: true, script: None });
            }
            step(&mut sut, MapOp::Insert(id), universe_now(next_id))?;
            ids.push(id);
        }
        for &id in ids.iter().take(b.early as usize) {
            step(&mut sut, MapOp::Remove(id), universe_now(next_id))?;
        }
        block_ids.push(ids);
    }
    // fillers: one per EMPTY bucket (lowest first), until growth_left == 0; then all fillers are removed
    for _round in 0..3 {
        let mut fillers = Vec::new();
        while sut.map.capacity() > sut.map.len() {
            let d = sut.map.verif_dump();
            let slot = match (0..n).find(|&i| d.ctrl[i] == inv::EMPTY) {
                Some(s) => s,
                None => break,
            };
            if next_id >= 240 {
                return Ok(Outcome { in_place: false, grew: false, skipped: true, script: None });
            }
            let id = next_id;
            next_id += 1;
            env::with(|e| e.plan[id as usize] = mk_hash(slot as u64, 0x33));
            rec.borrow_mut().push(MapOp::Insert(id));
            h.apply_op(&mut sut, &MapOp::Insert(id), true, &stats)?;
            fillers.push(id);
        }
        sut.check_all(universe_now(next_id), true, true).map_err(|m| format!("after the fill: {m}"))?;
        for id in fillers {
            rec.borrow_mut().push(MapOp::Remove(id));
            h.apply_op(&mut sut, &MapOp::Remove(id), true, &stats)?;
        }
        if _round == 0 {
            for (b, ids) in c.blocks.iter().zip(block_ids.iter()) {
                for &id in ids.iter().skip(b.early as usize).take(b.late as usize) {
                    rec.borrow_mut().push(MapOp::Remove(id));
                    h.apply_op(&mut sut, &MapOp::Remove(id), true, &stats)?;
                }
            }
        }
        sut.check_all(universe_now(next_id), true, true).map_err(|m| format!("after removing the fillers: {m}"))?;
        if sut.map.capacity() == sut.map.len() {
            break;
        }
    }
    if sut.map.verif_dump().bucket_mask + 1 != n {
        return Ok(Outcome { in_place: false, grew: false, skipped: true, script: None });
    }
    // the triggering insertion
    let pre = sut.map.verif_dump();
    let id = next_id;
    next_id += 1;
    env::with(|e| e.plan[id as usize] = mk_hash(pos(c.trig_off), c.trig_tag));
    let u = universe_now(next_id);
    let before = rec.borrow().clone();
    match c.via {
        0 => step(&mut sut, MapOp::Entry(id, EAct::OrInsert), u)?,
        1 => step(&mut sut, MapOp::Insert(id), u)?,
        2 => step(&mut sut, MapOp::TryInsert(id), u)?,
        4 => {
            // remove a stored element of the layout through its entry and re-insert through the vacant entry
            // that the removal hands back (no lookup, no reservation in between)
            match block_ids.iter().flatten().copied().filter(|&x| sut.mpos(x).is_some()).last() {
                Some(victim) => step(&mut sut, MapOp::Entry(victim, EAct::AndReplaceNone), u)?,
                None => step(&mut sut, MapOp::Entry(id, EAct::OrInsert), u)?,
            }
        }
        _ => {
            step(&mut sut, MapOp::Reserve(Res::Half), u)?;
            step(&mut sut, MapOp::Entry(id, EAct::Insert), u)?;
        }
    }
    let trigger: Vec<MapOp> = rec.borrow()[before.len()..].to_vec();
    let plan = env::with(|e| e.plan);
    let post = sut.map.verif_dump();
    let in_place = post.bucket_mask == pre.bucket_mask && inv::count_deleted(&pre) > 0 && inv::count_deleted(&post) == 0 && pre.items > 0;
    let grew = post.bucket_mask > pre.bucket_mask;
    // a few more operations on the rehashed table
    if let Some(&first) = block_ids.iter().flatten().last() {
        if sut.mpos(first).is_some() {
            step(&mut sut, MapOp::Remove(first), u)?;
            step(&mut sut, MapOp::Insert(first), u)?;
        }
    }
    step(&mut sut, MapOp::Remove(id), u)?;
    sut.finish()?;
    let mut scfg = cfg.clone();
    scfg.universe = u;
    Ok(Outcome { in_place, grew, skipped: false, script: Some(Script { cfg: scfg, plan, before, trigger }) })
}

pub fn cases(tier: Tier) -> Vec<Case> {
    cases_with_tags(tier, 0x11)
}

/// `tag2`: tag of the second home's block (0x11 = same tag as the first home, so lookups must tell the
/// two apart by equality; another value = an element swapped into a slot leaves a foreign tag behind).
pub fn cases_with_tags(tier: Tier, tag2: u8) -> Vec<Case> {
    let w = hashbrown::verif::GROUP_WIDTH as u8;
    let n = buckets_target() as u16;
    let q = tier == Tier::Quick;
    let ns: Vec<u8> = if q { vec![0, 1, 4, w, w + 1] } else { vec![0, 1, 2, 4, w - 1, w, w + 1] };
    let bases: Vec<u16> = if q { vec![n - 7, 3] } else { vec![n - 7, n - 3, n - 1, 3] };
    let mut blocks_for = |off: i16, tag: u8| -> Vec<Blk> {
        let mut v = Vec::new();
        for &k in &ns {
            let earlies: Vec<u8> = if k == 0 { vec![0] } else if k == 1 { vec![0, 1] } else { vec![0, k - 1] };
            for &e in &earlies {
                let lates: Vec<u8> = if k - e <= 1 { vec![0] } else { vec![0, (k - e) / 2] };
                for &l in &lates {
                    v.push(Blk { home_off: off, tag, n: k, early: e, late: l });
                }
            }
        }
        v
    };
    let b1 = blocks_for(0, 0x11);
    let b2 = blocks_for(3, tag2);
    let b3 = blocks_for(w as i16, 0x12);
    let mut out = Vec::new();
    let trig: Vec<(i16, u8)> = vec![(0, 0x11), (3, tag2), (-1, 0x11), (w as i16, 0x12), (1, 0x13)];
    for &base in &bases {
        for x in &b1 {
            for y in &b2 {
                for z in &b3 {
                    if x.n + y.n + z.n == 0 {
                        continue;
                    }
                    // block orders: 123, 213, 312 (which home is filled first matters for displacement)
                    for order in 0..3 {
                        let blocks = match order {
                            0 => vec![*x, *y, *z],
                            1 => vec![*y, *x, *z],
                            _ => vec![*z, *x, *y],
                        };
                        for &(to, tt) in &trig {
                            for via in if q { vec![0u8, 1, 4] } else { vec![0u8, 1, 2, 3, 4] } {
                                out.push(Case { base, blocks: blocks.clone(), trig_off: to, trig_tag: tt, via });
                            }
                        }
                    }
                }
            }
        }
    }
    out
}

pub struct RehashGrammar {
    pub tier: Tier,
}

impl Config for RehashGrammar {
    fn label(&self) -> String {
        "rehash-layout-grammar".into()
    }
    fn run(&self) -> ConfigReport {
        crate::crumbs::set_config(&self.label());
        let t0 = std::time::Instant::now();
        let mut cs = cases(self.tier);
        if self.tier != Tier::Quick {
            cs.extend(cases_with_tags(self.tier, 0x14));
        }
        let next = std::sync::atomic::AtomicUsize::new(0);
        let (ran, inplace, grew, skipped) = (AtomicU64::new(0), AtomicU64::new(0), AtomicU64::new(0), AtomicU64::new(0));
        let viol: Mutex<Option<(Value, String)>> = Mutex::new(None);
        let capped = std::sync::atomic::AtomicBool::new(false);
        let wall_cap = if self.tier == Tier::Quick { 60.0 } else { 1800.0 };
        std::thread::scope(|sc| {
            for w in 0..explore::nthreads() {
                let (cs, next, ran, inplace, grew, skipped, viol, capped) = (&cs, &next, &ran, &inplace, &grew, &skipped, &viol, &capped);
                sc.spawn(move || {
                    env::WORKER.with(|c| c.set(w));
                    loop {
                        let i = next.fetch_add(1, Ordering::Relaxed);
                        if i >= cs.len() || viol.lock().unwrap().is_some() {
                            break;
                        }
                        if t0.elapsed().as_secs_f64() > wall_cap {
                            capped.store(true, Ordering::Relaxed);
                            break;
                        }
                        if i % 16 == 0 {
                            crate::crumbs::set_replay(&json!({"case": cs[i]}).to_string());
                        }
                        match env::catch(|| run_case(&cs[i])) {
                            Ok(Ok(o)) => {
                                ran.fetch_add(1, Ordering::Relaxed);
                                if o.in_place {
                                    inplace.fetch_add(1, Ordering::Relaxed);
                                }
                                if o.grew {
                                    grew.fetch_add(1, Ordering::Relaxed);
                                }
                                if o.skipped {
                                    skipped.fetch_add(1, Ordering::Relaxed);
                                }
                            }
                            Ok(Err(m)) => {
                                *viol.lock().unwrap() = Some((json!({"case": cs[i]}), m));
                            }
                            Err(m) => {
                                *viol.lock().unwrap() = Some((json!({"case": cs[i]}), format!("unexpected panic: {m}")));
                            }
                        }
                    }
                    crate::crumbs::clear();
                });
            }
        });
        let mut rep = ConfigReport {
            label: self.label(),
            mode: "enum(layout grammar)".into(),
            states: cs.len() as u64,
            executions: ran.load(Ordering::Relaxed),
            transitions: ran.load(Ordering::Relaxed),
            exhaustive: !capped.load(Ordering::Relaxed),
            cap: if capped.load(Ordering::Relaxed) { Some(format!("wall cap {wall_cap}s")) } else { None },
            wall_s: t0.elapsed().as_secs_f64(),
            ..Default::default()
        };
        rep.detail = json!({"cases": cs.len(), "cases_run": rep.executions, "triggered_in_place_rehash": inplace.load(Ordering::Relaxed),
            "triggered_growth": grew.load(Ordering::Relaxed), "skipped_layout_not_constructible": skipped.load(Ordering::Relaxed),
            "buckets": buckets_target(), "distinct_nontrivial": inplace.load(Ordering::Relaxed) + grew.load(Ordering::Relaxed)});
        if let Some(c) = cs.get(cs.len() / 3) {
            rep.samples.push(json!({"case": c}));
        }
        if let Some((rp, m)) = viol.into_inner().unwrap() {
            if m.starts_with("MACHINERY") {
                rep.machinery_error = Some(m);
            } else {
                rep.violations.push(Viol { config: self.label(), message: m, replay: rp });
            }
        } else if inplace.load(Ordering::Relaxed) == 0 {
            rep.machinery_error = Some("anti-vacuity: the layout grammar triggered no in-place rehash".into());
        }
        rep
    }
    fn replay(&self, rp: &Value) -> Result<(), String> {
        let c: Case = serde_json::from_value(rp["case"].clone()).map_err(|e| format!("MACHINERY: bad replay: {e}"))?;
        match env::catch(|| run_case(&c)) {
            Ok(r) => r.map(|_| ()),
            Err(m) => Err(format!("unexpected panic: {m}")),
        }
    }
}

// ---------------------------------------------------------------------------
// Fault injection into the in-place rehashes of the layout grammar (C04): for every case whose
// triggering operation rehashes in place, every callback invocation of that operation panics once.
// ---------------------------------------------------------------------------

pub struct RehashFaults {
    pub tier: Tier,
}

fn fault_target(c: &Case) -> Result<Option<(MapHarness<TKey, TVal>, Vec<MapOp>, MapOp)>, String> {
    let o = run_case(c)?;
    if !o.in_place {
        return Ok(None);
    }
    let s = match o.script {
        Some(s) => s,
        None => return Ok(None),
    };
    let mut h = MapHarness::<TKey, TVal>::new(s.cfg);
    h.plan = s.plan;
    let op = s.trigger[0];
    Ok(Some((h, s.before, op)))
}

impl Config for RehashFaults {
    fn label(&self) -> String {
        "rehash-layout-grammar-faults".into()
    }
    fn run(&self) -> ConfigReport {
        use crate::faults::{self, FaultStats};
        crate::crumbs::set_config(&self.label());
        let t0 = std::time::Instant::now();
        let q = self.tier == Tier::Quick;
        // quick: one base position and the two no-lookup / lookup insertion paths; thorough: the whole grammar
        let mut cs: Vec<Case> = cases_with_tags(self.tier, 0x14).into_iter().filter(|c| !q || (c.base != 3 && c.blocks[0].home_off == 0)).collect();
        if !q {
            cs.extend(cases(self.tier));
        }
        let next = std::sync::atomic::AtomicUsize::new(0);
        let (targets, runs) = (AtomicU64::new(0), AtomicU64::new(0));
        let fs = FaultStats::default();
        let viol: Mutex<Option<(Value, String)>> = Mutex::new(None);
        let capped = std::sync::atomic::AtomicBool::new(false);
        let wall_cap = if q { 40.0 } else { 1800.0 };
        std::thread::scope(|sc| {
            for w in 0..explore::nthreads() {
                let (cs, next, targets, runs, viol, capped, fs) = (&cs, &next, &targets, &runs, &viol, &capped, &fs);
                sc.spawn(move || {
                    env::WORKER.with(|c| c.set(w));
                    'cases: loop {
                        let i = next.fetch_add(1, Ordering::Relaxed);
                        if i >= cs.len() || viol.lock().unwrap().is_some() {
                            break;
                        }
                        if t0.elapsed().as_secs_f64() > wall_cap {
                            capped.store(true, Ordering::Relaxed);
                            break;
                        }
                        crate::crumbs::set_replay(&json!({"case": cs[i]}).to_string());
                        let tgt = match env::catch(|| fault_target(&cs[i])) {
                            Ok(Ok(Some(t))) => t,
                            Ok(Ok(None)) => continue,
                            Ok(Err(m)) | Err(m) => {
                                *viol.lock().unwrap() = Some((json!({"case": cs[i]}), m));
                                break;
                            }
                        };
                        let (h, hist, op) = tgt;
                        targets.fetch_add(1, Ordering::Relaxed);
                        let counts = match faults::count_run(&h, &hist, &op) {
                            Ok(c) => c,
                            Err(m) => {
                                *viol.lock().unwrap() = Some((json!({"case": cs[i]}), m));
                                break;
                            }
                        };
                        for &class in env::ALL_PANIC_CLASSES.iter() {
                            for k in 0..counts[class as usize] {
                                let rp = json!({"case": cs[i], "fault": [class, k]});
                                crate::crumbs::set_replay(&rp.to_string());
                                runs.fetch_add(1, Ordering::Relaxed);
                                let r = match env::catch(|| faults::one_fault(&h, &hist, &op, class, k, Some(fs))) {
                                    Ok(r) => r,
                                    Err(m) => Err(format!("unexpected panic in the harness after the fault: {m}")),
                                };
                                if let Err(m) = r {
                                    *viol.lock().unwrap() = Some((rp, m));
                                    break 'cases;
                                }
                            }
                        }
                    }
                    crate::crumbs::clear();
                });
            }
        });
        let mut rep = ConfigReport {
            label: self.label(),
            mode: "enum(layout grammar) x faults".into(),
            states: targets.load(Ordering::Relaxed),
            executions: runs.load(Ordering::Relaxed),
            transitions: runs.load(Ordering::Relaxed),
            exhaustive: !capped.load(Ordering::Relaxed),
            cap: if capped.load(Ordering::Relaxed) { Some(format!("wall cap {wall_cap}s")) } else { None },
            wall_s: t0.elapsed().as_secs_f64(),
            ..Default::default()
        };
        let inplace = fs.during_inplace_rehash.load(Ordering::Relaxed);
        rep.detail = json!({"cases": cs.len(), "cases_whose_trigger_rehashes_in_place": rep.states, "faulted_runs": rep.executions,
            "faults_fired_and_checked": fs.fired.load(Ordering::Relaxed), "fired_during_in_place_rehash": inplace,
            "buckets": buckets_target(), "distinct_nontrivial": inplace});
        if let Some((rp, m)) = viol.into_inner().unwrap() {
            if m.starts_with("MACHINERY") {
                rep.machinery_error = Some(m);
            } else {
                rep.violations.push(Viol { config: self.label(), message: m, replay: rp });
            }
        } else if inplace == 0 {
            rep.machinery_error = Some("anti-vacuity: no fault was injected into an in-place rehash of the layout grammar".into());
        }
        rep
    }
    fn replay(&self, rp: &Value) -> Result<(), String> {
        let c: Case = serde_json::from_value(rp["case"].clone()).map_err(|e| format!("MACHINERY: bad replay: {e}"))?;
        let r = env::catch(|| -> Result<(), String> {
            let tgt = fault_target(&c)?;
            if rp.get("fault").is_none() || rp["fault"].is_null() {
                return Ok(());
            }
            let (h, hist, op) = tgt.ok_or("MACHINERY: the case does not rehash in place")?;
            let class: env::Class = serde_json::from_value(rp["fault"][0].clone()).map_err(|e| format!("MACHINERY: bad replay: {e}"))?;
            let k: u32 = serde_json::from_value(rp["fault"][1].clone()).map_err(|e| format!("MACHINERY: bad replay: {e}"))?;
            crate::faults::one_fault(&h, &hist, &op, class, k, None).map(|_| ())
        });
        match r {
            Ok(r) => r,
            Err(m) => Err(format!("unexpected panic: {m}")),
        }
    }
}
