//! C08 capacity contract, C12 try_reserve, C13 churn (HashMap systems).

use crate::env;
use crate::explore::{Limits, Mech};
use crate::keys::*;
use crate::mapsut::*;
use crate::report::{BfsConfig, Config, ConfigReport, Tier};
use serde_json::{json, Value};

struct Constructors;
impl Config for Constructors {
    fn label(&self) -> String {
        "constructors".into()
    }
    fn run(&self) -> ConfigReport {
        let t0 = std::time::Instant::now();
        env::reset();
        let mut rep = ConfigReport { label: self.label(), mode: "enum".into(), exhaustive: true, ..Default::default() };
        let r = env::catch(|| -> Result<u64, String> {
            let a = crate::mapprobes::probe_constructors::<TKey, TVal>()?;
            env::reset();
            let b = crate::mapprobes::probe_constructors::<PKey, PVal>()?;
            Ok(a + b)
        });
        match r {
            Ok(Ok(n)) => {
                rep.probes = n;
                rep.states = 1;
                rep.samples.push(json!({"with_capacity": "n = 0..=4096 and around 7/8*2^k, 2^k for k = 12..19; new/default/with_capacity(0)"}));
            }
            Ok(Err(m)) | Err(m) => rep.violations.push(crate::report::Viol { config: self.label(), message: m, replay: json!({"constructors": true}) }),
        }
        rep.wall_s = t0.elapsed().as_secs_f64();
        rep
    }
    fn replay(&self, _rp: &Value) -> Result<(), String> {
        env::reset();
        match env::catch(|| crate::mapprobes::probe_constructors::<TKey, TVal>()) {
            Ok(r) => r.map(|_| ()),
            Err(m) => Err(m),
        }
    }
}

fn lim(tier: Tier) -> Limits {
    Limits {
        max_wall_s: if tier == Tier::Quick { 40.0 } else { 900.0 },
        max_states: if tier == Tier::Quick { 400_000 } else { 6_000_000 },
        ..Default::default()
    }
}

fn probe_cfg<K: KeyT, V: ValT>(plan: Plan, universe: u8, probes: Vec<Probe>, tier: Tier, tag: &str) -> Box<dyn Config> {
    let mut c = MapCfg::new(plan, universe);
    c.max_buckets = if super::width() == 16 { 64 } else { 32 };
    // small universes: the full alphabet (every operation that touches the free-slot accounting)
    c.alphabet = if universe <= 7 { Alphabet::full() } else { Alphabet::core() };
    if universe <= 7 {
        c.alphabet.raw_entry = true;
        c.alphabet.rustc_entry = true;
    }
    c.probes = probes;
    let label = format!("{}-{}-{}", c.label(), K::NAME, tag);
    Box::new(BfsConfig::new(label, MapHarness::<K, V>::new(c), lim(tier)))
}

pub fn configs_c08(tier: Tier) -> Vec<Box<dyn Config>> {
    let sse2 = super::width() == 16;
    let q = tier == Tier::Quick;
    let p = vec![Probe::Capacity];
    let mut v: Vec<Box<dyn Config>> = vec![Box::new(Constructors)];
    // element sizes whose bucket array needs padding: allocation_size() must equal the ledger in every state
    {
        use crate::laysut::*;
        for coll in [Coll::Set, Coll::Map, Coll::Table] {
            let h = LayHarness::<S3>::new(coll, Plan::Seq, if q { 5 } else { 8 }, false);
            let l = format!("{}-allocation-size", h.label());
            v.push(Box::new(BfsConfig::new(l, h, lim(tier))));
        }
        let h = LayHarness::<S6>::new(Coll::Set, Plan::Zero, if q { 5 } else { 8 }, false);
        let l = format!("{}-allocation-size", h.label());
        v.push(Box::new(BfsConfig::new(l, h, lim(tier))));
        // zero-sized elements: the allocation consists of control bytes only, and is still an allocation
        for coll in [Coll::Set, Coll::Map, Coll::Table] {
            let h = LayHarness::<Z0>::new(coll, Plan::Zero, 1, false);
            let l = format!("{}-allocation-size", h.label());
            v.push(Box::new(BfsConfig::new(l, h, lim(tier))));
        }
    }
    // scripted full / tombstone-saturated / all-tombstone tables (capacity() == 0 with an allocation)
    {
        let mut c = MapCfg::new(Plan::Zero, if sse2 { 30 } else { 16 });
        c.max_buckets = if sse2 { 64 } else { 32 };
        c.alphabet = Alphabet::core();
        c.probes = p.clone();
        let label = format!("{}-tracked-capacity-seeded", c.label());
        let mut l = lim(tier);
        l.max_depth = Some(if q { 0 } else { 1 });
        let mut b = BfsConfig::new(label, MapHarness::<TKey, TVal>::new(c), l);
        b.seeds = super::c01::seeds_for(super::width());
        v.push(Box::new(b));
    }
    // HashTable: reserve / shrink_to / shrink_to_fit / try_reserve with the caller's hasher (capacity contract
    // checked on every operation of its alphabet)
    v.push(super::c06::tab(Plan::Zero, if q { 5 } else { 8 }, if q { 7 } else { 10 }, vec![], true, tier, "-capacity"));
    if sse2 {
        v.push(probe_cfg::<TKey, TVal>(Plan::Zero, if q { 13 } else { 16 }, p.clone(), tier, "capacity"));
        v.push(probe_cfg::<PKey, PVal>(Plan::Seq, if q { 5 } else { 7 }, p.clone(), tier, "capacity"));
        v.push(probe_cfg::<TKey, TVal>(Plan::Last, if q { 5 } else { 7 }, p.clone(), tier, "capacity"));
    } else {
        v.push(probe_cfg::<TKey, TVal>(Plan::Zero, if q { 12 } else { 14 }, p.clone(), tier, "capacity"));
        v.push(probe_cfg::<PKey, PVal>(Plan::Cluster(2), if q { 6 } else { 9 }, p.clone(), tier, "capacity"));
        v.push(probe_cfg::<TKey, TVal>(Plan::Seq, if q { 5 } else { 7 }, p.clone(), tier, "capacity"));
    }
    v
}

pub fn configs_c12(tier: Tier) -> Vec<Box<dyn Config>> {
    let sse2 = super::width() == 16;
    let q = tier == Tier::Quick;
    let p = vec![Probe::TryReserve];
    let mut v: Vec<Box<dyn Config>> = Vec::new();
    // scripted full / tombstone-saturated tables (growth_left == 0, in-place rehash possible)
    {
        let mut c = MapCfg::new(Plan::Zero, if sse2 { 30 } else { 16 });
        c.max_buckets = if sse2 { 64 } else { 32 };
        c.alphabet = Alphabet::core();
        c.probes = p.clone();
        let label = format!("{}-tracked-try_reserve-seeded", c.label());
        let mut l = lim(tier);
        l.max_depth = Some(if q { 0 } else { 1 });
        let mut b = BfsConfig::new(label, MapHarness::<TKey, TVal>::new(c), l);
        b.seeds = super::c01::seeds_for(super::width()).into_iter().step_by(if q { 3 } else { 1 }).collect();
        v.push(Box::new(b));
    }
    // every collection type x element layouts (zero-sized, odd sizes, over-aligned, with drop glue)
    {
        use crate::laysut::*;
        fn tr<L: Lay>(v: &mut Vec<Box<dyn Config>>, coll: Coll, u: u8, tier: Tier) {
            let mut h = LayHarness::<L>::new(coll, Plan::Zero, u, false);
            h.try_reserve_probes = true;
            let l = format!("{}-try_reserve", h.label());
            v.push(Box::new(BfsConfig::new(l, h, Limits { max_wall_s: if tier == Tier::Quick { 30.0 } else { 150.0 }, ..Default::default() })));
        }
        let u = if q { 4 } else { 6 };
        for coll in [Coll::Set, Coll::Map, Coll::Table] {
            tr::<Z0>(&mut v, coll, u, tier);
            tr::<S1>(&mut v, coll, u, tier);
            tr::<D8>(&mut v, coll, u, tier);
            if !q {
                tr::<S3>(&mut v, coll, u, tier);
                tr::<S24>(&mut v, coll, u, tier);
                tr::<Z16>(&mut v, coll, u, tier);
            }
        }
        tr::<A64>(&mut v, Coll::Set, u, tier);
        tr::<S3>(&mut v, Coll::Table, u, tier);
    }
    if sse2 {
        v.push(probe_cfg::<TKey, TVal>(Plan::Zero, if q { 11 } else { 15 }, p.clone(), tier, "try_reserve"));
        v.push(probe_cfg::<PKey, PVal>(Plan::Seq, if q { 4 } else { 6 }, p.clone(), tier, "try_reserve"));
    } else {
        v.push(probe_cfg::<TKey, TVal>(Plan::Zero, if q { 11 } else { 13 }, p.clone(), tier, "try_reserve"));
        v.push(probe_cfg::<PKey, PVal>(Plan::Cluster(2), if q { 5 } else { 8 }, p.clone(), tier, "try_reserve"));
    }
    v
}

/// C13: all insert/remove interleavings with at most `n` live elements and
/// `n + 1` keys per class, to a fixpoint; bucket bound checked in every state.
fn churn(plan: Plan, classes: u8, n: usize, tier: Tier, need_inplace: bool) -> Box<dyn Config> {
    churn_of(plan, classes, n, tier, need_inplace, false)
}

/// `shrink`: `shrink_to_fit` / `shrink_to(len)` join the alphabet (giving memory back is not "reserving capacity";
/// a shrink that cannot reduce the table must leave the free-slot accounting alone)
fn churn_of(plan: Plan, classes: u8, n: usize, tier: Tier, need_inplace: bool, shrink: bool) -> Box<dyn Config> {
    let universe = (classes as usize * (n + 1)).min(120) as u8;
    let mut c = MapCfg::new(plan, universe);
    c.alphabet = Alphabet::churn();
    if shrink {
        c.alphabet.shrink_to_fit = true;
        c.alphabet.shrink_to = vec![Shr::Len];
    }
    c.max_live = Some(n);
    c.no_growth_when_half_empty = true;
    let (size, align) = hashbrown::verif::table_layout_of::<(TKey, TVal)>();
    let base = hashbrown::verif::capacity_to_buckets(n.max(1), size, align).unwrap();
    c.bucket_bound = Some(4 * base);
    let label = format!("{}-churn{}", c.label(), if shrink { "+shrink" } else { "" });
    let mut b = BfsConfig::new(label, MapHarness::<TKey, TVal>::new(c), lim(tier));
    b.require_fixpoint = true;
    b.post = Some(Box::new(move |out, stats| {
        let mut maxb = 0usize;
        for c in &out.canon_of {
            if c.len() > 5 {
                maxb = maxb.max(u32::from_le_bytes([c[1], c[2], c[3], c[4]]) as usize);
            }
        }
        if need_inplace && stats.get(Mech::RehashInPlace) == 0 {
            return Err("anti-vacuity: the churn space contains no in-place rehash".into());
        }
        if need_inplace && (stats.get(Mech::TombstoneReused) == 0 || stats.get(Mech::ErasedToEmpty) == 0) {
            return Err("anti-vacuity: no tombstone reuse / erase-to-EMPTY in the churn space".into());
        }
        Ok(json!({"max_live": n, "buckets_of_with_capacity_n": base, "bucket_bound": 4 * base, "max_buckets_observed": maxb,
                  "fixpoint": out.exhaustive}))
    }));
    Box::new(b)
}

/// SSE2: the smallest table with tombstones has 32 buckets and the closed
/// churn space does not reach growth_left == 0 with few live keys; start from
/// scripted tombstone-saturated states instead (depth-bounded, not a fixpoint).
fn churn_seeded(tier: Tier) -> Box<dyn Config> {
    churn_seeded_of::<TKey, TVal>(Plan::Zero, tier, "")
}

fn churn_seeded_of<K: KeyT, V: ValT>(plan: Plan, tier: Tier, tag: &str) -> Box<dyn Config> {
    let n = 28usize;
    let mut c = MapCfg::new(plan, 30);
    c.alphabet = Alphabet::churn();
    if tag.contains("+shrink") {
        c.alphabet.shrink_to_fit = true;
        c.alphabet.shrink_to = vec![Shr::Len];
    }
    c.max_live = Some(n);
    c.no_growth_when_half_empty = true;
    let (size, align) = hashbrown::verif::table_layout_of::<(K, V)>();
    let base = hashbrown::verif::capacity_to_buckets(n, size, align).unwrap();
    c.bucket_bound = Some(4 * base);
    let label = format!("{}-churn-seeded{}", c.label(), tag);
    let mut l = lim(tier);
    l.max_depth = Some(if tier == Tier::Quick { 3 } else { 6 });
    let mut b = BfsConfig::new(label, MapHarness::<K, V>::new(c), l);
    let mut seeds = Vec::new();
    for removed in [14u8, 15, 20, 27, 28] {
        let mut h: Vec<MapOp> = (0..28).map(MapOp::Insert).collect();
        h.extend((0..removed).map(MapOp::Remove));
        seeds.push(h);
    }
    // suffix removal and every-other removal
    let mut h: Vec<MapOp> = (0..28).map(MapOp::Insert).collect();
    h.extend((10..28).map(MapOp::Remove));
    seeds.push(h);
    let mut h: Vec<MapOp> = (0..28).map(MapOp::Insert).collect();
    h.extend((0..28).filter(|i| i % 2 == 0).map(MapOp::Remove));
    h.extend((0..6).map(|i| MapOp::Remove(2 * i + 1)));
    seeds.push(h);
    b.seeds = seeds;
    b.post = Some(Box::new(move |_out, stats| {
        if stats.get(Mech::RehashInPlace) == 0 {
            return Err("anti-vacuity: no in-place rehash around the tombstone-saturated seeds".into());
        }
        Ok(json!({"max_live": n, "bucket_bound": 4 * base, "note": "depth-bounded search around scripted seeds; not a fixpoint"}))
    }));
    Box::new(b)
}

pub fn configs_c13(tier: Tier) -> Vec<Box<dyn Config>> {
    let sse2 = super::width() == 16;
    let q = tier == Tier::Quick;
    let mut v: Vec<Box<dyn Config>> = Vec::new();
    v.push(Box::new(super::rehash::RehashGrammar { tier }));
    v.push(Box::new(super::widechurn::WideChurn { tier }));
    if sse2 {
        v.push(churn(Plan::Zero, 1, if q { 15 } else { 19 }, tier, false));
        v.push(churn_seeded(tier));
        // one home per key: an absent key whose own bucket is EMPTY while the free-slot budget is spent on tombstones
        v.push(churn_seeded_of::<TKey, TVal>(Plan::Seq, tier, ""));
        // 136-byte entries: reclaiming in place must not depend on the element size
        v.push(churn_seeded_of::<PKey, BVal>(Plan::Zero, tier, "-bulky"));
        v.push(churn_seeded_of::<TKey, TVal>(Plan::Zero, tier, "+shrink"));
        v.push(churn_of(Plan::Zero, 1, if q { 7 } else { 15 }, tier, false, true));
        v.push(churn(Plan::Zero, 1, 3, tier, false));
        v.push(churn(Plan::Zero, 1, 7, tier, false));
        v.push(churn(Plan::Cluster(2), 2, if q { 4 } else { 7 }, tier, false));
        v.push(churn(Plan::Seq, 1, if q { 4 } else { 6 }, tier, false));
    } else {
        v.push(churn(Plan::Zero, 1, if q { 8 } else { 14 }, tier, true));
        v.push(churn_seeded_of::<PKey, BVal>(Plan::Zero, tier, "-bulky"));
        v.push(churn_seeded_of::<TKey, TVal>(Plan::Seq, tier, ""));
        v.push(churn_of(Plan::Zero, 1, if q { 8 } else { 12 }, tier, false, true));
        v.push(churn_of(Plan::Seq, 1, if q { 4 } else { 6 }, tier, false, true));
        v.push(churn(Plan::Zero, 1, 3, tier, false));
        v.push(churn(Plan::Zero, 1, 7, tier, false));
        v.push(churn(Plan::Cluster(2), 2, if q { 5 } else { 8 }, tier, !q));
        v.push(churn(Plan::Cluster(3), 3, if q { 3 } else { 5 }, tier, false));
        v.push(churn(Plan::Seq, 1, if q { 4 } else { 6 }, tier, false));
    }
    v
}
