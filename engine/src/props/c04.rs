//! C04: a panic in any user callback leaves a valid collection and no double drop.

use crate::explore::{self, Limits, Stats};
use crate::faults;
use crate::keys::*;
use crate::mapsut::*;
use crate::report::{outcome_report, Config, ConfigReport, Tier};
use serde_json::Value;

pub struct FaultCfg<H: faults::FaultHarness> {
    pub label: String,
    pub h_search: H,
    pub h_full: H,
    pub seeds: Vec<Vec<H::Op>>,
    pub limits: Limits,
    pub max_states: usize,
    pub wall_cap: f64,
    pub need_inplace: bool,
}

impl<H: faults::FaultHarness + Send> Config for FaultCfg<H> {
    fn label(&self) -> String {
        self.label.clone()
    }
    fn run(&self) -> ConfigReport {
        crate::crumbs::set_config(&self.label);
        let stats = Stats::default();
        let out = explore::bfs(&self.h_search, self.seeds.clone(), &self.limits, &stats);
        if out.violation.is_some() {
            return outcome_report(&self.label, "bfs(before faults)", &out, &stats);
        }
        let mut rep = faults::enumerate(&self.label, &self.h_full, &out, self.max_states, self.wall_cap);
        if let Value::Object(m) = &mut rep.detail {
            m.insert("search_levels".into(), serde_json::json!(out.levels));
            m.insert("search_mechanisms".into(), stats.mech_map());
        }
        if self.need_inplace && rep.violations.is_empty() && rep.machinery_error.is_none() {
            let n = rep.detail["fired_during_in_place_rehash"].as_u64().unwrap_or(0);
            if n == 0 {
                rep.machinery_error = Some("anti-vacuity: no Hash fault was injected into an in-place rehash".into());
            }
        }
        rep
    }
    fn replay(&self, rp: &Value) -> Result<(), String> {
        if rp.get("op").is_some() {
            faults::replay_fault(&self.h_full, rp)
        } else {
            Err("MACHINERY: replay file has no op".into())
        }
    }
}

/// Seed: fill the table to growth_left == 0 with one-class keys, then remove a
/// prefix so that tombstones keep growth_left at 0 with len <= capacity/2.
fn tombstone_seed(fill: u8, remove: u8) -> Vec<MapOp> {
    let mut v: Vec<MapOp> = (0..fill).map(MapOp::Insert).collect();
    v.extend((0..remove).map(MapOp::Remove));
    v
}

pub fn mk<K: KeyT, V: ValT>(plan: Plan, universe: u8, seeds: Vec<Vec<MapOp>>, depth: Option<u32>, tier: Tier, need_inplace: bool, tag: &str) -> Box<dyn Config> {
    let mut c = MapCfg::new(plan, universe);
    c.max_buckets = if super::width() == 16 { 64 } else { 32 };
    if tag.contains("rehash-ops") {
        c.alphabet = Alphabet::rehash();
    }
    let mut cs = c.clone();
    cs.alphabet = Alphabet::core();
    let label = format!("{}-{}{}", c.label(), K::NAME, tag);
    let quick = tier == Tier::Quick;
    Box::new(FaultCfg::<MapHarness<K, V>> {
        label,
        h_search: MapHarness::new(cs),
        h_full: MapHarness::new(c),
        seeds,
        limits: Limits { max_depth: depth, max_wall_s: if quick { 20.0 } else { 600.0 }, ..Default::default() },
        max_states: if quick { 8_000 } else { 200_000 },
        wall_cap: if quick { 25.0 } else { 1500.0 },
        need_inplace,
    })
}

/// HashTable: the caller's hasher / equality / entry closures and the elements' Clone / Drop panic
pub fn mk_table(plan: Plan, universe: u8, max_len: usize, seeds: Vec<Vec<crate::tablesut::TabOp>>, depth: Option<u32>, tier: Tier, tag: &str) -> Box<dyn Config> {
    use crate::tablesut::*;
    let mut c = TabCfg::new(plan, universe);
    c.max_len = max_len;
    c.max_dup = 1;
    c.max_buckets = if super::width() == 16 { 64 } else { 32 };
    c.full_alphabet = true;
    let mut cs = c.clone();
    cs.full_alphabet = false;
    let label = format!("{}-faults{}", c.label(), tag);
    let quick = tier == Tier::Quick;
    Box::new(FaultCfg::<TabHarness> {
        label,
        h_search: TabHarness::new(cs),
        h_full: TabHarness::new(c),
        seeds,
        limits: Limits { max_depth: depth, max_wall_s: if quick { 20.0 } else { 600.0 }, ..Default::default() },
        max_states: if quick { 8_000 } else { 200_000 },
        wall_cap: if quick { 25.0 } else { 1500.0 },
        need_inplace: false,
    })
}

/// HashSet wrappers (get_or_insert_with, replace, take, entry, retain, extend ...)
pub fn mk_set(plan: Plan, universe: u8, tier: Tier, tag: &str) -> Box<dyn Config> {
    use crate::setsut::*;
    let mut c = SetCfg::new(plan, universe);
    c.max_buckets = if super::width() == 16 { 64 } else { 32 };
    let mut cs = c.clone();
    cs.full_alphabet = false;
    let label = format!("{}-faults{}", c.label(), tag);
    let quick = tier == Tier::Quick;
    Box::new(FaultCfg::<SetHarness> {
        label,
        h_search: SetHarness::new(cs),
        h_full: SetHarness::new(c),
        seeds: vec![vec![]],
        limits: Limits { max_wall_s: if quick { 20.0 } else { 600.0 }, ..Default::default() },
        max_states: if quick { 8_000 } else { 200_000 },
        wall_cap: if quick { 25.0 } else { 1500.0 },
        need_inplace: false,
    })
}

pub fn configs(tier: Tier) -> Vec<Box<dyn Config>> {
    let sse2 = super::width() == 16;
    let mut v: Vec<Box<dyn Config>> = Vec::new();
    let quick = tier == Tier::Quick;
    // faults in every callback of the in-place rehashes of the layout grammar (several homes and tags, displaced elements)
    v.push(Box::new(super::rehash::RehashFaults { tier }));
    // zero-sized elements with a ledger: panicking Clone, panicking hasher during an in-place rehash
    v.push(Box::new(super::c02::ZstTables { tier }));
    // HashSet wrappers
    v.push(mk_set(Plan::Zero, if quick { 5 } else { 8 }, tier, ""));
    // HashTable: closed space, and scripted full / tombstone-saturated tables (in-place rehash on the next insertion)
    v.push(mk_table(Plan::Zero, if quick { 5 } else { 7 }, if quick { 6 } else { 9 }, vec![vec![]], None, tier, ""));
    {
        use crate::tablesut::TabOp;
        let (gw, fill) = if sse2 { (16u8, 28u8) } else { (8u8, 14u8) };
        let ins = |n: u8| (0..n).map(TabOp::InsertUnique).collect::<Vec<_>>();
        let mut seeds = vec![ins(gw + 1)];
        for removed in [fill / 2, fill - 8] {
            let mut h = ins(fill);
            h.extend((0..removed).map(TabOp::Remove));
            seeds.push(h);
        }
        v.push(mk_table(Plan::Zero, fill + 2, fill as usize + 1, seeds, Some(0), tier, "-seeded"));
    }
    // element type without drop glue whose Clone is user code (clone / clone_from paths that are gated on drop glue)
    v.push(mk::<CKey, CVal>(Plan::Zero, if quick { 6 } else { 9 }, vec![vec![]], None, tier, false, ""));
    if sse2 {
        // 32-bucket table, growth_left == 0, tombstones: in-place rehash on the next insert
        let seeds = vec![tombstone_seed(28, 20), tombstone_seed(28, 14)];
        v.push(mk::<PKey, PVal>(Plan::Zero, 30, seeds.clone(), Some(if quick { 0 } else { 1 }), tier, true, "-seeded"));
        v.push(mk::<TKey, TVal>(Plan::Zero, 30, seeds, Some(if quick { 0 } else { 1 }), tier, true, "-seeded"));
        let u = if quick { 6 } else { 9 };
        v.push(mk::<TKey, TVal>(Plan::Zero, u, vec![vec![]], None, tier, false, ""));
        v.push(mk::<PKey, PVal>(Plan::Zero, u, vec![vec![]], None, tier, false, ""));
        v.push(mk::<TKey, TVal>(Plan::Seq, if quick { 4 } else { 6 }, vec![vec![]], None, tier, false, ""));
        // MAX plan: the first element lives in the LAST bucket (guards that walk the buckets must reach it)
        // (key 0 stays: it is the element in the last bucket)
        let keep0 = |fill: u8, removed: u8| {
            let mut h: Vec<MapOp> = (0..fill).map(MapOp::Insert).collect();
            h.extend((1..=removed).map(MapOp::Remove));
            h
        };
        v.push(mk::<PKey, PVal>(Plan::Max, 30, vec![keep0(28, 20), keep0(28, 26), tombstone_seed(28, 20)], Some(0), tier, true, "-seeded"));
        v.push(mk::<TKey, TVal>(Plan::Max, 30, vec![keep0(28, 20), keep0(28, 15)], Some(if quick { 0 } else { 1 }), tier, true, "-seeded"));
    } else {
        // closed spaces big enough to contain in-place rehashes of non-empty tables; the fault alphabet is the
        // set of operations that can resize or rehash
        let ur = if quick { 10 } else { 12 };
        v.push(mk::<TKey, TVal>(Plan::Max, ur, vec![vec![]], None, tier, true, "-rehash-ops"));
        v.push(mk::<PKey, PVal>(Plan::Zero, ur, vec![vec![]], None, tier, true, "-rehash-ops"));
        let u = if quick { 8 } else { 11 };
        v.push(mk::<PKey, PVal>(Plan::Zero, u, vec![vec![]], None, tier, false, ""));
        v.push(mk::<TKey, TVal>(Plan::Zero, u, vec![vec![]], None, tier, !quick, ""));
        v.push(mk::<TKey, TVal>(Plan::Cluster(2), if quick { 6 } else { 9 }, vec![vec![]], None, tier, false, ""));
        v.push(mk::<TKey, TVal>(Plan::Seq, if quick { 4 } else { 6 }, vec![vec![]], None, tier, false, ""));
    }
    v
}
