//! C19: parallel iteration visits each element exactly once under any split/schedule.
//! (a) exhaustive exploration of all binary split trees of the real producers
//! (single-threaded, harness-driven) x occupancy patterns x consumer stop
//! points; (b) conformance of the public parallel API on real rayon pools of
//! several sizes against the sequential counterparts (these runs sample
//! schedules; the exhaustive claim is (a)).

use crate::env::{self, CheckAlloc};
use crate::explore::{self, Limits, Stats};
use crate::inv;
use crate::keys::*;
use crate::report::{Config, ConfigReport, Tier, Viol};
use crate::tablesut::*;
use hashbrown::verif::rayon::{VerifDrainProducer, VerifIterProducer};
use hashbrown::{HashMap, HashSet, HashTable};
use rayon::iter::plumbing::Folder;
use rayon::prelude::*;
use serde_json::{json, Value};
use std::hash::{BuildHasher, Hash, Hasher};
use std::sync::atomic::{AtomicU32, AtomicU64, AtomicU8, Ordering};
use std::sync::Mutex;

// ---------------------------------------------------------------------------
// (a) split trees
// ---------------------------------------------------------------------------

/// Occupancy pattern of a scripted table.
#[derive(Clone, Debug, serde::Serialize, serde::Deserialize)]
pub struct Pattern {
    pub groups: usize,
    pub name: String,
    /// bucket positions to occupy
    pub positions: Vec<u16>,
}

fn patterns(max_groups: usize) -> Vec<Pattern> {
    let w = hashbrown::verif::GROUP_WIDTH;
    let mut v = Vec::new();
    let mut g = 1;
    while g <= max_groups {
        let n = g * w;
        let cap = hashbrown::verif::bucket_mask_to_capacity(n - 1).min(250);
        let mut add = |name: &str, pos: Vec<u16>| v.push(Pattern { groups: g, name: format!("{g}groups-{name}"), positions: pos });
        add("empty", vec![]);
        add("first", vec![0]);
        add("last", vec![(n - 1) as u16]);
        add("first-and-last", vec![0, (n - 1) as u16]);
        add("alternating", (0..n as u16).step_by(2).take(cap).collect());
        add("one-group-only", (((g / 2) * w) as u16..((g / 2) * w + w.min(cap)) as u16).collect());
        add("full-to-capacity", (0..cap as u16).collect());
        add("last-of-each-group", (0..g).map(|i| (i * w + w - 1) as u16).collect());
        if g >= 2 {
            add("second-half", ((n / 2) as u16..(n / 2 + (n / 2).min(cap)) as u16).collect());
        }
        g *= 2;
    }
    v
}

/// Build the table of a pattern: `buckets = groups * WIDTH`, element `i` placed at `positions[i]`.
fn build(p: &Pattern) -> Result<(Table, Vec<(u8, u32)>), String> {
    env::reset();
    let w = hashbrown::verif::GROUP_WIDTH;
    let n = p.groups * w;
    let mut plan = [0u64; 256];
    for (i, &pos) in p.positions.iter().enumerate() {
        plan[i] = mk_hash(pos as u64, 0x11);
    }
    env::set_plan(&plan);
    let cap = hashbrown::verif::bucket_mask_to_capacity(n - 1);
    let mut t = Table::with_capacity_in(cap, CheckAlloc);
    let d = t.verif_dump();
    if d.bucket_mask + 1 != n {
        return Err(format!("MACHINERY: with_capacity({cap}) gave {} buckets, wanted {n}", d.bucket_mask + 1));
    }
    let mut model = Vec::new();
    for i in 0..p.positions.len() {
        t.insert_unique(plan[i], TEl::make(i as u8, 100 + i as u32), hasher);
        model.push((i as u8, 100 + i as u32));
    }
    let d = t.verif_dump();
    for (i, &pos) in p.positions.iter().enumerate() {
        if t.verif_bucket(pos as usize).map(|e| e.id) != Some(i as u8) {
            return Err(format!("MACHINERY: pattern element {i} did not land in bucket {pos} ({:?})", &d.ctrl[..n]));
        }
    }
    Ok((t, model))
}

fn full_buckets(t: &Table) -> Vec<usize> {
    let d = t.verif_dump();
    if d.is_singleton {
        return vec![];
    }
    (0..=d.bucket_mask).filter(|&i| inv::is_full(d.ctrl[i])).collect()
}

/// Drive the iter producer along `decisions` (preorder; default = consume).
/// Returns the leaves' bucket sets and the decision log (with arity info).
fn run_iter_tree(t: &Table, decisions: &[bool]) -> (Vec<Vec<usize>>, Vec<bool>, usize) {
    fn rec(p: VerifIterProducer<TEl>, t: &Table, dec: &[bool], log: &mut Vec<bool>, leaves: &mut Vec<Vec<usize>>, vacuous: &mut usize) {
        let i = log.len();
        let d = dec.get(i).copied().unwrap_or(false);
        log.push(d);
        if d {
            let (l, r) = p.split();
            match r {
                Some(r) => {
                    rec(l, t, dec, log, leaves, vacuous);
                    rec(r, t, dec, log, leaves, vacuous);
                }
                None => {
                    *vacuous += 1;
                    leaves.push(l.leaf_indices(t));
                }
            }
        } else {
            leaves.push(p.leaf_indices(t));
        }
    }
    let mut log = Vec::new();
    let mut leaves = Vec::new();
    let mut vac = 0;
    rec(t.verif_par_iter_producer(), t, decisions, &mut log, &mut leaves, &mut vac);
    (leaves, log, vac)
}

struct LimFolder {
    got: Vec<(u8, u32)>,
    limit: usize,
}
impl Folder<TEl> for LimFolder {
    type Result = Vec<(u8, u32)>;
    fn consume(mut self, e: TEl) -> Self {
        self.got.push((e.id, e.tok));
        drop(e);
        self
    }
    fn complete(self) -> Vec<(u8, u32)> {
        self.got
    }
    fn full(&self) -> bool {
        self.got.len() >= self.limit
    }
}

/// Collect the leaves of the drain producer along `decisions`.
fn drain_leaves(t: &mut Table, decisions: &[bool]) -> Vec<VerifDrainProducer<TEl>> {
    fn rec(p: VerifDrainProducer<TEl>, dec: &[bool], log: &mut usize, leaves: &mut Vec<VerifDrainProducer<TEl>>) {
        let d = dec.get(*log).copied().unwrap_or(false);
        *log += 1;
        if d {
            let (l, r) = p.split();
            match r {
                Some(r) => {
                    rec(l, dec, log, leaves);
                    rec(r, dec, log, leaves);
                }
                None => leaves.push(l),
            }
        } else {
            leaves.push(p);
        }
    }
    let mut leaves = Vec::new();
    let mut log = 0;
    let p = unsafe { t.verif_par_drain_begin() };
    rec(p, decisions, &mut log, &mut leaves);
    leaves
}

fn check_tree(p: &Pattern, decisions: &[bool], counters: &Counters) -> Result<Vec<bool>, String> {
    let (t, model) = build(p)?;
    let full = full_buckets(&t);
    let (leaves, log, _vac) = run_iter_tree(&t, decisions);
    counters.trees.fetch_add(1, Ordering::Relaxed);
    counters.leaves.fetch_add(leaves.len() as u64, Ordering::Relaxed);
    // leaves pairwise disjoint, union == FULL buckets
    let mut all: Vec<usize> = leaves.iter().flatten().copied().collect();
    all.sort_unstable();
    let mut dedup = all.clone();
    dedup.dedup();
    if dedup.len() != all.len() {
        return Err(format!("split tree {:?}: a bucket is visited by two leaves (or twice): leaves {:?}", log, leaves));
    }
    if all != full {
        return Err(format!("split tree {:?}: leaves cover buckets {:?} but the FULL buckets are {:?}", log, all, full));
    }
    drop(t);
    crate::mapsut::end_of_run_checks(&crate::mapsut::Baseline { live_elems: 0, live_blocks: 0, live_bytes: 0, block_idx: 0, reg_idx: 0 })?;
    // drain producer: every consumer stop point x leaf orders
    let nleaves = leaves.len();
    let max_leaf = leaves.iter().map(|l| l.len()).max().unwrap_or(0);
    let orders: Vec<Vec<usize>> = if nleaves <= 3 {
        perms(nleaves)
    } else {
        vec![(0..nleaves).collect(), (0..nleaves).rev().collect()]
    };
    // for large tables: stop points {0, 1, 2, unrestricted} and forward order only
    let light = p.groups >= 16;
    let limits: Vec<usize> = if light { vec![0, 1, 2, max_leaf + 1] } else { (0..=max_leaf + 1).collect() };
    let orders: Vec<Vec<usize>> = if light { vec![(0..nleaves).collect()] } else { orders };
    for limit in limits {
        for order in &orders {
            let (mut t, model2) = build(p)?;
            let asize = t.allocation_size();
            let ls = drain_leaves(&mut t, decisions);
            if ls.len() != nleaves {
                return Err(format!("split tree {:?}: drain producer splits into {} leaves, iter producer into {nleaves}", log, ls.len()));
            }
            let mut slots: Vec<Option<VerifDrainProducer<TEl>>> = ls.into_iter().map(Some).collect();
            let mut delivered: Vec<(u8, u32)> = Vec::new();
            for &li in order {
                let prod = slots[li].take().unwrap();
                let f = prod.fold_with(LimFolder { got: Vec::new(), limit });
                delivered.extend(f.complete());
            }
            t.verif_par_drain_end();
            counters.drain_runs.fetch_add(1, Ordering::Relaxed);
            let mut dd = delivered.clone();
            dd.sort_unstable();
            let n0 = dd.len();
            dd.dedup();
            if dd.len() != n0 {
                return Err(format!("split tree {:?}, stop after {limit}: an element was delivered twice: {:?}", log, delivered));
            }
            for e in &dd {
                if !model2.contains(e) {
                    return Err(format!("split tree {:?}: delivered {:?} which is not stored", log, e));
                }
            }
            let errs = env::take_errors();
            if !errs.is_empty() {
                return Err(format!("split tree {:?}, stop after {limit}: {}", log, errs.join("; ")));
            }
            // every element was delivered (and dropped by the consumer) or dropped by the producer: nothing live
            if env::reg_live_count() != 0 {
                return Err(format!(
                    "split tree {:?}, stop after {limit}, leaf order {:?}: {} element(s) neither delivered nor dropped",
                    log,
                    order,
                    env::reg_live_count()
                ));
            }
            if limit > max_leaf && dd.len() != model2.len() {
                return Err(format!("split tree {:?}: unrestricted consumer received {} of {} elements", log, dd.len(), model2.len()));
            }
            // table empty, usable, same allocation
            let d = t.verif_dump();
            inv::check_structure(&d, inv::Which { lawful_hash: true }, &|_| None).map_err(|m| format!("after par_drain (tree {:?}): {m}", log))?;
            if t.len() != 0 || t.iter().count() != 0 {
                return Err(format!("after par_drain (tree {:?}) the table is not empty", log));
            }
            if t.allocation_size() != asize {
                return Err(format!("par_drain changed the allocation from {asize} to {} bytes", t.allocation_size()));
            }
            t.insert_unique(plan_hash(0), TEl::make(0, 7), hasher);
            if t.find(plan_hash(0), |e| e.id == 0).map(|e| e.tok) != Some(7) {
                return Err("table not usable after par_drain".into());
            }
            drop(t);
            crate::mapsut::end_of_run_checks(&crate::mapsut::Baseline { live_elems: 0, live_blocks: 0, live_bytes: 0, block_idx: 0, reg_idx: 0 })?;
        }
    }
    let _ = model;
    Ok(log)
}

fn perms(n: usize) -> Vec<Vec<usize>> {
    fn rec(cur: &mut Vec<usize>, used: &mut Vec<bool>, n: usize, out: &mut Vec<Vec<usize>>) {
        if cur.len() == n {
            out.push(cur.clone());
            return;
        }
        for i in 0..n {
            if !used[i] {
                used[i] = true;
                cur.push(i);
                rec(cur, used, n, out);
                cur.pop();
                used[i] = false;
            }
        }
    }
    let mut out = Vec::new();
    rec(&mut Vec::new(), &mut vec![false; n], n, &mut out);
    out
}

#[derive(Default)]
struct Counters {
    trees: AtomicU64,
    leaves: AtomicU64,
    drain_runs: AtomicU64,
}

/// Stateless DFS over decision vectors: run `prefix`, default "consume" afterwards,
/// then flip every later decision point.
fn explore_trees(p: &Pattern, counters: &Counters, max_trees: u64) -> Result<(u64, bool), String> {
    let mut stack: Vec<Vec<bool>> = vec![vec![]];
    let mut n = 0u64;
    while let Some(prefix) = stack.pop() {
        if n >= max_trees {
            return Ok((n, false));
        }
        crate::crumbs::set_replay(&json!({"pattern": p, "decisions": prefix}).to_string());
        let log = check_tree(p, &prefix, counters)?;
        n += 1;
        // a vacuous split (unsplittable leaf) behaves like "consume": do not branch on it twice
        for i in prefix.len()..log.len() {
            if !log[i] {
                let mut next = log[..i].to_vec();
                next.push(true);
                // only branch if splitting there actually splits (checked by running: vacuous ones
                // produce the same leaves; they are still enumerated, as rayon may try them)
                stack.push(next);
            }
        }
    }
    Ok((n, true))
}

pub struct SplitTrees {
    pub tier: Tier,
}
impl Config for SplitTrees {
    fn label(&self) -> String {
        "split-trees".into()
    }
    fn run(&self) -> ConfigReport {
        crate::crumbs::set_config(&self.label());
        let t0 = std::time::Instant::now();
        let q = self.tier == Tier::Quick;
        let pats = patterns(if q { 8 } else { 16 });
        let counters = Counters::default();
        let viol: Mutex<Option<(Value, String)>> = Mutex::new(None);
        let next = std::sync::atomic::AtomicUsize::new(0);
        let all_done = std::sync::atomic::AtomicBool::new(true);
        let per: Mutex<Vec<Value>> = Mutex::new(Vec::new());
        std::thread::scope(|sc| {
            for w in 0..explore::nthreads() {
                let (pats, counters, viol, next, all_done, per) = (&pats, &counters, &viol, &next, &all_done, &per);
                sc.spawn(move || {
                    env::WORKER.with(|c| c.set(w));
                    loop {
                        let i = next.fetch_add(1, Ordering::Relaxed);
                        if i >= pats.len() || viol.lock().unwrap().is_some() {
                            break;
                        }
                        let p = &pats[i];
                        let cap = if q { 3_000 } else { 2_000_000 };
                        match env::catch(|| explore_trees(p, counters, cap)) {
                            Ok(Ok((n, done))) => {
                                if !done {
                                    all_done.store(false, Ordering::Relaxed);
                                }
                                per.lock().unwrap().push(json!({"pattern": p.name, "elements": p.positions.len(), "split_trees": n, "all_trees": done}));
                            }
                            Ok(Err(m)) => {
                                *viol.lock().unwrap() = Some((json!({"pattern": p}), m));
                            }
                            Err(m) => {
                                *viol.lock().unwrap() = Some((json!({"pattern": p}), format!("unexpected panic: {m}")));
                            }
                        }
                    }
                    crate::crumbs::clear();
                });
            }
        });
        let mut rep = ConfigReport {
            label: self.label(),
            mode: "splits".into(),
            states: pats.len() as u64,
            transitions: counters.trees.load(Ordering::Relaxed),
            executions: counters.drain_runs.load(Ordering::Relaxed),
            probes: counters.leaves.load(Ordering::Relaxed),
            exhaustive: all_done.load(Ordering::Relaxed),
            cap: if all_done.load(Ordering::Relaxed) { None } else { Some("per-pattern tree cap".into()) },
            wall_s: t0.elapsed().as_secs_f64(),
            ..Default::default()
        };
        let mut per = per.into_inner().unwrap();
        per.sort_by_key(|v| v["pattern"].as_str().unwrap_or("").to_string());
        rep.detail = json!({"patterns": per, "split_trees_explored": rep.transitions, "leaves_checked": rep.probes,
            "drain_runs(tree x stop point x leaf order)": rep.executions, "distinct_nontrivial": rep.transitions,
            "max_groups": if q { 8 } else { 16 }});
        rep.samples.push(json!({"pattern": pats[pats.len() / 2], "decisions": [true, true, false, false, true]}));
        if let Some((rp, m)) = viol.into_inner().unwrap() {
            if m.starts_with("MACHINERY") {
                rep.machinery_error = Some(m);
            } else {
                // find the exact failing tree again for the replay file
                rep.violations.push(Viol { config: self.label(), message: m, replay: rp });
            }
        }
        rep
    }
    fn replay(&self, rp: &Value) -> Result<(), String> {
        let p: Pattern = serde_json::from_value(rp["pattern"].clone()).map_err(|e| format!("MACHINERY: bad replay: {e}"))?;
        let c = Counters::default();
        if let Some(d) = rp.get("decisions") {
            if !d.is_null() {
                let dec: Vec<bool> = serde_json::from_value(d.clone()).map_err(|e| format!("MACHINERY: bad replay: {e}"))?;
                return match env::catch(|| check_tree(&p, &dec, &c)) {
                    Ok(r) => r.map(|_| ()),
                    Err(m) => Err(format!("unexpected panic: {m}")),
                };
            }
        }
        match env::catch(|| explore_trees(&p, &c, 3000)) {
            Ok(r) => r.map(|_| ()),
            Err(m) => Err(format!("unexpected panic: {m}")),
        }
    }
}

/// Split trees over every visited state of a closed HashTable search.
struct SplitTreesOverStates {
    tier: Tier,
}
impl Config for SplitTreesOverStates {
    fn label(&self) -> String {
        "split-trees-over-visited-states".into()
    }
    fn run(&self) -> ConfigReport {
        crate::crumbs::set_config(&self.label());
        let q = self.tier == Tier::Quick;
        let mut c = TabCfg::new(Plan::Zero, if q { 6 } else { 9 });
        c.full_alphabet = false;
        c.max_len = if q { 7 } else { 10 };
        c.max_buckets = if super::width() == 16 { 64 } else { 32 };
        let h = TabHarness::new(c);
        let stats = Stats::default();
        let out = explore::bfs(&h, vec![vec![]], &Limits { max_wall_s: 30.0, ..Default::default() }, &stats);
        let mut rep = crate::report::outcome_report(&self.label(), "bfs+splits", &out, &stats);
        if out.violation.is_some() {
            return rep;
        }
        let trees = AtomicU64::new(0);
        let viol: Mutex<Option<(Value, String)>> = Mutex::new(None);
        let next = std::sync::atomic::AtomicUsize::new(0);
        std::thread::scope(|sc| {
            for w in 0..explore::nthreads() {
                let (out, h, trees, viol, next) = (&out, &h, &trees, &viol, &next);
                sc.spawn(move || {
                    env::WORKER.with(|c| c.set(w));
                    let st = Stats::default();
                    loop {
                        let i = next.fetch_add(1, Ordering::Relaxed);
                        if i >= out.states || viol.lock().unwrap().is_some() {
                            break;
                        }
                        let hist = out.history(i);
                        let r = env::catch(|| -> Result<(), String> {
                            let s = explore::replay(h, &hist, &st)?;
                            let full = full_buckets(&s.table);
                            let mut stack: Vec<Vec<bool>> = vec![vec![]];
                            while let Some(prefix) = stack.pop() {
                                let (leaves, log, _) = run_iter_tree(&s.table, &prefix);
                                trees.fetch_add(1, Ordering::Relaxed);
                                let mut all: Vec<usize> = leaves.iter().flatten().copied().collect();
                                all.sort_unstable();
                                let n0 = all.len();
                                all.dedup();
                                if all.len() != n0 || all != full {
                                    return Err(format!("split tree {:?}: leaves {:?} do not partition the FULL buckets {:?}", log, leaves, full));
                                }
                                for k in prefix.len()..log.len() {
                                    if !log[k] {
                                        let mut nx = log[..k].to_vec();
                                        nx.push(true);
                                        stack.push(nx);
                                    }
                                }
                            }
                            s.finish()
                        });
                        match r {
                            Ok(Ok(())) => {}
                            Ok(Err(m)) | Err(m) => {
                                *viol.lock().unwrap() = Some((json!({"history": hist}), m));
                            }
                        }
                    }
                });
            }
        });
        rep.probes = trees.load(Ordering::Relaxed);
        if let Value::Object(m) = &mut rep.detail {
            m.insert("split_trees_over_states".into(), json!(rep.probes));
        }
        if let Some((rp, m)) = viol.into_inner().unwrap() {
            rep.violations.push(Viol { config: self.label(), message: m, replay: rp });
        }
        rep
    }
    fn replay(&self, rp: &Value) -> Result<(), String> {
        let hist: Vec<TabOp> = serde_json::from_value(rp["history"].clone()).map_err(|e| format!("MACHINERY: bad replay: {e}"))?;
        let mut c = TabCfg::new(Plan::Zero, 9);
        c.full_alphabet = false;
        let h = TabHarness::new(c);
        let st = Stats::default();
        match env::catch(|| -> Result<(), String> {
            let s = explore::replay(&h, &hist, &st)?;
            let full = full_buckets(&s.table);
            let mut stack: Vec<Vec<bool>> = vec![vec![]];
            while let Some(prefix) = stack.pop() {
                let (leaves, log, _) = run_iter_tree(&s.table, &prefix);
                let mut all: Vec<usize> = leaves.iter().flatten().copied().collect();
                all.sort_unstable();
                let n0 = all.len();
                all.dedup();
                if all.len() != n0 || all != full {
                    return Err(format!("split tree {:?}: leaves {:?} do not partition the FULL buckets {:?}", log, leaves, full));
                }
                for k in prefix.len()..log.len() {
                    if !log[k] {
                        let mut nx = log[..k].to_vec();
                        nx.push(true);
                        stack.push(nx);
                    }
                }
            }
            s.finish()
        }) {
            Ok(r) => r,
            Err(m) => Err(m),
        }
    }
}

// ---------------------------------------------------------------------------
// (b) real pools: public API vs sequential counterparts (global registry)
// ---------------------------------------------------------------------------

const GMAX: usize = 1 << 22;
static GREG: [AtomicU8; GMAX] = [const { AtomicU8::new(0) }; GMAX];
static GNEXT: AtomicU32 = AtomicU32::new(0);
static GERR: AtomicU32 = AtomicU32::new(0);

fn g_reset() {
    for a in GREG.iter().take(GNEXT.load(Ordering::SeqCst) as usize + 1) {
        a.store(0, Ordering::SeqCst);
    }
    GNEXT.store(0, Ordering::SeqCst);
    GERR.store(0, Ordering::SeqCst);
}
fn g_live() -> usize {
    (0..GNEXT.load(Ordering::SeqCst) as usize).filter(|&i| GREG[i].load(Ordering::SeqCst) == 1).count()
}

/// Element with a process-global registry (dropped on pool threads).
#[derive(Debug)]
pub struct GEl {
    pub id: u16,
    serial: u32,
}
impl GEl {
    fn new(id: u16) -> Self {
        let s = GNEXT.fetch_add(1, Ordering::SeqCst);
        assert!((s as usize) < GMAX, "MACHINERY: global element registry exhausted");
        GREG[s as usize].store(1, Ordering::SeqCst);
        GEl { id, serial: s }
    }
}
impl Clone for GEl {
    fn clone(&self) -> Self {
        GEl::new(self.id)
    }
}
impl Drop for GEl {
    fn drop(&mut self) {
        if GREG[self.serial as usize].swap(2, Ordering::SeqCst) != 1 {
            GERR.fetch_add(1, Ordering::SeqCst);
        }
    }
}
impl PartialEq for GEl {
    fn eq(&self, o: &Self) -> bool {
        self.id == o.id
    }
}
impl Eq for GEl {}
impl Hash for GEl {
    fn hash<H: Hasher>(&self, h: &mut H) {
        h.write_u16(self.id)
    }
}
#[derive(Clone, Copy, Default)]
pub struct ModBuild(u8);
pub struct ModHasher(u8, u64);
impl BuildHasher for ModBuild {
    type Hasher = ModHasher;
    fn build_hasher(&self) -> ModHasher {
        ModHasher(self.0, 0)
    }
}
impl Hasher for ModHasher {
    fn write(&mut self, b: &[u8]) {
        for &x in b {
            self.1 = (self.1 << 8) | x as u64;
        }
    }
    fn write_u16(&mut self, v: u16) {
        self.1 = v as u64;
    }
    fn finish(&self) -> u64 {
        match self.0 {
            0 => 0,
            1 => self.1.wrapping_add(1).wrapping_mul(0x9E37_79B9_7F4A_7C15),
            _ => mk_hash(self.1, 0x11),
        }
    }
}

/// zero-sized element with drop glue and a process-wide ledger (drops may happen on pool threads)
static ZG_LIVE: std::sync::atomic::AtomicI64 = std::sync::atomic::AtomicI64::new(0);
#[derive(PartialEq, Eq, Hash)]
pub struct ZG(());
impl ZG {
    fn new() -> Self {
        ZG_LIVE.fetch_add(1, Ordering::SeqCst);
        ZG(())
    }
}
impl Drop for ZG {
    fn drop(&mut self) {
        ZG_LIVE.fetch_sub(1, Ordering::SeqCst);
    }
}

/// bytes currently held from `CountAlloc` (process-wide: blocks may be returned on another thread)
static COUNTED: std::sync::atomic::AtomicI64 = std::sync::atomic::AtomicI64::new(0);
static COUNT_CALLS: std::sync::atomic::AtomicI64 = std::sync::atomic::AtomicI64::new(0);
#[derive(Clone, Copy, Default)]
pub struct CountAlloc;
unsafe impl allocator_api2::alloc::Allocator for CountAlloc {
    fn allocate(&self, layout: std::alloc::Layout) -> Result<std::ptr::NonNull<[u8]>, allocator_api2::alloc::AllocError> {
        let p = allocator_api2::alloc::Global.allocate(layout)?;
        COUNTED.fetch_add(layout.size() as i64, Ordering::SeqCst);
        COUNT_CALLS.fetch_add(1, Ordering::SeqCst);
        Ok(p)
    }
    unsafe fn deallocate(&self, ptr: std::ptr::NonNull<u8>, layout: std::alloc::Layout) {
        COUNTED.fetch_sub(layout.size() as i64, Ordering::SeqCst);
        allocator_api2::alloc::Global.deallocate(ptr, layout)
    }
}

type GMap = HashMap<GEl, GEl, ModBuild>;
type GSet = HashSet<GEl, ModBuild>;

fn gmap(ids: &[u16], b: u8) -> GMap {
    let mut m = GMap::with_hasher(ModBuild(b));
    for &i in ids {
        m.insert(GEl::new(i), GEl::new(i + 1000));
    }
    m
}
fn gset(ids: &[u16], b: u8) -> GSet {
    let mut m = GSet::with_hasher(ModBuild(b));
    for &i in ids {
        m.insert(GEl::new(i));
    }
    m
}

fn sorted_u16(mut v: Vec<u16>) -> Vec<u16> {
    v.sort_unstable();
    v
}

fn pool_checks(threads: usize, ids: &[u16], other: &[u16], hb: u8) -> Result<u64, String> {
    let pool = rayon::ThreadPoolBuilder::new().num_threads(threads).build().map_err(|e| format!("MACHINERY: cannot build pool: {e}"))?;
    let want = sorted_u16(ids.to_vec());
    let mut n = 0u64;
    let ctx = |what: &str| format!("{what} on a pool of {threads} threads, {} elements, hasher {hb}", ids.len());
    g_reset();
    pool.install(|| -> Result<(), String> {
        // maps
        let mut m = gmap(ids, hb);
        let got = sorted_u16(m.par_iter().map(|(k, _)| k.id).collect());
        if got != want {
            return Err(format!("{}: delivered {:?}, stored {:?}", ctx("par_iter"), got, want));
        }
        let got = sorted_u16(m.par_keys().map(|k| k.id).collect());
        if got != want {
            return Err(format!("{}: delivered {:?}", ctx("par_keys"), got));
        }
        let got = sorted_u16(m.par_values().map(|v| v.id - 1000).collect());
        if got != want {
            return Err(format!("{}: delivered {:?}", ctx("par_values"), got));
        }
        m.par_values_mut().for_each(|v| v.id += 1);
        m.par_iter_mut().for_each(|(_, v)| v.id += 1);
        let got = sorted_u16(m.values().map(|v| v.id - 1002).collect());
        if got != want {
            return Err(format!("{}: each value must be visited exactly once by par_values_mut and par_iter_mut, got {:?}", ctx("par_values_mut/par_iter_mut"), got));
        }
        let m2 = gmap(ids, (hb + 1) % 3);
        let seq_eq = m.keys().all(|k| m2.contains_key(k)) && m.len() == m2.len();
        let mut m3 = gmap(ids, hb);
        m3.par_values_mut().for_each(|v| v.id += 2);
        if m.par_eq(&m3) != (m == m3) || !m.par_eq(&m3) {
            return Err(ctx("par_eq (equal maps)"));
        }
        let _ = seq_eq;
        // values only need PartialEq: with a non-reflexive value (NaN) even `m == m` is false, and
        // par_eq must agree with == for the same object, a clone and an independently built map
        {
            let build = |nan: bool| {
                let mut nm: HashMap<u16, f64, ModBuild> = HashMap::with_hasher(ModBuild(hb));
                for &i in ids {
                    nm.insert(i, if nan && i % 2 == 0 { f64::NAN } else { i as f64 });
                }
                nm
            };
            for nan in [false, true] {
                let nm = build(nan);
                let (c, other) = (nm.clone(), build(nan));
                for (y, which) in [(&nm, "itself"), (&c, "its clone"), (&other, "an identically built map")] {
                    if nm.par_eq(y) != (&nm == y) {
                        return Err(format!("{}: par_eq with {which} returned {}, == returns {} (values {} NaN)", ctx("par_eq"), nm.par_eq(y), &nm == y, if nan { "include" } else { "without" }));
                    }
                }
            }
        }
        if let Some(&first) = ids.first() {
            m3.remove(&GEl::new(first));
            if m.par_eq(&m3) {
                return Err(ctx("par_eq (different maps compare equal)"));
            }
            // same length, one key renamed (all common keys agree): still different, in both directions
            m3.insert(GEl::new(first + 20000), GEl::new(first + 1002));
            if m.par_eq(&m3) != (m == m3) || m3.par_eq(&m) != (m3 == m) || m.par_eq(&m3) {
                return Err(ctx("par_eq (equal-length maps with different key sets compare equal)"));
            }
            let s1 = gset(ids, hb);
            let mut s2 = gset(ids, hb);
            s2.remove(&GEl::new(first));
            s2.insert(GEl::new(first + 20000));
            if s1.par_eq(&s2) || s2.par_eq(&s1) || s1.par_is_subset(&s2) || s1.par_is_superset(&s2) {
                return Err(ctx("set par_eq / par_is_subset (equal-length sets with one element renamed)"));
            }
        }
        // par_extend / from_par_iter
        let mut e = gmap(&ids[..ids.len() / 2], hb);
        e.par_extend(other.par_iter().map(|&i| (GEl::new(i), GEl::new(i + 1000))));
        let mut se = gmap(&ids[..ids.len() / 2], hb);
        se.extend(other.iter().map(|&i| (GEl::new(i), GEl::new(i + 1000))));
        if e != se {
            return Err(ctx("par_extend differs from extend"));
        }
        let f: GMap = ids.par_iter().map(|&i| (GEl::new(i), GEl::new(i + 1000))).collect();
        if sorted_u16(f.keys().map(|k| k.id).collect()) != want {
            return Err(ctx("from_par_iter"));
        }
        // repeated keys with different payloads: parallel extend / collect must agree with the
        // sequential ones (last value wins for maps, first element is kept for sets)
        if ids.len() >= 3 {
            let dup: Vec<(u16, u16)> = ids.iter().map(|&i| (i % 7, i)).chain(ids.iter().rev().map(|&i| (i % 5, i + 1))).collect();
            let mut pe = GMap::with_hasher(ModBuild(hb));
            pe.par_extend(dup.par_iter().map(|&(k, v)| (GEl::new(k), GEl::new(v))));
            let mut se = GMap::with_hasher(ModBuild(hb));
            se.extend(dup.iter().map(|&(k, v)| (GEl::new(k), GEl::new(v))));
            let pf: GMap = dup.par_iter().map(|&(k, v)| (GEl::new(k), GEl::new(v))).collect();
            let sf: GMap = dup.iter().map(|&(k, v)| (GEl::new(k), GEl::new(v))).collect();
            let vals = |m: &GMap| {
                let mut v: Vec<(u16, u16)> = m.iter().map(|(k, v)| (k.id, v.id)).collect();
                v.sort_unstable();
                v
            };
            if vals(&pe) != vals(&se) {
                return Err(format!("{}: par_extend with repeated keys gives {:?}, sequential extend {:?}", ctx("par_extend"), vals(&pe), vals(&se)));
            }
            if vals(&pf) != vals(&sf) {
                return Err(format!("{}: from_par_iter with repeated keys gives {:?}, sequential collect {:?}", ctx("from_par_iter"), vals(&pf), vals(&sf)));
            }
            // sets: elements equal by id but distinguishable by serial; the first occurrence must be the one stored
            let keys: Vec<u16> = dup.iter().map(|d| d.0).collect();
            let owned: Vec<GEl> = keys.iter().map(|&k| GEl::new(k)).collect();
            let firsts: Vec<(u16, u32)> = {
                let mut seen = Vec::new();
                for e in &owned {
                    if !seen.iter().any(|x: &(u16, u32)| x.0 == e.id) {
                        seen.push((e.id, e.serial));
                    }
                }
                seen.sort_unstable();
                seen
            };
            let ps: GSet = owned.into_par_iter().collect();
            let mut got: Vec<(u16, u32)> = ps.iter().map(|e| (e.id, e.serial)).collect();
            got.sort_unstable();
            if got != firsts {
                return Err(format!("{}: from_par_iter into a set stored {:?}, sequential collect would keep the first occurrences {:?}", ctx("set from_par_iter"), got, firsts));
            }
        }
        // par_drain: everything delivered once, table empty and usable
        let cap = m.capacity();
        let got = sorted_u16(m.par_drain().map(|(k, _)| k.id).collect());
        if got != want || !m.is_empty() || m.capacity() != cap {
            return Err(format!("{}: delivered {:?}, len afterwards {}, capacity {} -> {}", ctx("par_drain"), got, m.len(), cap, m.capacity()));
        }
        m.insert(GEl::new(7), GEl::new(8));
        // owning parallel iterators give their memory block back whatever the consumer does: complete, short-circuit, panic
        // (a process-wide byte counter: the block may be returned on a pool thread)
        if ids.len() >= 2 {
            let victim = ids[ids.len() / 2];
            for mode in 0..3u8 {
                let before = COUNTED.load(Ordering::SeqCst);
                {
                    let mut cm: HashMap<GEl, GEl, ModBuild, CountAlloc> = HashMap::with_hasher_in(ModBuild(hb), CountAlloc);
                    let mut cs: HashSet<GEl, ModBuild, CountAlloc> = HashSet::with_hasher_in(ModBuild(hb), CountAlloc);
                    let mut ct: HashTable<GEl, CountAlloc> = HashTable::new_in(CountAlloc);
                    let hh = |e: &GEl| ModBuild(hb).hash_one(e);
                    for &i in ids {
                        cm.insert(GEl::new(i), GEl::new(i + 1000));
                        cs.insert(GEl::new(i));
                        let e = GEl::new(i);
                        let h = hh(&e);
                        ct.insert_unique(h, e, hh);
                    }
                    let r = std::panic::catch_unwind(std::panic::AssertUnwindSafe(|| match mode {
                        0 => {
                            cm.into_par_iter().for_each(|_| {});
                            cs.into_par_iter().for_each(|_| {});
                            ct.into_par_iter().for_each(|_| {});
                        }
                        1 => {
                            let _ = cm.into_par_iter().find_any(|(k, _)| k.id == victim);
                            let _ = cs.into_par_iter().find_any(|k| k.id == victim);
                            let _ = ct.into_par_iter().find_any(|k| k.id == victim);
                        }
                        _ => {
                            let r1 = std::panic::catch_unwind(std::panic::AssertUnwindSafe(|| cm.into_par_iter().for_each(|(k, _)| assert!(k.id != victim, "consumer panic"))));
                            let r2 = std::panic::catch_unwind(std::panic::AssertUnwindSafe(|| cs.into_par_iter().for_each(|k| assert!(k.id != victim, "consumer panic"))));
                            let r3 = std::panic::catch_unwind(std::panic::AssertUnwindSafe(|| ct.into_par_iter().for_each(|k| assert!(k.id != victim, "consumer panic"))));
                            assert!(r1.is_err() && r2.is_err() && r3.is_err(), "a consumer's panic was swallowed");
                        }
                    }));
                    if let Err(p) = r {
                        let m = p.downcast_ref::<String>().cloned().or_else(|| p.downcast_ref::<&str>().map(|s| s.to_string())).unwrap_or_default();
                        return Err(format!("{}: {m}", ctx("into_par_iter")));
                    }
                }
                let after = COUNTED.load(Ordering::SeqCst);
                if after != before {
                    return Err(format!("{}: {} bytes of table memory were not returned to the allocator (consumer mode {mode}: 0 complete, 1 short-circuit, 2 panic)", ctx("into_par_iter"), after - before));
                }
            }
        }
        // zero-sized elements with drop glue: whatever the consumer leaves behind is dropped exactly once
        if ids.len() >= 2 {
            for mode in 0..3u8 {
                let before = ZG_LIVE.load(Ordering::SeqCst);
                {
                    let mut zt: HashTable<ZG> = HashTable::new();
                    for (i, _) in ids.iter().enumerate() {
                        zt.insert_unique((i as u64).wrapping_mul(0x9E37_79B9_7F4A_7C15), ZG::new(), |_| unreachable!("enough capacity reserved"));
                        if i == 0 {
                            zt.reserve(ids.len(), |_| 0);
                        }
                    }
                    let mut zs: HashSet<ZG, ModBuild> = HashSet::with_hasher(ModBuild(hb));
                    zs.insert(ZG::new());
                    let seen = std::sync::atomic::AtomicUsize::new(0);
                    match mode {
                        0 => {
                            let _ = zt.par_drain().find_any(|_| seen.fetch_add(1, Ordering::SeqCst) == 1);
                            let _ = zs.par_drain().find_any(|_| true);
                        }
                        1 => {
                            let r = std::panic::catch_unwind(std::panic::AssertUnwindSafe(|| zt.par_drain().for_each(|_| assert!(seen.fetch_add(1, Ordering::SeqCst) != 1, "consumer panic"))));
                            if r.is_ok() {
                                return Err(ctx("par_drain of zero-sized elements: the consumer's panic was swallowed"));
                            }
                            zs.clear();
                        }
                        _ => {
                            let _ = zt.into_par_iter().find_any(|_| seen.fetch_add(1, Ordering::SeqCst) == 1);
                            let _ = zs.into_par_iter().find_any(|_| true);
                            zt = HashTable::new();
                            zs = HashSet::with_hasher(ModBuild(hb));
                        }
                    }
                    if !zt.is_empty() || !zs.is_empty() {
                        return Err(ctx("par_drain of zero-sized elements left elements behind"));
                    }
                }
                let after = ZG_LIVE.load(Ordering::SeqCst);
                if after != before {
                    return Err(format!("{}: {} zero-sized element(s) with drop glue were never dropped (consumer mode {mode}: 0 short-circuit, 1 panic, 2 owning iterator)", ctx("par_drain / into_par_iter"), after - before));
                }
            }
        }
        // parallel extension by keys that fit into the spare capacity performs no allocation of the table
        {
            let total = ids.len() + other.len();
            let mut cm: HashMap<u16, u16, ModBuild, CountAlloc> = HashMap::with_capacity_and_hasher_in(total, ModBuild(hb), CountAlloc);
            // (ParallelExtend for HashSet exists for the global allocator only: its capacity is the observable there)
            let mut cs: HashSet<u16, ModBuild> = HashSet::with_capacity_and_hasher(total, ModBuild(hb));
            for &i in ids {
                cm.insert(i, i);
                cs.insert(i);
            }
            let (cap_m, cap_s) = (cm.capacity(), cs.capacity());
            let calls = COUNT_CALLS.load(Ordering::SeqCst);
            cm.par_extend(other.par_iter().map(|&i| (i, i)));
            cs.par_extend(other.par_iter().copied());
            if COUNT_CALLS.load(Ordering::SeqCst) != calls || cm.capacity() != cap_m || cs.capacity() != cap_s {
                return Err(format!("{}: extending a map / set of {} elements and capacity {cap_m} / {cap_s} by {} keys re-allocated the table (capacity now {} / {})", ctx("par_extend"), ids.len(), other.len(), cm.capacity(), cs.capacity()));
            }
        }
        // short-circuiting consumer over par_drain: undelivered elements dropped exactly once
        let mut d = gmap(ids, hb);
        let _ = d.par_drain().find_any(|(k, _)| k.id == ids.get(ids.len() / 2).copied().unwrap_or(0));
        if !d.is_empty() {
            return Err(ctx("par_drain with a short-circuiting consumer left elements behind"));
        }
        // a consumer that panics part-way: the collection must still be empty and usable afterwards,
        // and every element dropped exactly once (checked by the registry at the end)
        if ids.len() >= 2 {
            let mut pm = gmap(ids, hb);
            let victim = ids[ids.len() / 2];
            let r = std::panic::catch_unwind(std::panic::AssertUnwindSafe(|| {
                pm.par_drain().for_each(|(k, _)| {
                    if k.id == victim {
                        panic!("consumer panic");
                    }
                });
            }));
            if r.is_ok() {
                return Err(ctx("par_drain: the consumer's panic was swallowed"));
            }
            if !pm.is_empty() || pm.iter().count() != 0 {
                return Err(format!("{}: after a panicking consumer the map still reports {} elements", ctx("par_drain"), pm.len()));
            }
            pm.insert(GEl::new(1), GEl::new(2));
            if pm.len() != 1 {
                return Err(ctx("par_drain: map unusable after a panicking consumer"));
            }
            let mut ps = gset(ids, hb);
            let r = std::panic::catch_unwind(std::panic::AssertUnwindSafe(|| {
                ps.par_drain().for_each(|k| {
                    if k.id == victim {
                        panic!("consumer panic");
                    }
                });
            }));
            if r.is_ok() || !ps.is_empty() {
                return Err(format!("{}: after a panicking consumer the set still reports {} elements", ctx("set par_drain"), ps.len()));
            }
            let r = std::panic::catch_unwind(std::panic::AssertUnwindSafe(|| {
                gmap(ids, hb).into_par_iter().for_each(|(k, _)| {
                    if k.id == victim {
                        panic!("consumer panic");
                    }
                });
            }));
            if r.is_ok() {
                return Err(ctx("into_par_iter: the consumer's panic was swallowed"));
            }
        }
        let got = sorted_u16(gmap(ids, hb).into_par_iter().map(|(k, _)| k.id).collect());
        if got != want {
            return Err(format!("{}: delivered {:?}", ctx("into_par_iter"), got));
        }
        let _ = gmap(ids, hb).into_par_iter().find_any(|(k, _)| Some(&k.id) == ids.first());
        // sets
        let a = gset(ids, hb);
        let b = gset(other, hb);
        let su = |it: Vec<u16>| sorted_u16(it);
        // both operand orders and a strictly smaller, overlapping right operand (the implementations pick the
        // set to walk by relative size)
        {
            let small = gset(&other[..other.len().min(3)], hb);
            let mut big_ids: Vec<u16> = ids.to_vec();
            big_ids.extend(other.iter().take(1).copied());
            let big = gset(&big_ids, hb);
            for (x, y, what) in [(&b, &a, "reversed operands"), (&big, &small, "smaller right operand"), (&small, &big, "smaller left operand")] {
                if su(x.par_union(y).map(|e| e.id).collect()) != su(x.union(y).map(|e| e.id).collect())
                    || su(x.par_intersection(y).map(|e| e.id).collect()) != su(x.intersection(y).map(|e| e.id).collect())
                    || su(x.par_difference(y).map(|e| e.id).collect()) != su(x.difference(y).map(|e| e.id).collect())
                    || su(x.par_symmetric_difference(y).map(|e| e.id).collect()) != su(x.symmetric_difference(y).map(|e| e.id).collect())
                    || x.par_is_subset(y) != x.is_subset(y)
                    || x.par_is_superset(y) != x.is_superset(y)
                    || x.par_is_disjoint(y) != x.is_disjoint(y)
                {
                    return Err(format!("{} ({what}: {} vs {} elements)", ctx("parallel set operation differs from its sequential counterpart"), x.len(), y.len()));
                }
            }
        }
        if su(a.par_union(&b).map(|x| x.id).collect()) != su(a.union(&b).map(|x| x.id).collect())
            || su(a.par_intersection(&b).map(|x| x.id).collect()) != su(a.intersection(&b).map(|x| x.id).collect())
            || su(a.par_difference(&b).map(|x| x.id).collect()) != su(a.difference(&b).map(|x| x.id).collect())
            || su(a.par_symmetric_difference(&b).map(|x| x.id).collect()) != su(a.symmetric_difference(&b).map(|x| x.id).collect())
        {
            return Err(ctx("parallel set operation differs from its sequential counterpart"));
        }
        if a.par_is_disjoint(&b) != a.is_disjoint(&b) || a.par_is_subset(&b) != a.is_subset(&b) || a.par_is_superset(&b) != a.is_superset(&b) || a.par_eq(&b) != (a == b) || !a.par_eq(&a) {
            return Err(ctx("parallel set predicate differs from its sequential counterpart"));
        }
        if su(a.par_iter().map(|x| x.id).collect()) != want {
            return Err(ctx("set par_iter"));
        }
        let mut ad = gset(ids, hb);
        if su(ad.par_drain().map(|x| x.id).collect()) != want || !ad.is_empty() {
            return Err(ctx("set par_drain"));
        }
        if su(gset(ids, hb).into_par_iter().map(|x| x.id).collect()) != want {
            return Err(ctx("set into_par_iter"));
        }
        let mut ps = gset(&ids[..ids.len() / 2], hb);
        ps.par_extend(other.par_iter().map(|&i| GEl::new(i)));
        let mut ss = gset(&ids[..ids.len() / 2], hb);
        ss.extend(other.iter().map(|&i| GEl::new(i)));
        if ps != ss {
            return Err(ctx("set par_extend differs from extend"));
        }
        let fs: GSet = ids.par_iter().map(|&i| GEl::new(i)).collect();
        if su(fs.iter().map(|x| x.id).collect()) != want {
            return Err(ctx("set from_par_iter"));
        }
        // tables
        let hh = |e: &GEl| ModBuild(hb).hash_one(e);
        let mut t: HashTable<GEl> = HashTable::new();
        for &i in ids {
            let e = GEl::new(i);
            let h = hh(&e);
            t.insert_unique(h, e, hh);
        }
        if su(t.par_iter().map(|x| x.id).collect()) != want {
            return Err(ctx("table par_iter"));
        }
        t.par_iter_mut().for_each(|e| e.id += 5000);
        if su(t.iter().map(|x| x.id - 5000).collect()) != want {
            return Err(ctx("table par_iter_mut must visit each element exactly once"));
        }
        if su(t.par_drain().map(|x| x.id - 5000).collect()) != want || !t.is_empty() {
            return Err(ctx("table par_drain"));
        }
        for &i in ids {
            let e = GEl::new(i);
            let h = hh(&e);
            t.insert_unique(h, e, hh);
        }
        if su(t.into_par_iter().map(|x| x.id).collect()) != want {
            return Err(ctx("table into_par_iter"));
        }
        // a parallel drain that is created and dropped without being driven empties the collection (its elements
        // are dropped exactly once - the ledger is balanced at the end) and leaves it usable
        {
            let mut m = gmap(ids, hb);
            drop(m.par_drain());
            let mut st = gset(ids, hb);
            drop(st.par_drain());
            let mut t: HashTable<GEl> = HashTable::new();
            for &i in ids {
                let e = GEl::new(i);
                let h = hh(&e);
                t.insert_unique(h, e, hh);
            }
            drop(t.par_drain());
            // ... also for element types without drop glue
            let mut pm: HashMap<u16, u16, ModBuild> = HashMap::with_hasher(ModBuild(hb));
            let mut pset: HashSet<u16, ModBuild> = HashSet::with_hasher(ModBuild(hb));
            let mut pt: HashTable<u16> = HashTable::new();
            let h16 = |e: &u16| ModBuild(hb).hash_one(e);
            for &i in ids {
                pm.insert(i, i);
                pset.insert(i);
                pt.insert_unique(h16(&i), i, h16);
            }
            drop(pm.par_drain());
            drop(pset.par_drain());
            drop(pt.par_drain());
            if !pm.is_empty() || !pset.is_empty() || !pt.is_empty() || pm.iter().count() + pset.iter().count() + pt.iter().count() != 0 {
                return Err(format!("{}: par_drain() of plain elements dropped without being driven left {} / {} / {} elements in the map / set / table", ctx("par_drain"), pm.len(), pset.len(), pt.len()));
            }
            pm.insert(1, 1);
            if pm.get(&1) != Some(&1) {
                return Err(ctx("map unusable after an undriven par_drain"));
            }
            if !m.is_empty() || !st.is_empty() || !t.is_empty() {
                return Err(format!("{}: par_drain() dropped without being driven left {} / {} / {} elements in the map / set / table", ctx("par_drain"), m.len(), st.len(), t.len()));
            }
            m.insert(GEl::new(1), GEl::new(1001));
            st.insert(GEl::new(1));
            if m.len() != 1 || st.len() != 1 {
                return Err(ctx("collections unusable after an undriven par_drain"));
            }
        }
        // parallel iteration by reference over tables, parallel extension from references (Copy elements)
        {
            let mut t: HashTable<u16> = HashTable::new();
            let h16 = |e: &u16| ModBuild(hb).hash_one(e);
            for &i in ids {
                t.insert_unique(h16(&i), i, h16);
            }
            if su((&t).into_par_iter().copied().collect()) != want {
                return Err(ctx("(&table).into_par_iter()"));
            }
            (&mut t).into_par_iter().for_each(|e| *e += 1);
            if su(t.iter().map(|e| e - 1).collect()) != want {
                return Err(ctx("(&mut table).into_par_iter() must visit each element exactly once"));
            }
            let mut ps: HashSet<u16, ModBuild> = HashSet::with_hasher(ModBuild(hb));
            ps.par_extend(ids.par_iter());
            ps.par_extend(other.par_iter());
            let mut ss: HashSet<u16, ModBuild> = HashSet::with_hasher(ModBuild(hb));
            ss.extend(ids.iter());
            ss.extend(other.iter());
            if ps != ss {
                return Err(ctx("set par_extend from references differs from extend"));
            }
            let pairs: Vec<(u16, u16)> = ids.iter().map(|&i| (i % 11, i)).collect();
            let mut pm: HashMap<u16, u16, ModBuild> = HashMap::with_hasher(ModBuild(hb));
            pm.par_extend(pairs.par_iter().map(|(k, v)| (k, v)));
            let mut sm: HashMap<u16, u16, ModBuild> = HashMap::with_hasher(ModBuild(hb));
            sm.extend(pairs.iter().map(|(k, v)| (k, v)));
            if pm != sm {
                return Err(ctx("map par_extend from (&K, &V) differs from extend (last value must win)"));
            }
        }
        Ok(())
    })?;
    n += 30;
    drop(pool);
    if GERR.load(Ordering::SeqCst) != 0 {
        return Err(format!("{}: an element was dropped twice", ctx("parallel operations")));
    }
    if g_live() != 0 {
        return Err(format!("{}: {} element(s) were never dropped", ctx("parallel operations"), g_live()));
    }
    Ok(n)
}

pub struct Pools {
    pub tier: Tier,
}
impl Config for Pools {
    fn label(&self) -> String {
        "real-pools-vs-sequential".into()
    }
    fn run(&self) -> ConfigReport {
        crate::crumbs::set_config(&self.label());
        let t0 = std::time::Instant::now();
        let q = self.tier == Tier::Quick;
        let mut rep = ConfigReport { label: self.label(), mode: "pool-conformance (schedules sampled, results compared exactly)".into(), ..Default::default() };
        let sizes: &[usize] = if q { &[0, 1, 6, 100, 700] } else { &[0, 1, 2, 6, 13, 14, 15, 28, 29, 100, 448, 449, 3000] };
        let threads: &[usize] = if q { &[1, 2, 4, 16] } else { &[1, 2, 3, 4, 8, 16, 64] };
        let mut runs = 0u64;
        'outer: for &n in sizes {
            let ids: Vec<u16> = (0..n as u16).map(|i| i * 3).collect();
            let other: Vec<u16> = (0..n as u16).map(|i| i * 2 + 1).collect();
            for &th in threads {
                for hb in 0..3u8 {
                    if hb == 0 && n > 120 {
                        continue; // all-colliding with many elements is quadratic; covered by smaller sizes
                    }
                    let reps = if q { 1 } else { 3 };
                    for _ in 0..reps {
                        crate::crumbs::set_replay(&json!({"pool": {"threads": th, "n": n, "hasher": hb}}).to_string());
                        match env::catch(|| pool_checks(th, &ids, &other, hb)) {
                            Ok(Ok(k)) => {
                                runs += 1;
                                rep.probes += k;
                            }
                            Ok(Err(m)) if m.starts_with("MACHINERY") => {
                                rep.machinery_error = Some(m);
                                break 'outer;
                            }
                            Ok(Err(m)) | Err(m) => {
                                rep.violations.push(Viol { config: self.label(), message: m, replay: json!({"pool": {"threads": th, "n": n, "hasher": hb}}) });
                                break 'outer;
                            }
                        }
                    }
                }
            }
        }
        crate::crumbs::clear();
        rep.executions = runs;
        rep.states = sizes.len() as u64;
        rep.exhaustive = false;
        rep.cap = Some("real rayon schedules are sampled, not enumerated (the exhaustive part is the split-tree exploration)".into());
        rep.wall_s = t0.elapsed().as_secs_f64();
        rep.detail = json!({"pool_sizes": threads, "collection_sizes": sizes, "runs": runs, "distinct_nontrivial": runs});
        rep.samples.push(json!({"pool": {"threads": 4, "n": 100, "hasher": 1}}));
        rep
    }
    fn replay(&self, rp: &Value) -> Result<(), String> {
        let th = rp["pool"]["threads"].as_u64().unwrap_or(4) as usize;
        let n = rp["pool"]["n"].as_u64().unwrap_or(100) as u16;
        let hb = rp["pool"]["hasher"].as_u64().unwrap_or(1) as u8;
        let ids: Vec<u16> = (0..n).map(|i| i * 3).collect();
        let other: Vec<u16> = (0..n).map(|i| i * 2 + 1).collect();
        for _ in 0..20 {
            match env::catch(|| pool_checks(th, &ids, &other, hb)) {
                Ok(r) => r.map(|_| ())?,
                Err(m) => return Err(m),
            }
        }
        Ok(())
    }
}

pub fn configs(tier: Tier) -> Vec<Box<dyn Config>> {
    vec![Box::new(SplitTrees { tier }), Box::new(SplitTreesOverStates { tier }), Box::new(Pools { tier })]
}
