//! C06: HashTable (explicit-hash API) equals a multiset keyed by caller-supplied hashes.

use crate::explore::Limits;
use crate::keys::*;
use crate::report::{BfsConfig, Config, Tier};
use crate::tablesut::*;

pub fn tab(plan: Plan, universe: u8, max_len: usize, probes: Vec<TProbe>, full: bool, tier: Tier, tag: &str) -> Box<dyn Config> {
    let mut c = TabCfg::new(plan, universe);
    c.max_len = max_len;
    c.max_buckets = if super::width() == 16 { 64 } else { 32 };
    c.probes = probes;
    c.full_alphabet = full;
    let label = format!("{}{}", c.label(), tag);
    let lim = Limits {
        max_wall_s: if tier == Tier::Quick { 40.0 } else { 900.0 },
        max_states: if tier == Tier::Quick { 400_000 } else { 6_000_000 },
        ..Default::default()
    };
    Box::new(BfsConfig::new(label, TabHarness::new(c), lim))
}

pub fn configs(tier: Tier) -> Vec<Box<dyn Config>> {
    let sse2 = super::width() == 16;
    let q = tier == Tier::Quick;
    let mut v = Vec::new();
    if sse2 {
        v.push(tab(Plan::Zero, if q { 6 } else { 9 }, if q { 9 } else { 12 }, vec![], true, tier, ""));
        v.push(tab(Plan::Seq, if q { 3 } else { 4 }, if q { 4 } else { 6 }, vec![], true, tier, ""));
        v.push(tab(Plan::Adv(0), 4, 5, vec![], true, tier, ""));
    } else {
        v.push(tab(Plan::Zero, if q { 6 } else { 8 }, if q { 9 } else { 11 }, vec![], true, tier, ""));
        v.push(tab(Plan::Cluster(2), if q { 4 } else { 6 }, if q { 5 } else { 8 }, vec![], true, tier, ""));
        v.push(tab(Plan::Adv(0), 4, 5, vec![], true, tier, ""));
    }
    v
}
