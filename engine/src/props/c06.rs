//! C06: HashTable (explicit-hash API) equals a multiset keyed by caller-supplied hashes.

use crate::explore::Limits;
use crate::keys::*;
use crate::report::{BfsConfig, Config, Tier};
use crate::tablesut::*;

pub fn tab(plan: Plan, universe: u8, max_len: usize, probes: Vec<TProbe>, full: bool, tier: Tier, tag: &str) -> Box<dyn Config> {
    let mut c = TabCfg::new(plan, universe);
    c.max_len = max_len;
    c.max_buckets = if super::width() == 16 { 64 } else { 32 };
    c.probes = probes;
    c.full_alphabet = full;
    let label = format!("{}{}", c.label(), tag);
    let lim = Limits {
        max_wall_s: if tier == Tier::Quick { 40.0 } else { 900.0 },
        max_states: if tier == Tier::Quick { 400_000 } else { 6_000_000 },
        ..Default::default()
    };
    Box::new(BfsConfig::new(label, TabHarness::new(c), lim))
}

/// Scripted deep tables (full probe windows, full load, tombstones) under a
/// plan, then a depth-bounded search.
fn seeded(plan: Plan, full: bool, depth: u32, tier: Tier) -> Box<dyn Config> {
    seeded_with(plan, full, depth, vec![], tier)
}
pub fn seeded_with(plan: Plan, full: bool, depth: u32, probes: Vec<TProbe>, tier: Tier) -> Box<dyn Config> {
    let w = super::width();
    let (gw, fill) = if w == 16 { (16u8, 28u8) } else { (8u8, 14u8) };
    let mut c = TabCfg::new(plan, fill + 2);
    c.max_len = fill as usize + 2;
    c.max_dup = 1;
    c.max_buckets = if w == 16 { 64 } else { 32 };
    c.full_alphabet = full;
    let tag = if probes.is_empty() { "" } else { "-probes" };
    c.probes = probes;
    let label = format!("{}-seeded-{}-d{}{}", c.label(), if full { "full" } else { "core" }, depth, tag);
    let lim = Limits { max_depth: Some(depth), max_wall_s: if tier == Tier::Quick { 30.0 } else { 600.0 }, ..Default::default() };
    let mut b = BfsConfig::new(label, TabHarness::new(c), lim);
    let ins = |n: u8| (0..n).map(TabOp::InsertUnique).collect::<Vec<_>>();
    let mut seeds = vec![ins(gw + 1), ins(fill)];
    let mut h = ins(gw + 1);
    h.extend((0..gw).map(TabOp::Remove));
    seeds.push(h);
    for removed in [1u8, gw / 2, fill / 2, fill - 8, fill - 1, fill] {
        let mut h = ins(fill);
        h.extend((0..removed).map(TabOp::Remove));
        seeds.push(h);
    }
    let mut h = ins(fill);
    h.extend((0..fill).filter(|i| i % 2 == 1).map(TabOp::Remove));
    seeds.push(h);
    // grown one size further, then thinned to about one group (shrinking decisions at the group-width boundary)
    for left in [gw + 1, gw, gw - 1] {
        let mut h = ins(fill + 2);
        h.extend((left..fill + 2).map(TabOp::Remove));
        seeds.push(h);
    }
    b.seeds = seeds;
    Box::new(b)
}

/// One home per id (ids 32 apart share a home in a 32-bucket table): a table exactly at its load limit in which
/// an element sits one bucket behind its home, the home itself EMPTY again, inside a run of a full group -
/// removing it leaves a tombstone, and the vacant entry handed back must denote that very bucket.
fn displaced_behind_empty_home(tier: Tier) -> Box<dyn Config> {
    let mut c = TabCfg::new(Plan::Seq, 40);
    c.max_len = 30;
    c.max_dup = 1;
    c.max_buckets = 64;
    c.full_alphabet = true;
    let label = format!("{}-displaced-behind-empty-home-d1", c.label());
    let lim = Limits { max_depth: Some(1), max_wall_s: if tier == Tier::Quick { 30.0 } else { 300.0 }, ..Default::default() };
    let mut b = BfsConfig::new(label, TabHarness::new(c), lim);
    let mut seeds = Vec::new();
    for fill_to in [28u8, 27] {
        // grow to 32 buckets first (a resize would put the displaced element back at its home)
        // (15 elements far from bucket 0 bring the table to 32 buckets; the neighbourhood of bucket 0 is still sparse
        // when the home is vacated, so it becomes EMPTY, not a tombstone)
        let mut h: Vec<TabOp> = (14..=28).map(TabOp::InsertUnique).collect();
        h.extend([TabOp::InsertUnique(0), TabOp::InsertUnique(32), TabOp::Remove(0)]);
        h.extend((2..=fill_to - 15).map(TabOp::InsertUnique));
        seeds.push(h);
    }
    b.seeds = seeds;
    Box::new(b)
}

pub fn configs(tier: Tier) -> Vec<Box<dyn Config>> {
    let sse2 = super::width() == 16;
    let q = tier == Tier::Quick;
    let mut v = Vec::new();
    v.push(Box::new(super::widebattery::WideBattery { tier, part: super::widebattery::Part::Table }) as Box<dyn Config>);
    if sse2 {
        v.push(tab(Plan::Zero, if q { 6 } else { 8 }, if q { 9 } else { 11 }, vec![], true, tier, ""));
        v.push(tab(Plan::Seq, if q { 3 } else { 4 }, if q { 4 } else { 6 }, vec![], true, tier, ""));
        v.push(tab(Plan::Adv(0), 4, 5, vec![], true, tier, ""));
    } else {
        v.push(tab(Plan::Zero, if q { 6 } else { 8 }, if q { 9 } else { 11 }, vec![], true, tier, ""));
        v.push(tab(Plan::Cluster(2), if q { 4 } else { 6 }, if q { 5 } else { 8 }, vec![], true, tier, ""));
        v.push(tab(Plan::Adv(0), 4, 5, vec![], true, tier, ""));
    }
    v.push(Box::new(super::c02::ZstTables { tier }));
    // a panic in the caller's hasher / equality / entry closures leaves a valid table (details: C04)
    v.push(super::c04::mk_table(Plan::Zero, if q { 4 } else { 6 }, if q { 5 } else { 8 }, vec![vec![]], None, tier, ""));
    v.push(Box::new(super::rehash::RehashGrammar { tier }));
    v.push(displaced_behind_empty_home(tier));
    for plan in [Plan::Zero, Plan::Tail, Plan::Max] {
        v.push(seeded(plan, true, 1, tier));
        v.push(seeded(plan, false, if q { 2 } else { 3 }, tier));
    }
    v
}
