//! C17: capacity and layout arithmetic is total and overflow-free; the probe
//! sequence visits every group exactly once. Exhaustive input enumeration of
//! the real functions (through the hook wrappers) for this build's group width.

use crate::explore::nthreads;
use crate::report::{Config, ConfigReport, Tier, Viol};
use hashbrown::verif as hv;
use serde_json::{json, Value};
use std::sync::atomic::{AtomicU64, Ordering};
use std::sync::Mutex;

const SIZES: [usize; 7] = [0, 1, 2, 3, 4, 24, 200];

fn check_cap(cap: usize, size: usize) -> Result<(), String> {
    let w = hv::GROUP_WIDTH;
    match hv::capacity_to_buckets(cap, size, w) {
        Some(b) => {
            if !b.is_power_of_two() {
                return Err(format!("capacity_to_buckets({cap}, size {size}) = {b}, not a power of two"));
            }
            let c = hv::bucket_mask_to_capacity(b - 1);
            if c < cap {
                return Err(format!("capacity_to_buckets({cap}, size {size}) = {b} buckets, whose usable capacity {c} is below the request"));
            }
            if c >= b {
                return Err(format!("{b} buckets have usable capacity {c}: no slot stays empty"));
            }
        }
        None => {
            if cap <= usize::MAX / 8 {
                return Err(format!("capacity_to_buckets({cap}, size {size}) reports overflow although {cap} * 8 fits in usize"));
            }
        }
    }
    Ok(())
}

fn check_layout(size: usize, align: usize, k: u32) -> Result<(), String> {
    // the call below can abort the process (std's unsafe-precondition check on an invalid
    // layout): leave a breadcrumb so that the supervisor can re-execute exactly this input
    crate::crumbs::set_replay_unwatched(&format!("{{\"layout\":[{size},{align},{k}]}}"));
    let w = hv::GROUP_WIDTH;
    let ca = align.max(w);
    let buckets = 1usize << k;
    let data = size as u128 * buckets as u128;
    let off_true = (data + ca as u128 - 1) / ca as u128 * ca as u128;
    let total_true = off_true + buckets as u128 + w as u128;
    let fits = total_true + (ca as u128 - 1) <= isize::MAX as u128;
    match hv::calculate_layout_for(size, ca, buckets) {
        Some((sz, al, off)) => {
            if !fits {
                return Err(format!("calculate_layout_for(size {size}, align {align}, 2^{k} buckets) = {sz} bytes although the true size {total_true} (+ padding) exceeds isize::MAX"));
            }
            if !al.is_power_of_two() || al < align || al < w {
                return Err(format!("layout alignment {al} insufficient for element alignment {align} / group width {w}"));
            }
            if (off as u128) < data || off % ca != 0 {
                return Err(format!("ctrl_offset {off} for size {size} x 2^{k}: below the data size {data} or not aligned to {ca}"));
            }
            if sz as u128 != off as u128 + buckets as u128 + w as u128 {
                return Err(format!("layout size {sz} != ctrl_offset {off} + buckets {buckets} + width {w} (room for all control bytes incl. mirror)"));
            }
            if sz as u128 != total_true {
                return Err(format!("layout size {sz} differs from the true size {total_true} (wrapped?)"));
            }
        }
        None => {
            if fits {
                return Err(format!("calculate_layout_for(size {size}, align {align}, 2^{k} buckets) reports overflow although the true size {total_true} fits"));
            }
        }
    }
    Ok(())
}

/// One full probe cycle from `start`: positions pairwise distinct, all groups covered.
fn check_probe(k: u32, start: usize, seen: &mut Vec<u64>) -> Result<u64, String> {
    let w = hv::GROUP_WIDTH;
    let buckets = 1usize << k;
    let mask = buckets - 1;
    let groups = (buckets / w).max(1);
    for x in seen.iter_mut() {
        *x = 0;
    }
    let (mut pos, mut stride) = (start & mask, 0usize);
    for step in 0..groups {
        if buckets >= w && (pos % w) != (start % w) {
            return Err(format!("probe 2^{k} from {start}: step {step} at {pos} left the start's residue class mod {w}"));
        }
        let g = if buckets >= w { pos / w + (pos % w != 0) as usize * 0 } else { 0 };
        let g = if buckets >= w { ((pos + buckets - (start % w)) & mask) / w } else { g };
        if seen[g / 64] >> (g % 64) & 1 == 1 {
            return Err(format!("probe sequence of a 2^{k}-bucket table from {start} revisits group {g} at step {step} before covering all {groups} groups"));
        }
        seen[g / 64] |= 1 << (g % 64);
        if step + 1 < groups {
            let (p, s) = hv::probe_step(pos, stride, mask);
            if p > mask {
                return Err(format!("probe position {p} out of range for mask {mask}"));
            }
            pos = p;
            stride = s;
        }
    }
    Ok(groups as u64)
}

struct Arith {
    tier: Tier,
}

fn par_ranges(total: u64, f: &(dyn Fn(u64, u64) -> Result<u64, String> + Sync)) -> Result<u64, String> {
    let n = nthreads() as u64;
    let chunk = (total + n - 1) / n;
    let done = AtomicU64::new(0);
    // deterministic: the error of the lowest range wins
    let err: Mutex<Option<(u64, String)>> = Mutex::new(None);
    std::thread::scope(|sc| {
        for t in 0..n {
            let (done, err) = (&done, &err);
            sc.spawn(move || {
                let lo = t * chunk;
                let hi = ((t + 1) * chunk).min(total);
                if lo >= hi {
                    return;
                }
                match f(lo, hi) {
                    Ok(c) => {
                        done.fetch_add(c, Ordering::Relaxed);
                    }
                    Err(m) => {
                        let mut e = err.lock().unwrap();
                        if e.as_ref().map_or(true, |x| t < x.0) {
                            *e = Some((t, m));
                        }
                    }
                }
            });
        }
    });
    match err.into_inner().unwrap() {
        Some((_, m)) => Err(m),
        None => Ok(done.load(Ordering::Relaxed)),
    }
}

impl Arith {
    fn run_all(&self) -> Result<Value, String> {
        let q = self.tier == Tier::Quick;
        let w = hv::GROUP_WIDTH;
        let mut detail = serde_json::Map::new();
        // 0. TableLayout::new for element types of every size / alignment class: the element size is the type's
        //    size, the control bytes are aligned to max(element alignment, group width) - aligned group loads
        //    and the allocator's layout depend on exactly that
        {
            #[repr(align(32))]
            #[allow(dead_code)]
            struct A32x(u8);
            #[repr(align(64))]
            #[allow(dead_code)]
            struct A64x([u8; 65]);
            #[repr(align(4096))]
            #[allow(dead_code)]
            struct Page(u8);
            let mut n = 0u64;
            macro_rules! lay {
                ($($t:ty),*) => {$(
                    let (size, ca) = hv::table_layout_of::<$t>();
                    let (ws, wa) = (std::mem::size_of::<$t>(), std::mem::align_of::<$t>().max(w));
                    if (size, ca) != (ws, wa) {
                        return Err(format!("TableLayout::new::<{}>() = (size {size}, ctrl_align {ca}), expected (size {ws}, ctrl_align {wa} = max(align_of, group width))", stringify!($t)));
                    }
                    n += 1;
                )*};
            }
            lay!((), u8, u16, [u8; 3], u32, [u8; 5], [u16; 3], u64, [u8; 15], [u8; 16], [u8; 17], [u16; 9], [u32; 5], (u64, [u64; 2]), [u64; 3], u128, [u128; 2],
                 (u8, u128), [u8; 200], [u64; 25], A32x, A64x, Page, [A32x; 3], (A64x, u8), [u16; 0], [u128; 0], [A32x; 0]);
            detail.insert("table_layouts_checked".into(), json!(n));
        }
        // 1. capacity_to_buckets, exhaustive low range
        let top: u64 = if q { 1 << 24 } else { 1 << 32 };
        let mut evals = 0u64;
        for &size in &[0usize, 2, 4] {
            // the function distinguishes size classes 0-1, 2-3, >= 4
            evals += par_ranges(top, &|lo, hi| {
                for cap in lo.max(1)..hi {
                    check_cap(cap as usize, size)?;
                }
                Ok(hi - lo)
            })?;
        }
        detail.insert("capacity_to_buckets_exhaustive_up_to".into(), json!(top));
        // boundaries up to usize::MAX
        let mut nb = 0u64;
        for k in 0..64u32 {
            let p = 1u128 << k;
            for centre in [p, p / 8 * 7, p / 7 * 8] {
                let lo = centre.saturating_sub(1 << 12).max(1);
                let hi = (centre + (1 << 12)).min(usize::MAX as u128);
                for &size in &SIZES {
                    let mut c = lo;
                    while c <= hi {
                        check_cap(c as usize, size)?;
                        nb += 1;
                        c += 1;
                    }
                }
            }
        }
        for c in [usize::MAX, usize::MAX - 1, usize::MAX / 8, usize::MAX / 8 + 1, usize::MAX / 7, isize::MAX as usize, isize::MAX as usize + 1] {
            for &size in &SIZES {
                check_cap(c, size)?;
                nb += 1;
            }
        }
        detail.insert("capacity_to_buckets_boundary_evaluations".into(), json!(nb));
        evals += nb;
        // 2. bucket_mask_to_capacity
        let mut prev = 0usize;
        for k in 0..64u32 {
            let b = 1usize << k;
            let c = hv::bucket_mask_to_capacity(b - 1);
            if c >= b && b > 1 {
                return Err(format!("bucket_mask_to_capacity({}) = {c}: no empty slot in {b} buckets", b - 1));
            }
            if c < prev {
                return Err(format!("bucket_mask_to_capacity not monotone at 2^{k}"));
            }
            if b >= 8 && c < b / 8 * 7 {
                return Err(format!("bucket_mask_to_capacity({}) = {c} below 7/8 load", b - 1));
            }
            prev = c;
            evals += 1;
        }
        // 3. calculate_layout_for
        let mut sizes: Vec<usize> = (0..=64).collect();
        sizes.extend([200, 4096, 1 << 20, isize::MAX as usize / 2 - 1, isize::MAX as usize / 2, isize::MAX as usize / 2 + 1]);
        let mut nl = 0u64;
        for &size in &sizes {
            for a in 0..=12u32 {
                let align = 1usize << a;
                if size % align != 0 {
                    continue; // no Rust type has such a layout
                }
                for k in 0..64u32 {
                    check_layout(size, align, k)?;
                    nl += 1;
                }
            }
        }
        // sizes around the isize::MAX boundary for every bucket count and alignment: the padding
        // guard (`isize::MAX - (align - 1)`) only matters within `align` bytes of the limit
        let mut nbnd = 0u64;
        for k in 0..63u32 {
            let buckets = 1u128 << k;
            for a in 0..=12u32 {
                let align = 1u128 << a;
                let ca = align.max(w as u128);
                let room = isize::MAX as u128 + 1;
                if buckets + w as u128 + ca > room {
                    continue;
                }
                let centre = (room - buckets - w as u128) / buckets;
                for d in -4i128..=4 {
                    for extra in [0i128, -(ca as i128), ca as i128] {
                        let cand = centre as i128 + d * align as i128 + extra / buckets as i128;
                        if cand < 0 {
                            continue;
                        }
                        let size = (cand as u128 / align * align) as usize;
                        check_layout(size, align as usize, k)?;
                        nbnd += 1;
                    }
                }
            }
        }
        detail.insert("calculate_layout_for_isize_boundary_evaluations".into(), json!(nbnd));
        nl += nbnd;
        detail.insert("calculate_layout_for_evaluations".into(), json!(nl));
        evals += nl;
        // 4. probe machine
        let all_starts_up_to: u32 = if q { 12 } else { 16 };
        let max_k: u32 = if q { 22 } else { 26 };
        let mut steps = 0u64;
        for k in 0..=max_k {
            let buckets = 1u64 << k;
            let groups = ((buckets as usize) / w).max(1);
            if k <= all_starts_up_to {
                steps += par_ranges(buckets, &|lo, hi| {
                    let mut seen = vec![0u64; groups / 64 + 1];
                    let mut s = 0;
                    for start in lo..hi {
                        s += check_probe(k, start as usize, &mut seen)?;
                    }
                    Ok(s)
                })?;
            } else {
                let m = buckets as usize - 1;
                let mut seen = vec![0u64; groups / 64 + 1];
                for start in [0, 1, w - 1, w, w + 1, m - w, m - 1, m] {
                    steps += check_probe(k, start, &mut seen)?;
                }
            }
        }
        // translation equivariance of move_next (justifies the reduced start set above)
        let eq_k: u32 = if q { 10 } else { 13 };
        let mut neq = 0u64;
        for k in 0..=eq_k {
            let buckets = 1usize << k;
            let mask = buckets - 1;
            let groups = (buckets / w).max(1);
            for pos in 0..buckets {
                for g in 0..groups.saturating_sub(1) {
                    let stride = g * w;
                    if stride > mask {
                        break;
                    }
                    let (p0, s0) = hv::probe_step(0, stride, mask);
                    let (p1, s1) = hv::probe_step(pos, stride, mask);
                    if s0 != s1 || p1 != (p0 + pos) & mask {
                        return Err(format!("move_next is not translation equivariant at 2^{k} buckets, pos {pos}, stride {stride}"));
                    }
                    neq += 1;
                }
            }
        }
        detail.insert("probe_steps".into(), json!(steps));
        detail.insert("probe_all_start_positions_up_to_2pow".into(), json!(all_starts_up_to));
        detail.insert("probe_table_sizes_up_to_2pow".into(), json!(max_k));
        detail.insert("probe_equivariance_evaluations".into(), json!(neq));
        evals += steps + neq;
        detail.insert("evaluations".into(), json!(evals));
        detail.insert("group_width".into(), json!(w));
        Ok(Value::Object(detail))
    }
}

impl Config for Arith {
    fn label(&self) -> String {
        "arithmetic".into()
    }
    fn run(&self) -> ConfigReport {
        let t0 = std::time::Instant::now();
        crate::crumbs::set_config(&self.label());
        crate::crumbs::set_replay_unwatched("{\"arithmetic\":true}");
        let mut rep = ConfigReport { label: self.label(), mode: "enum".into(), exhaustive: true, ..Default::default() };
        match crate::env::catch(|| self.run_all()) {
            Ok(Ok(d)) => {
                rep.executions = d["evaluations"].as_u64().unwrap_or(0);
                rep.states = 1;
                let mut d = d;
                d["distinct_nontrivial"] = json!(rep.executions);
                rep.detail = d;
                rep.samples = vec![
                    json!({"capacity_to_buckets": {"cap": 28, "size": 4, "result": hv::capacity_to_buckets(28, 4, hv::GROUP_WIDTH)}}),
                    json!({"calculate_layout_for": {"size": 24, "align": 8, "buckets": 32, "result": hv::calculate_layout_for(24, hv::GROUP_WIDTH.max(8), 32)}}),
                    json!({"probe_step": {"pos": 0, "stride": 0, "mask": 63, "result": hv::probe_step(0, 0, 63)}}),
                ];
            }
            Ok(Err(m)) => rep.violations.push(Viol { config: self.label(), message: m, replay: json!({"arithmetic": true}) }),
            Err(m) => rep.violations.push(Viol { config: self.label(), message: format!("panic (debug assertion or overflow check) in the arithmetic: {m}"), replay: json!({"arithmetic": true}) }),
        }
        rep.wall_s = t0.elapsed().as_secs_f64();
        rep
    }
    fn replay(&self, rp: &Value) -> Result<(), String> {
        if let Some(l) = rp.get("layout").and_then(|l| l.as_array()) {
            let g = |i: usize| l[i].as_u64().unwrap_or(0);
            return match crate::env::catch(|| check_layout(g(0) as usize, g(1) as usize, g(2) as u32)) {
                Ok(r) => r,
                Err(m) => Err(m),
            };
        }
        match crate::env::catch(|| Arith { tier: Tier::Quick }.run_all()) {
            Ok(r) => r.map(|_| ()),
            Err(m) => Err(m),
        }
    }
}

pub fn configs(tier: Tier) -> Vec<Box<dyn Config>> {
    use crate::keys::Plan;
    use crate::laysut::{Coll, Z16, A64, S3};
    let q = tier == Tier::Quick;
    vec![
        Box::new(Arith { tier }),
        // where the arithmetic is used: the smallest tables (4 / 8 / 16 buckets, capacity 3 / 7 / 14) through every
        // operation with the free-slot accounting checked in every state, and the layouts actually requested from
        // the allocator for zero-sized over-aligned, over-aligned and odd-sized elements
        super::c01::closed(Plan::Zero, if q { 5 } else { 9 }, tier),
        super::c02::lay::<Z16>(Coll::Table, Plan::Max, 1, tier),
        super::c02::lay::<A64>(Coll::Set, Plan::Zero, if q { 3 } else { 5 }, tier),
        super::c02::lay::<S3>(Coll::Map, Plan::Seq, if q { 3 } else { 5 }, tier),
    ]
}
