//! C16 (Send/Sync half): exhaustive truth tables. Whether a public type is
//! Send / Sync is a boolean function of its parameters' Send / Sync; four
//! witness types per parameter give all instantiations, evaluated by a
//! const-dispatch probe that compiles on correct and mutated trees alike.
//! Oracle (soundness direction only): a handle may be Send only if the
//! contents it gives access to allow it (shared access: Sync contents;
//! mutable / owning access: Send contents) and Sync only if they are Sync.

#![allow(dead_code)]

use crate::report::{Config, ConfigReport, Tier, Viol};
use allocator_api2::alloc::{AllocError, Allocator, Global, Layout};
use serde_json::{json, Value};
use std::cell::Cell;
use std::marker::PhantomData;
use std::ptr::NonNull;

// --- witnesses ---------------------------------------------------------------
pub struct SS;
pub struct SO(Cell<u8>);
pub struct YO(PhantomData<*const u8>);
unsafe impl Sync for YO {}
pub struct NN(*const u8);

macro_rules! alloc_witness {
    ($n:ident, $inner:ty) => {
        pub struct $n($inner);
        unsafe impl Allocator for $n {
            fn allocate(&self, l: Layout) -> Result<NonNull<[u8]>, AllocError> {
                Global.allocate(l)
            }
            unsafe fn deallocate(&self, p: NonNull<u8>, l: Layout) {
                Global.deallocate(p, l)
            }
        }
    };
}
alloc_witness!(ASS, SS);
alloc_witness!(ASO, SO);
alloc_witness!(AYO, YO);
alloc_witness!(ANN, NN);

// --- probe ---------------------------------------------------------------------
pub struct P<T: ?Sized>(PhantomData<T>);
pub trait Fallback {
    const IS_SEND: bool = false;
    const IS_SYNC: bool = false;
}
impl<T: ?Sized> Fallback for P<T> {}
// inherent associated consts shadow the trait's when the bound holds
pub trait FallbackSync {
    const IS_SYNC: bool = false;
}
impl<T: ?Sized + Send> P<T> {
    pub const IS_SEND: bool = true;
}
impl<T: ?Sized + Sync> P<T> {
    pub const IS_SYNC: bool = true;
}

#[derive(Clone, Copy, Debug, PartialEq, Eq)]
pub enum Kind {
    Shared,
    Mutable,
    Owning,
}
pub struct Row {
    pub name: &'static str,
    pub kind: Kind,
    pub acc: &'static str,
    /// witness index per parameter K, V, S, A (255 = parameter not used)
    pub w: [u8; 4],
    pub send: bool,
    pub sync: bool,
}

include!("c16_table.rs");

const W_SEND: [bool; 4] = [true, true, false, false];
const W_SYNC: [bool; 4] = [true, false, true, false];
const WNAME: [&str; 4] = ["Send+Sync", "Send only", "Sync only", "neither"];

fn check_rows() -> Result<Value, String> {
    // sanity of the probe itself
    if !(<P<SS>>::IS_SEND && <P<SS>>::IS_SYNC && <P<SO>>::IS_SEND && !<P<SO>>::IS_SYNC && !<P<YO>>::IS_SEND && <P<YO>>::IS_SYNC && !<P<NN>>::IS_SEND && !<P<NN>>::IS_SYNC) {
        return Err("MACHINERY: the Send/Sync probe gives wrong answers on the witness types".into());
    }
    let mut send_true = 0u64;
    let mut sync_true = 0u64;
    let mut types = std::collections::BTreeSet::new();
    for r in ROWS {
        types.insert(r.name);
        let mut all_send = true;
        let mut all_sync = true;
        // upper-case letter: mutable / owning access to that parameter (Send needs Send);
        // lower-case: shared access only (Send needs Sync)
        for (i, p) in "KVSA".chars().enumerate() {
            if r.w[i] == 255 {
                continue;
            }
            let either = format!("{}*", p.to_ascii_lowercase());
            if r.acc.contains(&either) {
                // shared reference derived from an exclusive borrow: Send or Sync contents both make sending sound
                all_send &= W_SEND[r.w[i] as usize] || W_SYNC[r.w[i] as usize];
                all_sync &= W_SYNC[r.w[i] as usize];
            } else if r.acc.contains(p) {
                all_send &= W_SEND[r.w[i] as usize];
                all_sync &= W_SYNC[r.w[i] as usize];
            } else if r.acc.contains(p.to_ascii_lowercase()) {
                all_send &= W_SYNC[r.w[i] as usize];
                all_sync &= W_SYNC[r.w[i] as usize];
            }
        }
        let inst = || {
            "KVSA"
                .chars()
                .enumerate()
                .filter(|(i, _)| r.w[*i] != 255)
                .map(|(i, p)| format!("{p} = {}", WNAME[r.w[i] as usize]))
                .collect::<Vec<_>>()
                .join(", ")
        };
        let send_ok = match r.kind {
            Kind::Shared => all_sync,
            Kind::Mutable | Kind::Owning => all_send,
        };
        if r.send && !send_ok {
            return Err(format!(
                "{} is Send for the instantiation [{}] although the contents it gives {} access to ({}) do not allow it",
                r.name,
                inst(),
                match r.kind {
                    Kind::Shared => "shared",
                    Kind::Mutable => "mutable",
                    Kind::Owning => "owning",
                },
                r.acc
            ));
        }
        if r.sync && !all_sync {
            return Err(format!("{} is Sync for the instantiation [{}] although the contents it gives access to ({}) are not all Sync", r.name, inst(), r.acc));
        }
        send_true += r.send as u64;
        sync_true += r.sync as u64;
    }
    // types that are not Send even for Send+Sync parameters say nothing; list them
    let mut never_send: Vec<&str> = Vec::new();
    for r in ROWS {
        if r.w.iter().all(|&x| x == 0 || x == 255) && !r.send {
            never_send.push(r.name);
        }
    }
    if never_send.len() * 4 > types.len() {
        return Err(format!("MACHINERY: {} of {} types are never Send; the probe is probably broken", never_send.len(), types.len()));
    }
    Ok(json!({"types": types.len(), "instantiations": ROWS.len(), "entries": 2 * ROWS.len(), "send_true": send_true, "sync_true": sync_true, "never_send_types": never_send,
              "distinct_nontrivial": ROWS.len()}))
}

struct Tables;
impl Config for Tables {
    fn label(&self) -> String {
        "send-sync-truth-tables".into()
    }
    fn run(&self) -> ConfigReport {
        let t0 = std::time::Instant::now();
        let mut rep = ConfigReport { label: self.label(), mode: "enum".into(), exhaustive: true, ..Default::default() };
        match check_rows() {
            Ok(d) => {
                rep.executions = 2 * ROWS.len() as u64;
                rep.states = 1;
                rep.detail = d;
                for r in ROWS.iter().filter(|r| r.name == "hash_map::IterMut").take(4) {
                    rep.samples.push(json!({"type": r.name, "witness_indices_KVSA": r.w, "send": r.send, "sync": r.sync}));
                }
            }
            Err(m) if m.starts_with("MACHINERY") => rep.machinery_error = Some(m),
            Err(m) => rep.violations.push(Viol { config: self.label(), message: m, replay: json!({"tables": true}) }),
        }
        rep.wall_s = t0.elapsed().as_secs_f64();
        rep
    }
    fn replay(&self, _rp: &Value) -> Result<(), String> {
        check_rows().map(|_| ())
    }
}

pub fn configs(_tier: Tier) -> Vec<Box<dyn Config>> {
    vec![Box::new(Tables)]
}
