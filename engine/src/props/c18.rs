//! C18: behaviour is identical for the SIMD and the portable group scanner.
//! (a) exhaustive enumeration of the scanner primitives of THIS build against
//! byte-by-byte definitions; (b) cross-build conformance: every history
//! expanded by the other build's exploration is replayed on this build.

use crate::explore::{self, Harness, Limits, Stats};
use crate::keys::*;
use crate::mapsut::*;
use crate::report::{outcome_report, Config, ConfigReport, Tier, Viol};
use hashbrown::verif as hv;
use serde_json::{json, Value};
use std::io::{BufRead, Write};

const EMPTY: u8 = 0xFF;
const DELETED: u8 = 0x80;

fn expect_mask(what: &str, g: &[u8], m: hv::MaskInfo, want_bits: u32, exact: bool) -> Result<(), String> {
    let w = hv::GROUP_WIDTH;
    if exact && m.bits != want_bits {
        return Err(format!("{what} on group {:02x?}: positions {:#b}, byte-by-byte definition {:#b}", &g[..w], m.bits, want_bits));
    }
    // BitMask queries agree with the bit positions
    let bits = m.bits;
    if !m.iter_ascending || m.iter_count != bits.count_ones() {
        return Err(format!("{what} on {:02x?}: iteration is not strictly ascending over the set positions (count {}, bits {:#b})", &g[..w], m.iter_count, bits));
    }
    if m.any_bit_set != (bits != 0) {
        return Err(format!("{what} on {:02x?}: any_bit_set() = {} for positions {:#b}", &g[..w], m.any_bit_set, bits));
    }
    let lowest = if bits == 0 { None } else { Some(bits.trailing_zeros() as usize) };
    if m.lowest_set_bit != lowest {
        return Err(format!("{what} on {:02x?}: lowest_set_bit() = {:?}, expected {:?}", &g[..w], m.lowest_set_bit, lowest));
    }
    let tz = if bits == 0 { w } else { bits.trailing_zeros() as usize };
    let lz = if bits == 0 { w } else { w - 1 - (31 - bits.leading_zeros() as usize) };
    if m.trailing_zeros != tz || m.leading_zeros != lz {
        return Err(format!("{what} on {:02x?}: trailing_zeros/leading_zeros = {}/{}, expected {tz}/{lz}", &g[..w], m.trailing_zeros, m.leading_zeros));
    }
    Ok(())
}

fn check_group(g: &[u8], tags: &[u8], valid_ctrl: bool) -> Result<u64, String> {
    let w = hv::GROUP_WIDTH;
    let portable = w == 8;
    let mut n = 0u64;
    for &t in tags {
        let mut truth = 0u32;
        for i in 0..w {
            if g[i] == t {
                truth |= 1 << i;
            }
        }
        let m = hv::group_match_tag(g, t);
        if portable {
            // may additionally report a byte equal to tag ^ 1, only above a true match
            if m.bits & truth != truth {
                return Err(format!("match_tag({t:#x}) on {:02x?} misses a true match: {:#b} vs {:#b}", &g[..w], m.bits, truth));
            }
            let extra = m.bits & !truth;
            for i in 0..w {
                if extra >> i & 1 == 1 {
                    let below = truth & ((1u32 << i) - 1);
                    if g[i] != t ^ 1 || below == 0 {
                        return Err(format!(
                            "match_tag({t:#x}) on {:02x?} reports position {i} (byte {:#x}) which is neither a match nor a lowest-bit neighbour above a true match",
                            &g[..w], g[i]
                        ));
                    }
                }
            }
            expect_mask("match_tag", g, m, m.bits, true)?;
        } else {
            expect_mask("match_tag", g, m, truth, true)?;
        }
        n += 1;
    }
    let mut e = 0u32;
    let mut ed = 0u32;
    for i in 0..w {
        if g[i] == EMPTY {
            e |= 1 << i;
        }
        if g[i] & 0x80 != 0 {
            ed |= 1 << i;
        }
    }
    if valid_ctrl {
        expect_mask("match_empty", g, hv::group_match_empty(g), e, true)?;
    }
    expect_mask("match_empty_or_deleted", g, hv::group_match_empty_or_deleted(g), ed, true)?;
    let full = !ed & ((1u32 << w) - 1);
    expect_mask("match_full", g, hv::group_match_full(g), full, true)?;
    let c = hv::group_convert(g);
    for i in 0..w {
        let want = if g[i] & 0x80 != 0 { EMPTY } else { DELETED };
        if c[i] != want {
            return Err(format!("convert_special_to_empty_and_full_to_deleted on {:02x?}: byte {i} became {:#x}, expected {want:#x}", &g[..w], c[i]));
        }
    }
    Ok(n + 4)
}

fn is_valid_ctrl(b: u8) -> bool {
    b & 0x80 == 0 || b == EMPTY || b == DELETED
}

struct Primitives {
    tier: Tier,
}
impl Primitives {
    fn run_all(&self) -> Result<Value, String> {
        let w = hv::GROUP_WIDTH;
        let q = self.tier == Tier::Quick;
        let mut n = 0u64;
        let backgrounds = [EMPTY, DELETED, 0x00, 0x7f, 0x2a, 0x2b];
        // static empty group
        let se = hv::static_empty_group();
        if se.len() != w || se.iter().any(|&b| b != EMPTY) || (se.as_ptr() as usize) % w != 0 {
            return Err("static empty group is not WIDTH aligned EMPTY bytes".into());
        }
        // 1. every byte value at every position over several backgrounds
        for &bg in &backgrounds {
            for p in 0..w {
                for b in 0..=255u8 {
                    let mut g = [bg; 16];
                    g[p] = b;
                    let tags = [b & 0x7f, (b & 0x7f) ^ 1, bg & 0x7f, (bg & 0x7f) ^ 1, 0, 0x7f];
                    n += check_group(&g, &tags, is_valid_ctrl(b))?;
                }
            }
        }
        // 2. all 65536 two-byte windows at every adjacent position
        let mut windows = 0u64;
        for &bg in &[EMPTY, 0x2a, DELETED] {
            for p in 0..w - 1 {
                for b0 in 0..=255u8 {
                    for b1 in 0..=255u8 {
                        let mut g = [bg; 16];
                        g[p] = b0;
                        g[p + 1] = b1;
                        let tags = [b0 & 0x7f, b1 & 0x7f, (b0 & 0x7f) ^ 1, (b1 & 0x7f) ^ 1];
                        n += check_group(&g, &tags, is_valid_ctrl(b0) && is_valid_ctrl(b1))?;
                        windows += 1;
                    }
                }
            }
            if q {
                break;
            }
        }
        // 3. full product of a 7-class byte alphabet over 8 positions (low half, and high half on 16-byte groups)
        let tags: Vec<u8> = if q { vec![0x00, 0x2a, 0x7f] } else { (0..128u8).step_by(if w == 8 { 1 } else { 9 }).collect() };
        let mut products = 0u64;
        for &t in &tags {
            let other = if t == 0x55 { 0x33 } else { 0x55 };
            let alpha = [t, t ^ 1, 0x00, 0x7f, DELETED, EMPTY, other];
            for half in 0..(w / 8) {
                let total = 7u32.pow(8);
                for code in 0..total {
                    let mut g = [EMPTY; 16];
                    if w == 16 {
                        // the other half holds a true match first so that borrow chains could start there
                        g[if half == 0 { 8 } else { 0 }] = t;
                    }
                    let mut c = code;
                    for i in 0..8 {
                        g[half * 8 + i] = alpha[(c % 7) as usize];
                        c /= 7;
                    }
                    n += check_group(&g, &[t], true)?;
                    products += 1;
                }
            }
        }
        // 4. unaligned load / aligned store round trip at every offset
        let mut buf = [0u8; 48];
        for (i, b) in buf.iter_mut().enumerate() {
            *b = (i as u8).wrapping_mul(37) ^ 0x5a;
        }
        for off in 0..=w {
            let r = hv::group_load_store_roundtrip(&buf, off);
            if r[..w] != buf[off..off + w] {
                return Err(format!("load at offset {off} + store_aligned does not round-trip"));
            }
            n += 1;
        }
        Ok(json!({"evaluations": n, "two_byte_windows": windows, "alphabet_product_groups": products, "tags_in_product": tags.len(), "group_width": w,
                  "note": "match_empty is checked on valid control bytes only (EMPTY, DELETED, 0x00..0x7f): its documented precondition"}))
    }
}
impl Config for Primitives {
    fn label(&self) -> String {
        "primitives".into()
    }
    fn run(&self) -> ConfigReport {
        let t0 = std::time::Instant::now();
        crate::crumbs::set_config(&self.label());
        crate::crumbs::set_replay_unwatched("{\"primitives\":true}");
        let mut rep = ConfigReport { label: self.label(), mode: "enum".into(), exhaustive: true, ..Default::default() };
        match crate::env::catch(|| self.run_all()) {
            Ok(Ok(d)) => {
                rep.executions = d["evaluations"].as_u64().unwrap_or(0);
                rep.states = 1;
                let mut d = d;
                d["distinct_nontrivial"] = json!(rep.executions);
                rep.detail = d;
                rep.samples = vec![json!({"group": [0x2a, 0x2b, 0xff, 0x80, 0, 0x7f, 0x2a, 0x2b], "match_tag(0x2a)": format!("{:?}", hv::group_match_tag(&[0x2a, 0x2b, 0xff, 0x80, 0, 0x7f, 0x2a, 0x2b, 0xff, 0xff, 0xff, 0xff, 0xff, 0xff, 0xff, 0xff], 0x2a))})];
            }
            Ok(Err(m)) | Err(m) => rep.violations.push(Viol { config: self.label(), message: m, replay: json!({"primitives": true}) }),
        }
        rep.wall_s = t0.elapsed().as_secs_f64();
        rep
    }
    fn replay(&self, _rp: &Value) -> Result<(), String> {
        match crate::env::catch(|| Primitives { tier: Tier::Quick }.run_all()) {
            Ok(r) => r.map(|_| ()),
            Err(m) => Err(m),
        }
    }
}

// ---------------------------------------------------------------------------
// cross-build conformance
// ---------------------------------------------------------------------------

fn xcfg(plan: Plan, universe: u8) -> MapCfg {
    let mut c = MapCfg::new(plan, universe);
    c.max_buckets = 32;
    // iteration order is layout dependent: leave out the two operations whose
    // *reference result* depends on it
    c.alphabet.retain = vec![Ret::All, Ret::None, Ret::EvenIds];
    c.alphabet.from_iter = false;
    c.alphabet.order_dependent = false;
    c
}

fn digest(model: &[ModelEntry]) -> u64 {
    let mut m = model.to_vec();
    m.sort_unstable();
    let mut h = 0xcbf29ce484222325u64;
    for e in m {
        for b in [e.0 as u64, e.1 as u64, e.2 as u64] {
            h ^= b;
            h = h.wrapping_mul(0x100000001b3);
        }
    }
    h
}

struct CrossBuild {
    plan: Plan,
    universe: u8,
    tier: Tier,
}
impl CrossBuild {
    fn export_path(&self) -> Option<String> {
        std::env::var("VERIF_C18_EXPORT").ok().map(|d| format!("{}/{}-{}.jsonl", d, super::backend(), self.label()))
    }
    fn import_path(&self) -> Option<String> {
        let other = if super::backend() == "sse2" { "portable" } else { "sse2" };
        std::env::var("VERIF_C18_IMPORT").ok().map(|d| format!("{}/{}-{}.jsonl", d, other, self.label()))
    }
}
impl Config for CrossBuild {
    fn label(&self) -> String {
        format!("cross-build-{}-u{}", self.plan.name(), self.universe)
    }
    fn run(&self) -> ConfigReport {
        crate::crumbs::set_config(&self.label());
        let h = MapHarness::<TKey, TVal>::new(xcfg(self.plan, self.universe));
        if let Some(path) = self.import_path() {
            // replay every history the other build expanded, with every operation it tried
            let t0 = std::time::Instant::now();
            let mut rep = ConfigReport { label: self.label(), mode: "trace-replay(import)".into(), ..Default::default() };
            let f = match std::fs::File::open(&path) {
                Ok(f) => f,
                Err(e) => {
                    rep.machinery_error = Some(format!("cannot open {path}: {e}"));
                    return rep;
                }
            };
            let lines: Vec<String> = std::io::BufReader::new(f).lines().map_while(Result::ok).collect();
            let next = std::sync::atomic::AtomicUsize::new(0);
            let traces = std::sync::atomic::AtomicU64::new(0);
            let viol: std::sync::Mutex<Option<(Value, String)>> = std::sync::Mutex::new(None);
            std::thread::scope(|sc| {
                for w in 0..explore::nthreads() {
                    let (next, traces, viol, lines, h) = (&next, &traces, &viol, &lines, &h);
                    sc.spawn(move || {
                        crate::env::WORKER.with(|c| c.set(w));
                        let st = Stats::default();
                        loop {
                            let i = next.fetch_add(1, std::sync::atomic::Ordering::Relaxed);
                            if i >= lines.len() || viol.lock().unwrap().is_some() {
                                break;
                            }
                            let v: Value = serde_json::from_str(&lines[i]).expect("bad export line");
                            let hist: Vec<MapOp> = serde_json::from_value(v["h"].clone()).expect("bad export history");
                            let ops: Vec<MapOp> = serde_json::from_value(v["ops"].clone()).expect("bad export ops");
                            let dg: Vec<u64> = serde_json::from_value(v["d"].clone()).expect("bad export digests");
                            for (k, op) in ops.iter().enumerate() {
                                crate::crumbs::set_replay(&json!({"history": hist, "op": op}).to_string());
                                let r = crate::env::catch(|| -> Result<u64, String> {
                                    let mut sut = explore::replay(h, &hist, &st)?;
                                    h.apply(&mut sut, op, true, &st)?;
                                    h.check(&mut sut)?;
                                    let d = digest(&sut.model);
                                    h.finish(sut)?;
                                    Ok(d)
                                });
                                let r = match r {
                                    Ok(r) => r,
                                    Err(m) => Err(format!("unexpected panic: {m}")),
                                };
                                match r {
                                    Ok(d) if d == dg[k] => {
                                        traces.fetch_add(1, std::sync::atomic::Ordering::Relaxed);
                                    }
                                    Ok(_) => {
                                        *viol.lock().unwrap() = Some((json!({"history": hist, "op": op}), "observable contents after this history differ between the two group back-ends".into()));
                                        break;
                                    }
                                    Err(m) => {
                                        *viol.lock().unwrap() = Some((json!({"history": hist, "op": op}), format!("history expanded by the other back-end's exploration fails on this one: {m}")));
                                        break;
                                    }
                                }
                            }
                        }
                        crate::crumbs::clear();
                    });
                }
            });
            rep.states = lines.len() as u64;
            rep.executions = traces.load(std::sync::atomic::Ordering::Relaxed);
            rep.transitions = rep.executions;
            rep.exhaustive = true;
            rep.wall_s = t0.elapsed().as_secs_f64();
            rep.detail = json!({"imported_from": path, "histories": lines.len(), "traces_replayed_on_this_backend": rep.executions, "distinct_nontrivial": rep.executions});
            if let Some(l) = lines.last() {
                rep.samples.push(serde_json::from_str::<Value>(l).map(|v| json!({"history": v["h"]})).unwrap_or(json!({})));
            }
            if let Some((rp, m)) = viol.into_inner().unwrap() {
                rep.violations.push(Viol { config: self.label(), message: m, replay: rp });
            }
            return rep;
        }
        // export: explore on this build and write every expanded (history, ops, digests)
        let stats = Stats::default();
        let lim = Limits { max_wall_s: if self.tier == Tier::Quick { 30.0 } else { 600.0 }, ..Default::default() };
        let out = explore::bfs(&h, vec![vec![]], &lim, &stats);
        let mut rep = outcome_report(&self.label(), "bfs(export)", &out, &stats);
        if out.violation.is_some() {
            return rep;
        }
        if let Some(path) = self.export_path() {
            let mut f = std::io::BufWriter::new(std::fs::File::create(&path).expect("cannot create export file"));
            let st = Stats::default();
            for i in 0..out.states {
                let hist = out.history(i);
                let sut = explore::replay(&h, &hist, &st).expect("replay");
                let ops = h.ops(&sut);
                h.finish(sut).ok();
                let mut dg = Vec::with_capacity(ops.len());
                for op in &ops {
                    let mut s = explore::replay(&h, &hist, &st).expect("replay");
                    h.apply(&mut s, op, false, &st).expect("apply");
                    dg.push(digest(&s.model));
                    h.finish(s).ok();
                }
                writeln!(f, "{}", json!({"h": hist, "ops": ops, "d": dg})).expect("write export");
            }
            if let Value::Object(m) = &mut rep.detail {
                m.insert("exported_to".into(), json!(path));
            }
        }
        rep
    }
    fn replay(&self, rp: &Value) -> Result<(), String> {
        let h = MapHarness::<TKey, TVal>::new(xcfg(self.plan, self.universe));
        let mut hist: Vec<MapOp> = serde_json::from_value(rp["history"].clone()).map_err(|e| format!("MACHINERY: bad replay: {e}"))?;
        if let Some(op) = rp.get("op") {
            if !op.is_null() {
                hist.push(serde_json::from_value(op.clone()).map_err(|e| format!("MACHINERY: bad replay: {e}"))?);
            }
        }
        let b = crate::report::BfsConfig::new(self.label(), h, Limits::default());
        b.replay(&json!({"history": hist}))
    }
}

pub fn configs(tier: Tier) -> Vec<Box<dyn Config>> {
    let q = tier == Tier::Quick;
    let importing = std::env::var("VERIF_C18_IMPORT").is_ok();
    let mut v: Vec<Box<dyn Config>> = Vec::new();
    if !importing {
        v.push(Box::new(Primitives { tier }));
    }
    v.push(Box::new(CrossBuild { plan: Plan::Zero, universe: if q { 6 } else { 10 }, tier }));
    v.push(Box::new(CrossBuild { plan: Plan::Adv(0), universe: if q { 4 } else { 5 }, tier }));
    if !q {
        v.push(Box::new(CrossBuild { plan: Plan::Seq, universe: 5, tier }));
    }
    v
}
