//! Wide-table batteries (C01, C09, C10, C11): the closed searches use tables of at most 128 buckets; here a
//! finite grid of scripted tables with hundreds of elements (many groups, several growth steps, tombstone runs
//! longer than a group) is built and a fixed battery of differential checks against a `BTreeMap` is run on each.
//! Enumeration of a grid of scripts, not a closure of interleavings; reported as such.

use crate::env;
use crate::explore;
use crate::inv;
use crate::props::widechurn::WPlan;
use crate::props::Tier;
use crate::report::{Config, ConfigReport, Viol};
use hashbrown::{HashMap, HashTable};
use serde::{Deserialize, Serialize};
use serde_json::{json, Value};
use std::collections::{BTreeMap, BTreeSet};
use std::hash::{BuildHasher, Hash, Hasher};
use std::sync::atomic::{AtomicU64, Ordering};
use std::sync::Mutex;

#[derive(Clone, Copy, Debug, PartialEq, Eq, PartialOrd, Ord)]
pub struct BKey {
    pub id: u64,
    pub h: u64,
}
impl Hash for BKey {
    fn hash<H: Hasher>(&self, s: &mut H) {
        s.write_u64(self.h);
    }
}
#[derive(Clone, Default)]
pub struct Ident;
pub struct IdentHasher(u64);
impl Hasher for IdentHasher {
    fn write(&mut self, _: &[u8]) {
        unreachable!("keys write one u64");
    }
    fn write_u64(&mut self, v: u64) {
        self.0 = v;
    }
    fn finish(&self) -> u64 {
        self.0
    }
}
impl BuildHasher for Ident {
    type Hasher = IdentHasher;
    fn build_hasher(&self) -> IdentHasher {
        IdentHasher(0)
    }
}

#[derive(Clone, Copy, Debug, Serialize, Deserialize, PartialEq, Eq)]
pub enum Thin {
    None,
    EverySecond,
    FirstHalf,
    LastHalf,
    AllBut3,
    Scatter,
}

#[derive(Clone, Copy, Debug, Serialize, Deserialize, PartialEq, Eq)]
pub enum Part {
    Lookup,
    Iter,
    Remove,
    Clone,
}

#[derive(Clone, Copy, Debug, Serialize, Deserialize)]
pub struct BCase {
    pub n: usize,
    pub plan: WPlan,
    pub thin: Thin,
    pub refill: bool,
    pub part: Part,
}

type M = HashMap<BKey, u64, Ident>;
type Model = BTreeMap<BKey, u64>;

fn structure(m: &M, what: &str) -> Result<(), String> {
    let d = m.verif_dump();
    inv::check_structure(&d, inv::Which { lawful_hash: true }, &|i| m.verif_bucket(i).map(|(k, _)| k.h)).map_err(|e| format!("{what}: {e}"))
}

fn same(m: &M, model: &Model, what: &str) -> Result<(), String> {
    structure(m, what)?;
    if m.len() != model.len() {
        return Err(format!("{what}: len() = {}, reference holds {}", m.len(), model.len()));
    }
    let mut seen = BTreeSet::new();
    for (k, v) in m.iter() {
        if !seen.insert(*k) {
            return Err(format!("{what}: iter() yields {:?} twice", k));
        }
        if model.get(k) != Some(v) {
            return Err(format!("{what}: iter() yields ({:?}, {v}), reference has {:?}", k, model.get(k)));
        }
    }
    if seen.len() != model.len() {
        return Err(format!("{what}: iter() yields {} elements, reference holds {}", seen.len(), model.len()));
    }
    for (k, v) in model {
        if m.get(k) != Some(v) {
            return Err(format!("{what}: get({:?}) = {:?}, reference has {v}", k, m.get(k)));
        }
    }
    Ok(())
}

fn buckets(m: &M) -> usize {
    let d = m.verif_dump();
    if d.is_singleton {
        0
    } else {
        d.bucket_mask + 1
    }
}

fn build(c: &BCase) -> Result<(M, Model, Vec<BKey>), String> {
    let mut m: M = HashMap::with_hasher(Ident);
    let mut model = Model::new();
    let mut keys = Vec::new();
    for t in 1..=c.n as u64 {
        let k = BKey { id: t, h: c.plan.hash(t) };
        if m.insert(k, t * 10).is_some() {
            return Err(format!("inserting the new key {:?} reports it present", k));
        }
        model.insert(k, t * 10);
        keys.push(k);
    }
    let n = c.n;
    let mut removed = Vec::new();
    for (i, k) in keys.iter().enumerate() {
        let go = match c.thin {
            Thin::None => false,
            Thin::EverySecond => i % 2 == 0,
            Thin::FirstHalf => i < n / 2,
            Thin::LastHalf => i >= n / 2,
            Thin::AllBut3 => i % (n / 3).max(1) != 1,
            Thin::Scatter => (i as u64).wrapping_mul(0x9E37_79B9_7F4A_7C15) >> 62 == 0,
        };
        if go {
            if m.remove(k) != model.remove(k) {
                return Err(format!("remove({:?}) disagrees with the reference", k));
            }
            removed.push(*k);
        }
    }
    if c.refill {
        for j in 0..(n / 8) as u64 {
            let t = c.n as u64 + 1 + j;
            let k = BKey { id: t, h: c.plan.hash(t) };
            m.insert(k, t * 10);
            model.insert(k, t * 10);
        }
    }
    same(&m, &model, "after building the table")?;
    Ok((m, model, removed))
}

fn part_lookup(c: &BCase, mut m: M, mut model: Model, removed: Vec<BKey>) -> Result<(), String> {
    for k in &removed {
        if m.get(k).is_some() || m.contains_key(k) || m.get_key_value(k).is_some() {
            return Err(format!("removed key {:?} is still found", k));
        }
    }
    for a in [BKey { id: u64::MAX, h: 0 }, BKey { id: u64::MAX, h: u64::MAX }, BKey { id: u64::MAX, h: c.plan.hash(7) }] {
        if m.get(&a).is_some() {
            return Err(format!("absent key {:?} is found", a));
        }
    }
    let ks: Vec<BKey> = model.keys().copied().collect();
    for (i, k) in ks.iter().enumerate() {
        match m.get_key_value(k) {
            Some((kk, v)) if kk == k && Some(v) == model.get(k) => {}
            other => return Err(format!("get_key_value({:?}) = {:?}", k, other)),
        }
        if i % 3 == 0 {
            let old = m.insert(*k, 7);
            if old != model.insert(*k, 7) {
                return Err(format!("insert over the present key {:?} returned {:?}", k, old));
            }
        } else if i % 3 == 1 {
            *m.get_mut(k).ok_or_else(|| format!("get_mut({:?}) = None", k))? += 1;
            *model.get_mut(k).unwrap() += 1;
        }
    }
    same(&m, &model, "after overwriting and writing through get_mut")?;
    let b0 = buckets(&m);
    m.reserve(3 * c.n);
    if m.capacity() < m.len() + 3 * c.n {
        return Err(format!("reserve({}) left capacity {} with {} elements", 3 * c.n, m.capacity(), m.len()));
    }
    same(&m, &model, "after reserve(3n)")?;
    m.shrink_to_fit();
    same(&m, &model, "after shrink_to_fit")?;
    let (size, align) = hashbrown::verif::table_layout_of::<(BKey, u64)>();
    let want = if model.is_empty() { 0 } else { hashbrown::verif::capacity_to_buckets(model.len(), size, align).unwrap() };
    if buckets(&m) != want {
        return Err(format!("shrink_to_fit left {} buckets for {} elements (before: {b0}; the smallest table has {want})", buckets(&m), model.len()));
    }
    for k in &removed {
        m.insert(*k, 1);
        model.insert(*k, 1);
    }
    same(&m, &model, "after re-inserting the removed keys")?;
    for k in ks.iter().step_by(2) {
        if m.remove_entry(k).map(|e| e.1) != model.remove(k) {
            return Err(format!("remove_entry({:?}) disagrees with the reference", k));
        }
    }
    same(&m, &model, "after removing every second key")
}

fn once_each<I: Iterator<Item = BKey>>(mut it: I, model: &Model, what: &str, exact: bool) -> Result<(), String> {
    let mut seen = BTreeSet::new();
    let mut left = model.len();
    loop {
        let (lo, hi) = it.size_hint();
        if exact && (lo != left || hi != Some(left)) {
            return Err(format!("{what}: size_hint() = ({lo}, {:?}) with {left} elements left", hi));
        }
        match it.next() {
            Some(k) => {
                if !model.contains_key(&k) {
                    return Err(format!("{what} yields {:?}, which is not in the table", k));
                }
                if !seen.insert(k) {
                    return Err(format!("{what} yields {:?} twice", k));
                }
                if left == 0 {
                    return Err(format!("{what} yields more than len() elements"));
                }
                left -= 1;
            }
            None => break,
        }
    }
    if left != 0 {
        return Err(format!("{what} stopped with {left} elements missing"));
    }
    if it.next().is_some() {
        return Err(format!("{what} yields an element after None"));
    }
    Ok(())
}

fn part_iter(_c: &BCase, mut m: M, model: Model) -> Result<(), String> {
    once_each(m.iter().map(|(k, _)| *k), &model, "iter()", true)?;
    once_each(m.keys().copied(), &model, "keys()", true)?;
    once_each(m.iter_mut().map(|(k, _)| *k), &model, "iter_mut()", true)?;
    once_each(m.clone().into_iter().map(|(k, _)| k), &model, "into_iter()", true)?;
    once_each(m.clone().into_keys(), &model, "into_keys()", true)?;
    let vs: BTreeSet<u64> = m.values().copied().collect();
    let want: BTreeSet<u64> = model.values().copied().collect();
    if vs != want || m.values().count() != model.len() {
        return Err("values() disagrees with the reference".into());
    }
    // fold / count / nth against next()
    let by_next: Vec<BKey> = m.iter().map(|(k, _)| *k).collect();
    let by_fold: Vec<BKey> = m.iter().fold(Vec::new(), |mut a, (k, _)| {
        a.push(*k);
        a
    });
    if by_next != by_fold {
        return Err("iter().fold visits a different sequence than next()".into());
    }
    if m.iter().count() != model.len() {
        return Err("iter().count() != len()".into());
    }
    for cut in [1usize, by_next.len() / 3, by_next.len().saturating_sub(1)] {
        if cut >= by_next.len() {
            continue;
        }
        let mut it = m.iter();
        let got = it.nth(cut).map(|(k, _)| *k);
        if got != Some(by_next[cut]) {
            return Err(format!("iter().nth({cut}) = {:?}, next() sequence has {:?}", got, by_next[cut]));
        }
        let rest: Vec<BKey> = it.clone().map(|(k, _)| *k).collect();
        if rest != by_next[cut + 1..] {
            return Err(format!("a clone of iter() taken after {} elements yields a different remainder", cut + 1));
        }
        if it.len() != by_next.len() - cut - 1 {
            return Err(format!("iter().len() = {} after {} elements of {}", it.len(), cut + 1, by_next.len()));
        }
    }
    // values_mut writes land in each element once
    for v in m.values_mut() {
        *v += 1;
    }
    for (k, v) in &model {
        if m.get(k) != Some(&(v + 1)) {
            return Err(format!("values_mut(): element {:?} was not written exactly once", k));
        }
    }
    // drain: everything once, table empty afterwards, allocation kept
    let b0 = buckets(&m);
    let mut d = m.clone();
    once_each(d.drain().map(|(k, _)| k), &model, "drain()", true)?;
    if !d.is_empty() || buckets(&d) != b0 {
        return Err(format!("after drain(): len {} buckets {} (before {b0})", d.len(), buckets(&d)));
    }
    structure(&d, "after drain()")?;
    // HashTable over the same elements: iter and iter_hash
    let mut t: HashTable<BKey> = HashTable::new();
    for k in model.keys() {
        t.insert_unique(k.h, *k, |x| x.h);
    }
    once_each(t.iter().copied(), &model, "HashTable::iter()", true)?;
    let mut hs: Vec<u64> = model.keys().map(|k| k.h).collect();
    hs.sort();
    hs.dedup();
    for &h in hs.iter().take(8).chain(hs.iter().rev().take(8)) {
        let mut seen = BTreeSet::new();
        for k in t.iter_hash(h) {
            if !seen.insert(*k) {
                return Err(format!("iter_hash({h:#x}) yields {:?} twice", k));
            }
            if !model.contains_key(k) {
                return Err(format!("iter_hash({h:#x}) yields {:?}, which is not in the table", k));
            }
        }
        for k in model.keys().filter(|k| k.h == h) {
            if !seen.contains(k) {
                return Err(format!("iter_hash({h:#x}) misses {:?}", k));
            }
        }
    }
    Ok(())
}

fn part_remove(_c: &BCase, m: M, model: Model) -> Result<(), String> {
    let b0 = buckets(&m);
    let preds: [(&str, fn(&BKey) -> bool); 5] = [
        ("even ids", |k| k.id % 2 == 0),
        ("all", |_| true),
        ("none", |_| false),
        ("low hash bit", |k| k.h & 1 == 1),
        ("id % 7 == 3", |k| k.id % 7 == 3),
    ];
    for (name, p) in preds {
        // retain keeps exactly the selected
        let mut r = m.clone();
        let mut calls = 0usize;
        r.retain(|k, _| {
            calls += 1;
            p(k)
        });
        let want: Model = model.iter().filter(|(k, _)| p(k)).map(|(k, v)| (*k, *v)).collect();
        if calls != model.len() {
            return Err(format!("retain({name}) called the predicate {calls} times for {} elements", model.len()));
        }
        same(&r, &want, &format!("after retain({name})"))?;
        if buckets(&r) != b0 {
            return Err(format!("retain({name}) changed the bucket count from {b0} to {}", buckets(&r)));
        }
        // extract_if removes and yields exactly the selected
        let mut e = m.clone();
        let got: Model = e.extract_if(|k, _| p(k)).collect();
        let rest: Model = model.iter().filter(|(k, _)| !p(k)).map(|(k, v)| (*k, *v)).collect();
        if got != want {
            return Err(format!("extract_if({name}) yielded {} elements, {} selected", got.len(), want.len()));
        }
        same(&e, &rest, &format!("after extract_if({name})"))?;
        // partially consumed: exactly the yielded ones are gone
        let mut e = m.clone();
        let take = want.len() / 2;
        let got: Vec<(BKey, u64)> = e.extract_if(|k, _| p(k)).take(take).collect();
        let mut rest = model.clone();
        for (k, v) in &got {
            if rest.remove(k) != Some(*v) {
                return Err(format!("extract_if({name}) yielded ({:?}, {v}) which the table did not hold", k));
            }
        }
        if got.len() != take {
            return Err(format!("extract_if({name}).take({take}) yielded {}", got.len()));
        }
        same(&e, &rest, &format!("after a partially consumed extract_if({name})"))?;
        // the survivors can be churned afterwards
        for k in model.keys().take(40) {
            r.insert(*k, 5);
        }
        let mut want2 = want.clone();
        for k in model.keys().take(40) {
            want2.insert(*k, 5);
        }
        same(&r, &want2, &format!("after inserting into the table left by retain({name})"))?;
    }
    // drain dropped early empties the table
    let mut d = m.clone();
    {
        let mut it = d.drain();
        for _ in 0..model.len() / 3 {
            it.next();
        }
    }
    same(&d, &Model::new(), "after a drain() dropped early")?;
    if buckets(&d) != b0 {
        return Err(format!("drain() changed the bucket count from {b0} to {}", buckets(&d)));
    }
    let mut cl = m.clone();
    cl.clear();
    same(&cl, &Model::new(), "after clear()")?;
    let dd = cl.verif_dump();
    if !dd.is_singleton && dd.growth_left != hashbrown::verif::bucket_mask_to_capacity(dd.bucket_mask) {
        return Err("clear() did not restore the free-slot budget".into());
    }
    Ok(())
}

fn part_clone(c: &BCase, m: M, model: Model) -> Result<(), String> {
    let cl = m.clone();
    same(&cl, &model, "clone()")?;
    if !(cl == m && m == cl) {
        return Err("a clone is not == to its source".into());
    }
    // independence
    let mut c2 = m.clone();
    if let Some(k) = model.keys().next().copied() {
        c2.remove(&k);
        if c2 == m || m == c2 {
            return Err("a clone with one element removed still compares equal".into());
        }
        c2.insert(k, model[&k] + 1);
        if c2 == m {
            return Err("maps that differ in one value compare equal".into());
        }
    }
    c2.insert(BKey { id: u64::MAX - 1, h: c.plan.hash(3) }, 0);
    same(&m, &model, "the source after its clone was modified")?;
    // clone_from into tables of other shapes
    for shape in 0..4 {
        let mut dst: M = match shape {
            0 => HashMap::with_hasher(Ident),
            1 => {
                let mut d = m.clone();
                d.retain(|k, _| k.id % 3 == 0);
                d
            }
            2 => HashMap::with_capacity_and_hasher(4 * c.n + 10, Ident),
            _ => {
                let mut d: M = HashMap::with_hasher(Ident);
                for j in 0..5u64 {
                    d.insert(BKey { id: 1 << 40 | j, h: j }, j);
                }
                d
            }
        };
        dst.clone_from(&m);
        same(&dst, &model, &format!("clone_from into destination shape {shape}"))?;
        if dst != m {
            return Err(format!("clone_from into destination shape {shape}: result != source"));
        }
    }
    // == ignores layout and insertion order
    let mut rev: M = HashMap::with_capacity_and_hasher(3 * c.n + 1, Ident);
    for (k, v) in model.iter().rev() {
        rev.insert(*k, *v);
    }
    if !(rev == m && m == rev) {
        return Err("a map with the same contents built in another order and size does not compare equal".into());
    }
    Ok(())
}

pub fn run_case(c: &BCase) -> Result<u64, String> {
    crate::crumbs::touch();
    let (m, model, removed) = build(c)?;
    let n = model.len() as u64;
    match c.part {
        Part::Lookup => part_lookup(c, m, model, removed)?,
        Part::Iter => part_iter(c, m, model)?,
        Part::Remove => part_remove(c, m, model)?,
        Part::Clone => part_clone(c, m, model)?,
    }
    Ok(n)
}

pub fn cases(tier: Tier, part: Part) -> Vec<BCase> {
    let q = tier == Tier::Quick;
    let w = hashbrown::verif::GROUP_WIDTH;
    let ns: Vec<usize> = if q { vec![130, 40 * w] } else { vec![113, 130, 224, 225, 449, 40 * w, 1000] };
    let plans = [WPlan::Zero, WPlan::Seq, WPlan::Stride, WPlan::Mix, WPlan::Four];
    let thins = [Thin::None, Thin::EverySecond, Thin::FirstHalf, Thin::LastHalf, Thin::AllBut3, Thin::Scatter];
    let mut v = Vec::new();
    for &n in &ns {
        for &plan in &plans {
            for &thin in &thins {
                for refill in [false, true] {
                    if thin == Thin::None && refill {
                        continue;
                    }
                    v.push(BCase { n, plan, thin, refill, part });
                }
            }
        }
    }
    v
}

pub struct WideBattery {
    pub tier: Tier,
    pub part: Part,
}

impl Config for WideBattery {
    fn label(&self) -> String {
        format!("wide-table-battery-{:?}", self.part).to_lowercase()
    }
    fn run(&self) -> ConfigReport {
        crate::crumbs::set_config(&self.label());
        let t0 = std::time::Instant::now();
        let cs = cases(self.tier, self.part);
        let next = std::sync::atomic::AtomicUsize::new(0);
        let (ran, elems) = (AtomicU64::new(0), AtomicU64::new(0));
        let viol: Mutex<Option<(Value, String)>> = Mutex::new(None);
        let capped = std::sync::atomic::AtomicBool::new(false);
        let wall_cap = if self.tier == Tier::Quick { 60.0 } else { 900.0 };
        std::thread::scope(|sc| {
            for w in 0..explore::nthreads() {
                let (cs, next, ran, elems, viol, capped) = (&cs, &next, &ran, &elems, &viol, &capped);
                sc.spawn(move || {
                    env::WORKER.with(|c| c.set(w));
                    loop {
                        let i = next.fetch_add(1, Ordering::Relaxed);
                        if i >= cs.len() || viol.lock().unwrap().is_some() {
                            break;
                        }
                        if t0.elapsed().as_secs_f64() > wall_cap {
                            capped.store(true, Ordering::Relaxed);
                            break;
                        }
                        crate::crumbs::set_replay(&json!({"case": cs[i]}).to_string());
                        match env::catch(|| run_case(&cs[i])) {
                            Ok(Ok(n)) => {
                                ran.fetch_add(1, Ordering::Relaxed);
                                elems.fetch_add(n, Ordering::Relaxed);
                            }
                            Ok(Err(m)) => {
                                *viol.lock().unwrap() = Some((json!({"case": cs[i]}), m));
                            }
                            Err(m) => {
                                *viol.lock().unwrap() = Some((json!({"case": cs[i]}), format!("unexpected panic: {m}")));
                            }
                        }
                    }
                    crate::crumbs::clear();
                });
            }
        });
        let mut rep = ConfigReport {
            label: self.label(),
            mode: "enum(table scripts: size x hash plan x thinning x refill, fixed battery each)".into(),
            states: cs.len() as u64,
            executions: ran.load(Ordering::Relaxed),
            transitions: ran.load(Ordering::Relaxed),
            exhaustive: !capped.load(Ordering::Relaxed),
            cap: if capped.load(Ordering::Relaxed) { Some(format!("wall cap {wall_cap}s")) } else { None },
            wall_s: t0.elapsed().as_secs_f64(),
            ..Default::default()
        };
        rep.detail = json!({"tables": cs.len(), "tables_run": rep.executions, "elements_in_tables": elems.load(Ordering::Relaxed),
            "note": "deterministic scripted tables beyond the sizes of the closed searches; not a closure of interleavings"});
        if let Some(c) = cs.get(cs.len() / 3) {
            rep.samples.push(json!({"case": c}));
        }
        if let Some((rp, m)) = viol.into_inner().unwrap() {
            if m.starts_with("MACHINERY") {
                rep.machinery_error = Some(m);
            } else {
                rep.violations.push(Viol { config: self.label(), message: m, replay: rp });
            }
        }
        rep
    }
    fn replay(&self, rp: &Value) -> Result<(), String> {
        let c: BCase = serde_json::from_value(rp["case"].clone()).map_err(|e| format!("MACHINERY: bad replay: {e}"))?;
        match env::catch(|| run_case(&c)) {
            Ok(r) => r.map(|_| ()),
            Err(m) => Err(format!("unexpected panic: {m}")),
        }
    }
}
