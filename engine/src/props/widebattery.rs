//! Wide-table batteries (C01, C09, C10, C11): the closed searches use tables of at most 128 buckets; here a
//! finite grid of scripted tables with hundreds of elements (many groups, several growth steps, tombstone runs
//! longer than a group) is built and a fixed battery of differential checks against a `BTreeMap` is run on each.
//! Enumeration of a grid of scripts, not a closure of interleavings; reported as such.

use crate::env;
use crate::explore;
use crate::inv;
use crate::props::widechurn::WPlan;
use crate::props::Tier;
use crate::report::{Config, ConfigReport, Viol};
use hashbrown::{HashMap, HashTable};
use serde::{Deserialize, Serialize};
use serde_json::{json, Value};
use std::collections::{BTreeMap, BTreeSet};
use std::hash::{BuildHasher, Hash, Hasher};
use std::sync::atomic::{AtomicU64, Ordering};
use std::sync::Mutex;

#[derive(Clone, Copy, Debug, PartialEq, Eq, PartialOrd, Ord)]
pub struct BKey {
    pub id: u64,
    pub h: u64,
}
impl Hash for BKey {
    fn hash<H: Hasher>(&self, s: &mut H) {
        s.write_u64(self.h);
    }
}
#[derive(Clone, Default)]
pub struct Ident;
pub struct IdentHasher(u64);
impl Hasher for IdentHasher {
    fn write(&mut self, _: &[u8]) {
        unreachable!("keys write one u64");
    }
    fn write_u64(&mut self, v: u64) {
        self.0 = v;
    }
    fn finish(&self) -> u64 {
        self.0
    }
}
impl BuildHasher for Ident {
    type Hasher = IdentHasher;
    fn build_hasher(&self) -> IdentHasher {
        IdentHasher(0)
    }
}

#[derive(Clone, Copy, Debug, Serialize, Deserialize, PartialEq, Eq)]
pub enum Thin {
    None,
    EverySecond,
    FirstHalf,
    LastHalf,
    AllBut3,
    Scatter,
}

#[derive(Clone, Copy, Debug, Serialize, Deserialize, PartialEq, Eq)]
pub enum Part {
    Lookup,
    Iter,
    Remove,
    Clone,
    /// HashSet algebra between the scripted table and a second set of a different size and layout (C07)
    SetAlgebra,
    /// HashTable as a multiset: every key stored twice (C06)
    Table,
    /// get_many_mut / get_many_key_value_mut over tuples of stored and absent keys (C15)
    ManyMut,
}

#[derive(Clone, Copy, Debug, Serialize, Deserialize)]
pub struct BCase {
    pub n: usize,
    pub plan: WPlan,
    pub thin: Thin,
    pub refill: bool,
    pub part: Part,
}

type M = HashMap<BKey, u64, Ident>;
type Model = BTreeMap<BKey, u64>;

fn structure(m: &M, what: &str) -> Result<(), String> {
    let d = m.verif_dump();
    inv::check_structure(&d, inv::Which { lawful_hash: true }, &|i| m.verif_bucket(i).map(|(k, _)| k.h)).map_err(|e| format!("{what}: {e}"))
}

fn same(m: &M, model: &Model, what: &str) -> Result<(), String> {
    structure(m, what)?;
    if m.len() != model.len() {
        return Err(format!("{what}: len() = {}, reference holds {}", m.len(), model.len()));
    }
    let mut seen = BTreeSet::new();
    for (k, v) in m.iter() {
        if !seen.insert(*k) {
            return Err(format!("{what}: iter() yields {:?} twice", k));
        }
        if model.get(k) != Some(v) {
            return Err(format!("{what}: iter() yields ({:?}, {v}), reference has {:?}", k, model.get(k)));
        }
    }
    if seen.len() != model.len() {
        return Err(format!("{what}: iter() yields {} elements, reference holds {}", seen.len(), model.len()));
    }
    for (k, v) in model {
        if m.get(k) != Some(v) {
            return Err(format!("{what}: get({:?}) = {:?}, reference has {v}", k, m.get(k)));
        }
    }
    Ok(())
}

fn buckets(m: &M) -> usize {
    let d = m.verif_dump();
    if d.is_singleton {
        0
    } else {
        d.bucket_mask + 1
    }
}

fn build(c: &BCase) -> Result<(M, Model, Vec<BKey>), String> {
    let mut m: M = HashMap::with_hasher(Ident);
    let mut model = Model::new();
    let mut keys = Vec::new();
    for t in 1..=c.n as u64 {
        let k = BKey { id: t, h: c.plan.hash(t) };
        if m.insert(k, t * 10).is_some() {
            return Err(format!("inserting the new key {:?} reports it present", k));
        }
        model.insert(k, t * 10);
        keys.push(k);
    }
    let n = c.n;
    let mut removed = Vec::new();
    for (i, k) in keys.iter().enumerate() {
        let go = match c.thin {
            Thin::None => false,
            Thin::EverySecond => i % 2 == 0,
            Thin::FirstHalf => i < n / 2,
            Thin::LastHalf => i >= n / 2,
            Thin::AllBut3 => i % (n / 3).max(1) != 1,
            Thin::Scatter => (i as u64).wrapping_mul(0x9E37_79B9_7F4A_7C15) >> 62 == 0,
        };
        if go {
            if m.remove(k) != model.remove(k) {
                return Err(format!("remove({:?}) disagrees with the reference", k));
            }
            removed.push(*k);
        }
    }
    if c.refill {
        for j in 0..(n / 8) as u64 {
            let t = c.n as u64 + 1 + j;
            let k = BKey { id: t, h: c.plan.hash(t) };
            m.insert(k, t * 10);
            model.insert(k, t * 10);
        }
    }
    same(&m, &model, "after building the table")?;
    Ok((m, model, removed))
}

fn part_lookup(c: &BCase, mut m: M, mut model: Model, removed: Vec<BKey>) -> Result<(), String> {
    for k in &removed {
        if m.get(k).is_some() || m.contains_key(k) || m.get_key_value(k).is_some() {
            return Err(format!("removed key {:?} is still found", k));
        }
    }
    for a in [BKey { id: u64::MAX, h: 0 }, BKey { id: u64::MAX, h: u64::MAX }, BKey { id: u64::MAX, h: c.plan.hash(7) }] {
        if m.get(&a).is_some() {
            return Err(format!("absent key {:?} is found", a));
        }
    }
    let ks: Vec<BKey> = model.keys().copied().collect();
    for (i, k) in ks.iter().enumerate() {
        match m.get_key_value(k) {
            Some((kk, v)) if kk == k && Some(v) == model.get(k) => {}
            other => return Err(format!("get_key_value({:?}) = {:?}", k, other)),
        }
        if i % 3 == 0 {
            let old = m.insert(*k, 7);
            if old != model.insert(*k, 7) {
                return Err(format!("insert over the present key {:?} returned {:?}", k, old));
            }
        } else if i % 3 == 1 {
            *m.get_mut(k).ok_or_else(|| format!("get_mut({:?}) = None", k))? += 1;
            *model.get_mut(k).unwrap() += 1;
        }
    }
    same(&m, &model, "after overwriting and writing through get_mut")?;
    let b0 = buckets(&m);
    m.reserve(3 * c.n);
    if m.capacity() < m.len() + 3 * c.n {
        return Err(format!("reserve({}) left capacity {} with {} elements", 3 * c.n, m.capacity(), m.len()));
    }
    same(&m, &model, "after reserve(3n)")?;
    m.shrink_to_fit();
    same(&m, &model, "after shrink_to_fit")?;
    let (size, align) = hashbrown::verif::table_layout_of::<(BKey, u64)>();
    let want = if model.is_empty() { 0 } else { hashbrown::verif::capacity_to_buckets(model.len(), size, align).unwrap() };
    if buckets(&m) != want {
        return Err(format!("shrink_to_fit left {} buckets for {} elements (before: {b0}; the smallest table has {want})", buckets(&m), model.len()));
    }
    for k in &removed {
        m.insert(*k, 1);
        model.insert(*k, 1);
    }
    same(&m, &model, "after re-inserting the removed keys")?;
    for k in ks.iter().step_by(2) {
        if m.remove_entry(k).map(|e| e.1) != model.remove(k) {
            return Err(format!("remove_entry({:?}) disagrees with the reference", k));
        }
    }
    same(&m, &model, "after removing every second key")
}

fn once_each<I: Iterator<Item = BKey>>(mut it: I, model: &Model, what: &str, exact: bool) -> Result<(), String> {
    let mut seen = BTreeSet::new();
    let mut left = model.len();
    loop {
        let (lo, hi) = it.size_hint();
        if exact && (lo != left || hi != Some(left)) {
            return Err(format!("{what}: size_hint() = ({lo}, {:?}) with {left} elements left", hi));
        }
        match it.next() {
            Some(k) => {
                if !model.contains_key(&k) {
                    return Err(format!("{what} yields {:?}, which is not in the table", k));
                }
                if !seen.insert(k) {
                    return Err(format!("{what} yields {:?} twice", k));
                }
                if left == 0 {
                    return Err(format!("{what} yields more than len() elements"));
                }
                left -= 1;
            }
            None => break,
        }
    }
    if left != 0 {
        return Err(format!("{what} stopped with {left} elements missing"));
    }
    if it.next().is_some() {
        return Err(format!("{what} yields an element after None"));
    }
    Ok(())
}

fn part_iter(_c: &BCase, mut m: M, model: Model) -> Result<(), String> {
    once_each(m.iter().map(|(k, _)| *k), &model, "iter()", true)?;
    once_each(m.keys().copied(), &model, "keys()", true)?;
    once_each(m.iter_mut().map(|(k, _)| *k), &model, "iter_mut()", true)?;
    once_each(m.clone().into_iter().map(|(k, _)| k), &model, "into_iter()", true)?;
    once_each(m.clone().into_keys(), &model, "into_keys()", true)?;
    let vs: BTreeSet<u64> = m.values().copied().collect();
    let want: BTreeSet<u64> = model.values().copied().collect();
    if vs != want || m.values().count() != model.len() {
        return Err("values() disagrees with the reference".into());
    }
    // fold / count / nth against next()
    let by_next: Vec<BKey> = m.iter().map(|(k, _)| *k).collect();
    let by_fold: Vec<BKey> = m.iter().fold(Vec::new(), |mut a, (k, _)| {
        a.push(*k);
        a
    });
    if by_next != by_fold {
        return Err("iter().fold visits a different sequence than next()".into());
    }
    if m.iter().count() != model.len() {
        return Err("iter().count() != len()".into());
    }
    for cut in [1usize, by_next.len() / 3, by_next.len().saturating_sub(1)] {
        if cut >= by_next.len() {
            continue;
        }
        let mut it = m.iter();
        let got = it.nth(cut).map(|(k, _)| *k);
        if got != Some(by_next[cut]) {
            return Err(format!("iter().nth({cut}) = {:?}, next() sequence has {:?}", got, by_next[cut]));
        }
        let rest: Vec<BKey> = it.clone().map(|(k, _)| *k).collect();
        if rest != by_next[cut + 1..] {
            return Err(format!("a clone of iter() taken after {} elements yields a different remainder", cut + 1));
        }
        if it.len() != by_next.len() - cut - 1 {
            return Err(format!("iter().len() = {} after {} elements of {}", it.len(), cut + 1, by_next.len()));
        }
    }
    // values_mut writes land in each element once
    for v in m.values_mut() {
        *v += 1;
    }
    for (k, v) in &model {
        if m.get(k) != Some(&(v + 1)) {
            return Err(format!("values_mut(): element {:?} was not written exactly once", k));
        }
    }
    // drain: everything once, table empty afterwards, allocation kept
    let b0 = buckets(&m);
    let mut d = m.clone();
    once_each(d.drain().map(|(k, _)| k), &model, "drain()", true)?;
    if !d.is_empty() || buckets(&d) != b0 {
        return Err(format!("after drain(): len {} buckets {} (before {b0})", d.len(), buckets(&d)));
    }
    structure(&d, "after drain()")?;
    // HashTable over the same elements: iter and iter_hash
    let mut t: HashTable<BKey> = HashTable::new();
    for k in model.keys() {
        t.insert_unique(k.h, *k, |x| x.h);
    }
    once_each(t.iter().copied(), &model, "HashTable::iter()", true)?;
    let mut hs: Vec<u64> = model.keys().map(|k| k.h).collect();
    hs.sort();
    hs.dedup();
    for &h in hs.iter().take(8).chain(hs.iter().rev().take(8)) {
        let mut seen = BTreeSet::new();
        for k in t.iter_hash(h) {
            if !seen.insert(*k) {
                return Err(format!("iter_hash({h:#x}) yields {:?} twice", k));
            }
            if !model.contains_key(k) {
                return Err(format!("iter_hash({h:#x}) yields {:?}, which is not in the table", k));
            }
        }
        for k in model.keys().filter(|k| k.h == h) {
            if !seen.contains(k) {
                return Err(format!("iter_hash({h:#x}) misses {:?}", k));
            }
        }
    }
    Ok(())
}

fn part_remove(_c: &BCase, m: M, model: Model) -> Result<(), String> {
    let b0 = buckets(&m);
    let preds: [(&str, fn(&BKey) -> bool); 5] = [
        ("even ids", |k| k.id % 2 == 0),
        ("all", |_| true),
        ("none", |_| false),
        ("low hash bit", |k| k.h & 1 == 1),
        ("id % 7 == 3", |k| k.id % 7 == 3),
    ];
    for (name, p) in preds {
        // retain keeps exactly the selected
        let mut r = m.clone();
        let mut calls = 0usize;
        r.retain(|k, _| {
            calls += 1;
            p(k)
        });
        let want: Model = model.iter().filter(|(k, _)| p(k)).map(|(k, v)| (*k, *v)).collect();
        if calls != model.len() {
            return Err(format!("retain({name}) called the predicate {calls} times for {} elements", model.len()));
        }
        same(&r, &want, &format!("after retain({name})"))?;
        if buckets(&r) != b0 {
            return Err(format!("retain({name}) changed the bucket count from {b0} to {}", buckets(&r)));
        }
        // extract_if removes and yields exactly the selected
        let mut e = m.clone();
        let got: Model = e.extract_if(|k, _| p(k)).collect();
        let rest: Model = model.iter().filter(|(k, _)| !p(k)).map(|(k, v)| (*k, *v)).collect();
        if got != want {
            return Err(format!("extract_if({name}) yielded {} elements, {} selected", got.len(), want.len()));
        }
        same(&e, &rest, &format!("after extract_if({name})"))?;
        // partially consumed: exactly the yielded ones are gone
        let mut e = m.clone();
        let take = want.len() / 2;
        let got: Vec<(BKey, u64)> = e.extract_if(|k, _| p(k)).take(take).collect();
        let mut rest = model.clone();
        for (k, v) in &got {
            if rest.remove(k) != Some(*v) {
                return Err(format!("extract_if({name}) yielded ({:?}, {v}) which the table did not hold", k));
            }
        }
        if got.len() != take {
            return Err(format!("extract_if({name}).take({take}) yielded {}", got.len()));
        }
        same(&e, &rest, &format!("after a partially consumed extract_if({name})"))?;
        // the survivors can be churned afterwards
        for k in model.keys().take(40) {
            r.insert(*k, 5);
        }
        let mut want2 = want.clone();
        for k in model.keys().take(40) {
            want2.insert(*k, 5);
        }
        same(&r, &want2, &format!("after inserting into the table left by retain({name})"))?;
    }
    // drain dropped early empties the table
    let mut d = m.clone();
    {
        let mut it = d.drain();
        for _ in 0..model.len() / 3 {
            it.next();
        }
    }
    same(&d, &Model::new(), "after a drain() dropped early")?;
    if buckets(&d) != b0 {
        return Err(format!("drain() changed the bucket count from {b0} to {}", buckets(&d)));
    }
    let mut cl = m.clone();
    cl.clear();
    same(&cl, &Model::new(), "after clear()")?;
    let dd = cl.verif_dump();
    if !dd.is_singleton && dd.growth_left != hashbrown::verif::bucket_mask_to_capacity(dd.bucket_mask) {
        return Err("clear() did not restore the free-slot budget".into());
    }
    Ok(())
}

fn part_clone(c: &BCase, m: M, model: Model) -> Result<(), String> {
    let cl = m.clone();
    same(&cl, &model, "clone()")?;
    if !(cl == m && m == cl) {
        return Err("a clone is not == to its source".into());
    }
    // independence
    let mut c2 = m.clone();
    if let Some(k) = model.keys().next().copied() {
        c2.remove(&k);
        if c2 == m || m == c2 {
            return Err("a clone with one element removed still compares equal".into());
        }
        c2.insert(k, model[&k] + 1);
        if c2 == m {
            return Err("maps that differ in one value compare equal".into());
        }
    }
    c2.insert(BKey { id: u64::MAX - 1, h: c.plan.hash(3) }, 0);
    same(&m, &model, "the source after its clone was modified")?;
    // clone_from into tables of other shapes
    for shape in 0..4 {
        let mut dst: M = match shape {
            0 => HashMap::with_hasher(Ident),
            1 => {
                let mut d = m.clone();
                d.retain(|k, _| k.id % 3 == 0);
                d
            }
            2 => HashMap::with_capacity_and_hasher(4 * c.n + 10, Ident),
            _ => {
                let mut d: M = HashMap::with_hasher(Ident);
                for j in 0..5u64 {
                    d.insert(BKey { id: 1 << 40 | j, h: j }, j);
                }
                d
            }
        };
        dst.clone_from(&m);
        same(&dst, &model, &format!("clone_from into destination shape {shape}"))?;
        if dst != m {
            return Err(format!("clone_from into destination shape {shape}: result != source"));
        }
    }
    // == ignores layout and insertion order
    let mut rev: M = HashMap::with_capacity_and_hasher(3 * c.n + 1, Ident);
    for (k, v) in model.iter().rev() {
        rev.insert(*k, *v);
    }
    if !(rev == m && m == rev) {
        return Err("a map with the same contents built in another order and size does not compare equal".into());
    }
    Ok(())
}

fn part_set(c: &BCase, m: M, model: Model, removed: Vec<BKey>) -> Result<(), String> {
    use hashbrown::HashSet;
    type S = HashSet<BKey, Ident>;
    let a: S = m.keys().copied().collect();
    let ia: BTreeSet<BKey> = model.keys().copied().collect();
    // B: every third key of A, every second removed key, some keys of its own; other capacity, other insertion order
    for (bi, bcap) in [0usize, 4 * c.n].into_iter().enumerate() {
        let mut ib: BTreeSet<BKey> = ia.iter().filter(|k| k.id % 3 == bi as u64).copied().collect();
        ib.extend(removed.iter().step_by(2).copied());
        for j in 0..(c.n as u64 / 5) {
            ib.insert(BKey { id: (1 << 32) + j, h: c.plan.hash(j + 2) });
        }
        let mut b: S = HashSet::with_capacity_and_hasher(bcap, Ident);
        for k in ib.iter().rev() {
            b.insert(*k);
        }
        let empty: S = HashSet::with_hasher(Ident);
        let ie: BTreeSet<BKey> = BTreeSet::new();
        for (x, ix, y, iy, what) in [(&a, &ia, &b, &ib, "A,B"), (&b, &ib, &a, &ia, "B,A"), (&a, &ia, &a, &ia, "A,A"), (&a, &ia, &empty, &ie, "A,{}"), (&empty, &ie, &b, &ib, "{},B")] {
            let chk = |name: &str, got: Vec<BKey>, want: BTreeSet<BKey>| -> Result<(), String> {
                let n = got.len();
                let gs: BTreeSet<BKey> = got.into_iter().collect();
                if gs.len() != n {
                    return Err(format!("{name}({what}) yields an element twice"));
                }
                if gs != want {
                    return Err(format!("{name}({what}) has {} elements, the reference {} (or other elements)", gs.len(), want.len()));
                }
                Ok(())
            };
            chk("union", x.union(y).copied().collect(), ix.union(iy).copied().collect())?;
            chk("intersection", x.intersection(y).copied().collect(), ix.intersection(iy).copied().collect())?;
            chk("difference", x.difference(y).copied().collect(), ix.difference(iy).copied().collect())?;
            chk("symmetric_difference", x.symmetric_difference(y).copied().collect(), ix.symmetric_difference(iy).copied().collect())?;
            chk("operator |", (x | y).into_iter().collect(), ix.union(iy).copied().collect())?;
            chk("operator &", (x & y).into_iter().collect(), ix.intersection(iy).copied().collect())?;
            chk("operator ^", (x ^ y).into_iter().collect(), ix.symmetric_difference(iy).copied().collect())?;
            chk("operator -", (x - y).into_iter().collect(), ix.difference(iy).copied().collect())?;
            for kind in 0..4 {
                let mut z = x.clone();
                let (name, want): (&str, BTreeSet<BKey>) = match kind {
                    0 => {
                        z |= y;
                        ("|=", ix.union(iy).copied().collect())
                    }
                    1 => {
                        z &= y;
                        ("&=", ix.intersection(iy).copied().collect())
                    }
                    2 => {
                        z ^= y;
                        ("^=", ix.symmetric_difference(iy).copied().collect())
                    }
                    _ => {
                        z -= y;
                        ("-=", ix.difference(iy).copied().collect())
                    }
                };
                let d = z.verif_dump();
                inv::check_structure(&d, inv::Which { lawful_hash: true }, &|i| z.verif_bucket(i).map(|k| k.h)).map_err(|e| format!("after {name} ({what}): {e}"))?;
                if z.len() != want.len() {
                    return Err(format!("after {name} ({what}): len() = {}, reference {}", z.len(), want.len()));
                }
                chk(name, z.iter().copied().collect(), want.clone())?;
                for k in &want {
                    if !z.contains(k) {
                        return Err(format!("after {name} ({what}): {:?} is not found", k));
                    }
                }
            }
            if x.is_subset(y) != ix.is_subset(iy) || x.is_superset(y) != ix.is_superset(iy) || x.is_disjoint(y) != ix.is_disjoint(iy) || (x == y) != (ix == iy) {
                return Err(format!("is_subset / is_superset / is_disjoint / == ({what}) disagree with the reference"));
            }
        }
        let sub: S = ia.iter().step_by(3).copied().collect();
        if !sub.is_subset(&a) || !a.is_superset(&sub) || (sub.len() < a.len() && a.is_subset(&sub)) {
            return Err("is_subset / is_superset of a true subset is wrong".into());
        }
    }
    Ok(())
}

fn part_table(c: &BCase, model: Model) -> Result<(), String> {
    // element: (key, copy number); every key twice
    let mut t: HashTable<(BKey, u8)> = HashTable::new();
    let mut ms: Vec<(BKey, u8)> = Vec::new();
    for k in model.keys() {
        for copy in 0..2u8 {
            t.insert_unique(k.h, (*k, copy), |e| e.0.h);
            ms.push((*k, copy));
        }
    }
    let chk = |t: &HashTable<(BKey, u8)>, ms: &Vec<(BKey, u8)>, what: &str| -> Result<(), String> {
        let d = t.verif_dump();
        inv::check_structure(&d, inv::Which { lawful_hash: true }, &|i| t.verif_bucket(i).map(|e| e.0.h)).map_err(|e| format!("{what}: {e}"))?;
        let mut got: Vec<(BKey, u8)> = t.iter().copied().collect();
        let mut want = ms.clone();
        got.sort();
        want.sort();
        if got != want || t.len() != ms.len() {
            return Err(format!("{what}: the table holds {} elements (len() = {}), the reference multiset {}", got.len(), t.len(), want.len()));
        }
        for e in ms {
            if t.find(e.0.h, |x| x == e).is_none() {
                return Err(format!("{what}: element {:?} is not found", e));
            }
        }
        Ok(())
    };
    chk(&t, &ms, "after storing every key twice")?;
    // find_entry + remove takes exactly one copy
    let ks: Vec<BKey> = model.keys().copied().collect();
    for k in ks.iter().step_by(2) {
        match t.find_entry(k.h, |e| e.0 == *k) {
            Ok(o) => {
                let (e, _) = o.remove();
                let p = ms.iter().position(|x| *x == e).ok_or_else(|| format!("find_entry({:?}).remove() returned {:?}, which the table did not hold", k, e))?;
                ms.swap_remove(p);
            }
            Err(_) => return Err(format!("find_entry({:?}) finds neither copy", k)),
        }
    }
    chk(&t, &ms, "after removing one copy of every second key")?;
    // iter_hash: all elements stored with that hash, each once
    for k in ks.iter().take(6).chain(ks.iter().rev().take(6)) {
        let got: Vec<(BKey, u8)> = t.iter_hash(k.h).filter(|e| e.0.h == k.h).copied().collect();
        let mut g = got.clone();
        g.sort();
        g.dedup();
        let want = ms.iter().filter(|e| e.0.h == k.h).count();
        if g.len() != got.len() || got.len() != want {
            return Err(format!("iter_hash({:#x}) yields {} elements with that hash ({} distinct), the table holds {want}", k.h, got.len(), g.len()));
        }
    }
    // entry: occupied for stored keys, vacant insert for new ones
    let nk = BKey { id: 1 << 40, h: c.plan.hash(9) };
    match t.entry(nk.h, |e| e.0 == nk, |e| e.0.h) {
        hashbrown::hash_table::Entry::Vacant(v) => {
            v.insert((nk, 0));
            ms.push((nk, 0));
        }
        hashbrown::hash_table::Entry::Occupied(_) => return Err("entry() of a new key is Occupied".into()),
    }
    if let Some(k) = ks.first() {
        match t.entry(k.h, |e| e.0 == *k, |e| e.0.h) {
            hashbrown::hash_table::Entry::Occupied(_) => {}
            hashbrown::hash_table::Entry::Vacant(_) => return Err(format!("entry() of the stored key {:?} is Vacant", k)),
        }
    }
    chk(&t, &ms, "after entry()")?;
    // get_many_mut on three distinct stored elements; writes land in exactly those
    if ms.len() >= 3 {
        let (e0, e1, e2) = (ms[0], ms[ms.len() / 2], ms[ms.len() - 1]);
        let r = t.get_many_mut([e0.0.h, e1.0.h, e2.0.h], |i, x| *x == [e0, e1, e2][i]);
        match r {
            [Some(a), Some(b), Some(cc)] => {
                a.1 += 10;
                b.1 += 20;
                cc.1 += 30;
            }
            _ => return Err("get_many_mut of three stored elements reports one absent".into()),
        }
        let n = ms.len();
        ms[0].1 += 10;
        ms[n / 2].1 += 20;
        ms[n - 1].1 += 30;
        chk(&t, &ms, "after writing through get_many_mut")?;
    }
    // retain / extract_if / shrink / reserve with the caller's hasher
    t.retain(|e| e.0.id % 5 != 0);
    ms.retain(|e| e.0.id % 5 != 0);
    chk(&t, &ms, "after retain")?;
    let ex: Vec<(BKey, u8)> = t.extract_if(|e| e.1 % 2 == 1).collect();
    let want: Vec<(BKey, u8)> = ms.iter().filter(|e| e.1 % 2 == 1).copied().collect();
    ms.retain(|e| e.1 % 2 != 1);
    if ex.len() != want.len() {
        return Err(format!("extract_if yielded {} elements, {} selected", ex.len(), want.len()));
    }
    chk(&t, &ms, "after extract_if")?;
    t.shrink_to_fit(|e| e.0.h);
    chk(&t, &ms, "after shrink_to_fit")?;
    t.reserve(2 * c.n, |e| e.0.h);
    if t.capacity() < t.len() + 2 * c.n {
        return Err("reserve(2n) gave less capacity than asked".into());
    }
    chk(&t, &ms, "after reserve")?;
    let cl = t.clone();
    chk(&cl, &ms, "clone()")?;
    t.clear();
    chk(&t, &Vec::new(), "after clear()")
}

fn part_many(c: &BCase, mut m: M, mut model: Model, removed: Vec<BKey>) -> Result<(), String> {
    let ks: Vec<BKey> = model.keys().copied().collect();
    if ks.is_empty() {
        return Ok(());
    }
    let n = ks.len();
    let absent = removed.first().copied().unwrap_or(BKey { id: u64::MAX, h: c.plan.hash(1) });
    // by bucket position: the stored keys in the first and the last occupied buckets (and the middle one)
    let d = m.verif_dump();
    let occupied: Vec<BKey> = (0..=d.bucket_mask).filter_map(|i| m.verif_bucket(i).map(|(k, _)| *k)).collect();
    let picks = [occupied[0], occupied[occupied.len() / 2], occupied[occupied.len() - 1], ks[0], ks[n / 2], ks[n - 1], ks[n / 3]];
    let mut stamp = 1000u64;
    for i in 0..picks.len() {
        for j in 0..picks.len() {
            let (a, b) = (picks[i], picks[j]);
            // pairs, with an absent key in between
            let req = [a, absent, b];
            let r = env::catch(|| {
                let got = m.get_many_mut([&req[0], &req[1], &req[2]]);
                let mut out = [None, None, None];
                for (x, g) in got.into_iter().enumerate() {
                    if let Some(v) = g {
                        out[x] = Some(*v);
                        *v = stamp + x as u64;
                    }
                }
                out
            });
            if a == b {
                match r {
                    Err(msg) if msg.contains("duplicate") => {}
                    Err(msg) => return Err(format!("get_many_mut with the same key twice panicked with an unexpected message: {msg}")),
                    Ok(_) => return Err(format!("get_many_mut([{:?}, absent, {:?}]) returned instead of panicking", a, b)),
                }
                continue;
            }
            let out = match r {
                Ok(o) => o,
                Err(msg) => return Err(format!("get_many_mut([{:?}, absent, {:?}]) of two different stored keys panicked: {msg}", a, b)),
            };
            if out[0] != model.get(&a).copied() || out[1].is_some() || out[2] != model.get(&b).copied() {
                return Err(format!("get_many_mut([{:?}, absent, {:?}]) = {:?}, reference has {:?} / None / {:?}", a, b, out, model.get(&a), model.get(&b)));
            }
            model.insert(a, stamp);
            model.insert(b, stamp + 2);
            stamp += 10;
        }
    }
    same(&m, &model, "after writing through get_many_mut")?;
    // a sparse table of the same size: three keys that start at the last bucket (one there, two wrapped around to the
    // first buckets, found through the mirrored trailing control bytes of a window that also contains EMPTY bytes)
    {
        let mut sp: M = HashMap::with_capacity_and_hasher(c.n, Ident);
        let e = |j: u64| BKey { id: (1 << 41) + j, h: WPlan::End.hash(5 * j) };
        let other = BKey { id: (1 << 41) + 9, h: 5 };
        for k in [e(0), e(1), e(2), other] {
            sp.insert(k, k.id);
        }
        let none = BKey { id: (1 << 41) + 10, h: WPlan::End.hash(0) };
        let req = [e(1), other, none, e(0), e(2)];
        let got: [Option<u64>; 5] = sp.get_many_mut([&req[0], &req[1], &req[2], &req[3], &req[4]]).map(|g| g.map(|v| *v));
        for (x, g) in got.into_iter().enumerate() {
            let want = if x == 2 { None } else { Some(req[x].id) };
            if g != want {
                return Err(format!("sparse table, keys that start at the last bucket: get_many_mut request #{x} ({:?}) gave {:?}, get() gives {:?}", req[x], g, sp.get(&req[x])));
            }
        }
        for k in [e(1), e(2)] {
            let r = env::catch(|| sp.get_many_mut([&k, &other, &k]).map(|g| g.map(|v| *v)));
            match r {
                Err(msg) if msg.contains("duplicate") => {}
                other => return Err(format!("sparse table: get_many_mut with the wrapped key {:?} requested twice did not panic with 'duplicate keys': {:?}", k, other)),
            }
        }
    }
    // four keys at once, key-value form
    let req = [picks[0], picks[2], picks[4], picks[5]];
    let mut distinct = req.to_vec();
    distinct.sort();
    distinct.dedup();
    if distinct.len() == 4 {
        let got = m.get_many_key_value_mut([&req[0], &req[1], &req[2], &req[3]]);
        for (x, g) in got.into_iter().enumerate() {
            match g {
                Some((k, v)) if *k == req[x] && Some(&*v) == model.get(&req[x]) => *v += 1,
                other => return Err(format!("get_many_key_value_mut: request #{x} ({:?}) gave {:?}", req[x], other.map(|(k, v)| (*k, *v)))),
            }
        }
        for k in &req {
            *model.get_mut(k).unwrap() += 1;
        }
        same(&m, &model, "after writing through get_many_key_value_mut")?;
    }
    Ok(())
}

pub fn run_case(c: &BCase) -> Result<u64, String> {
    crate::crumbs::touch();
    let (m, model, removed) = build(c)?;
    let n = model.len() as u64;
    match c.part {
        Part::Lookup => part_lookup(c, m, model, removed)?,
        Part::Iter => part_iter(c, m, model)?,
        Part::Remove => part_remove(c, m, model)?,
        Part::Clone => part_clone(c, m, model)?,
        Part::SetAlgebra => part_set(c, m, model, removed)?,
        Part::Table => part_table(c, model)?,
        Part::ManyMut => part_many(c, m, model, removed)?,
    }
    Ok(n)
}

pub fn cases(tier: Tier, part: Part) -> Vec<BCase> {
    let q = tier == Tier::Quick;
    let w = hashbrown::verif::GROUP_WIDTH;
    // 112, 224: tables filled exactly to their capacity (128 and 256 buckets) before the thinning
    let ns: Vec<usize> = if q { vec![112, 130, 40 * w] } else { vec![112, 113, 130, 224, 225, 449, 40 * w, 1000] };
    let plans = [WPlan::Zero, WPlan::Seq, WPlan::Stride, WPlan::Mix, WPlan::Four, WPlan::End];
    let thins = [Thin::None, Thin::EverySecond, Thin::FirstHalf, Thin::LastHalf, Thin::AllBut3, Thin::Scatter];
    let mut v = Vec::new();
    for &n in &ns {
        for &plan in &plans {
            for &thin in &thins {
                for refill in [false, true] {
                    if thin == Thin::None && refill {
                        continue;
                    }
                    v.push(BCase { n, plan, thin, refill, part });
                }
            }
        }
    }
    v
}

pub struct WideBattery {
    pub tier: Tier,
    pub part: Part,
}

impl Config for WideBattery {
    fn label(&self) -> String {
        format!("wide-table-battery-{:?}", self.part).to_lowercase()
    }
    fn run(&self) -> ConfigReport {
        crate::crumbs::set_config(&self.label());
        let t0 = std::time::Instant::now();
        let cs = cases(self.tier, self.part);
        let next = std::sync::atomic::AtomicUsize::new(0);
        let (ran, elems) = (AtomicU64::new(0), AtomicU64::new(0));
        let viol: Mutex<Option<(Value, String)>> = Mutex::new(None);
        let capped = std::sync::atomic::AtomicBool::new(false);
        let wall_cap = if self.tier == Tier::Quick { 60.0 } else { 900.0 };
        std::thread::scope(|sc| {
            for w in 0..explore::nthreads() {
                let (cs, next, ran, elems, viol, capped) = (&cs, &next, &ran, &elems, &viol, &capped);
                sc.spawn(move || {
                    env::WORKER.with(|c| c.set(w));
                    loop {
                        let i = next.fetch_add(1, Ordering::Relaxed);
                        if i >= cs.len() || viol.lock().unwrap().is_some() {
                            break;
                        }
                        if t0.elapsed().as_secs_f64() > wall_cap {
                            capped.store(true, Ordering::Relaxed);
                            break;
                        }
                        crate::crumbs::set_replay(&json!({"case": cs[i]}).to_string());
                        match env::catch(|| run_case(&cs[i])) {
                            Ok(Ok(n)) => {
                                ran.fetch_add(1, Ordering::Relaxed);
                                elems.fetch_add(n, Ordering::Relaxed);
                            }
                            Ok(Err(m)) => {
                                *viol.lock().unwrap() = Some((json!({"case": cs[i]}), m));
                            }
                            Err(m) => {
                                *viol.lock().unwrap() = Some((json!({"case": cs[i]}), format!("unexpected panic: {m}")));
                            }
                        }
                    }
                    crate::crumbs::clear();
                });
            }
        });
        let mut rep = ConfigReport {
            label: self.label(),
            mode: "enum(table scripts: size x hash plan x thinning x refill, fixed battery each)".into(),
            states: cs.len() as u64,
            executions: ran.load(Ordering::Relaxed),
            transitions: ran.load(Ordering::Relaxed),
            exhaustive: !capped.load(Ordering::Relaxed),
            cap: if capped.load(Ordering::Relaxed) { Some(format!("wall cap {wall_cap}s")) } else { None },
            wall_s: t0.elapsed().as_secs_f64(),
            ..Default::default()
        };
        rep.detail = json!({"tables": cs.len(), "tables_run": rep.executions, "elements_in_tables": elems.load(Ordering::Relaxed),
            "note": "deterministic scripted tables beyond the sizes of the closed searches; not a closure of interleavings"});
        if let Some(c) = cs.get(cs.len() / 3) {
            rep.samples.push(json!({"case": c}));
        }
        if let Some((rp, m)) = viol.into_inner().unwrap() {
            if m.starts_with("MACHINERY") {
                rep.machinery_error = Some(m);
            } else {
                rep.violations.push(Viol { config: self.label(), message: m, replay: rp });
            }
        }
        rep
    }
    fn replay(&self, rp: &Value) -> Result<(), String> {
        let c: BCase = serde_json::from_value(rp["case"].clone()).map_err(|e| format!("MACHINERY: bad replay: {e}"))?;
        match env::catch(|| run_case(&c)) {
            Ok(r) => r.map(|_| ()),
            Err(m) => Err(format!("unexpected panic: {m}")),
        }
    }
}
