//! C13 beyond the one-byte key universe: scripted churn on tables of hundreds of live elements.
//!
//! The closed churn spaces of `c08.rs` enumerate every interleaving, but only for tables of at most 64
//! buckets. Mechanisms that key on absolute distances (a probe that is "too long", a displacement measured
//! in groups) cannot fire there. This configuration enumerates a finite grid instead:
//! live size x hash plan x removal pattern x insertion API, each cell a deterministic insert/remove history
//! of `rounds * n` steps, with the memory bound, the no-growth-while-half-empty rule and the model checked
//! after every step and the structure invariants and lookups (present and absent keys) at regular intervals.
//! It is an enumeration of scripts, not a closure of all interleavings, and is reported as such.

use crate::env;
use crate::explore;
use crate::inv;
use crate::props::Tier;
use crate::report::{Config, ConfigReport, Viol};
use hashbrown::{HashMap, HashTable};
use serde::{Deserialize, Serialize};
use serde_json::{json, Value};
use std::collections::VecDeque;
use std::hash::{BuildHasher, Hash, Hasher};
use std::sync::atomic::{AtomicU64, Ordering};
use std::sync::Mutex;

#[derive(Clone, Copy, Debug, PartialEq, Eq)]
struct WKey {
    id: u64,
    h: u64,
}
impl Hash for WKey {
    fn hash<H: Hasher>(&self, s: &mut H) {
        s.write_u64(self.h);
    }
}
#[derive(Clone, Default)]
struct Ident;
struct IdentHasher(u64);
impl Hasher for IdentHasher {
    fn write(&mut self, _: &[u8]) {
        unreachable!("keys write one u64");
    }
    fn write_u64(&mut self, v: u64) {
        self.0 = v;
    }
    fn finish(&self) -> u64 {
        self.0
    }
}
impl BuildHasher for Ident {
    type Hasher = IdentHasher;
    fn build_hasher(&self) -> IdentHasher {
        IdentHasher(0)
    }
}

#[derive(Clone, Copy, Debug, Serialize, Deserialize, PartialEq, Eq)]
pub enum WPlan {
    /// every key has hash 0 (one probe chain, one tag)
    Zero,
    /// consecutive probe starts, one tag
    Seq,
    /// every new key starts at the next group
    Stride,
    /// well-mixed (position and tag)
    Mix,
    /// four probe starts half a table apart
    Four,
    /// every key starts at the last bucket of the table, whatever its size (probe windows wrap around the end of
    /// the control bytes; the first stored elements are found through the mirrored trailing bytes); five tags
    End,
}
impl WPlan {
    pub fn hash(self, t: u64) -> u64 {
        match self {
            WPlan::Zero => 0,
            WPlan::Seq => 4096 + t,
            WPlan::Stride => t * hashbrown::verif::GROUP_WIDTH as u64,
            WPlan::Mix => t.wrapping_mul(0x9E37_79B9_7F4A_7C15),
            WPlan::Four => (t % 4) * 0x100 + ((t % 3) << 57),
            WPlan::End => ((1u64 << 57) - 1) | ((t % 5) << 57),
        }
    }
}

#[derive(Clone, Copy, Debug, Serialize, Deserialize, PartialEq, Eq)]
pub enum Pattern {
    /// remove the oldest, insert a new one
    Fifo,
    /// remove the youngest, insert a new one
    Lifo,
    /// remove the older half, then refill
    Saw,
    /// remove everything, then refill
    Flush,
    /// a quarter of the elements are residents with hash 0 replaced youngest-first, the rest a FIFO window
    Mixed,
    /// FIFO with a `shrink_to_fit` every 37 steps (mostly unable to shrink: it must then change nothing)
    FifoShrink,
}

#[derive(Clone, Copy, Debug, Serialize, Deserialize, PartialEq, Eq)]
pub enum Api {
    /// HashMap::insert / remove
    Map,
    /// HashMap::entry().or_insert / remove_entry
    MapEntry,
    /// HashTable::insert_unique / find_entry().remove()
    TableUnique,
    /// HashTable::entry().or_insert / find_entry().remove()
    TableEntry,
}

#[derive(Clone, Copy, Debug, Serialize, Deserialize)]
pub struct WCase {
    pub n: usize,
    pub plan: WPlan,
    pub pattern: Pattern,
    pub api: Api,
    pub rounds: usize,
}

enum Tab {
    Map(HashMap<WKey, u64, Ident>),
    Table(HashTable<WKey>),
}

struct Sys {
    tab: Tab,
    api: Api,
    live: usize,
    n: usize,
    base: usize,
    steps: u64,
    max_buckets: usize,
    in_place: u64,
    grew: u64,
}

impl Sys {
    fn dump(&self) -> hashbrown::verif::TableDump {
        match &self.tab {
            Tab::Map(m) => m.verif_dump(),
            Tab::Table(t) => t.verif_dump(),
        }
    }
    fn len(&self) -> usize {
        match &self.tab {
            Tab::Map(m) => m.len(),
            Tab::Table(t) => t.len(),
        }
    }
    fn contains(&self, k: &WKey) -> bool {
        match &self.tab {
            Tab::Map(m) => m.get(k) == Some(&k.id),
            Tab::Table(t) => t.find(k.h, |x| x.id == k.id).is_some(),
        }
    }
    fn after(&mut self, pre: &hashbrown::verif::TableDump, what: &str, k: &WKey, inserted: bool) -> Result<(), String> {
        self.steps += 1;
        if self.steps % 256 == 0 {
            crate::crumbs::touch();
        }
        let post = self.dump();
        let buckets = if post.is_singleton { 0 } else { post.bucket_mask + 1 };
        self.max_buckets = self.max_buckets.max(buckets);
        if self.len() != self.live || post.items != self.live {
            return Err(format!("step {}: {what} {:?}: len() = {}, items = {}, reference holds {}", self.steps, k, self.len(), post.items, self.live));
        }
        if buckets > 4 * self.base {
            return Err(format!(
                "step {}: {what} {:?}: the table has {} buckets although at most {} elements were ever live ({} buckets hold that many; bound {}): churn drives growth",
                self.steps, k, buckets, self.n, self.base, 4 * self.base
            ));
        }
        if inserted && !pre.is_singleton {
            if post.bucket_mask > pre.bucket_mask {
                self.grew += 1;
                let full_cap = hashbrown::verif::bucket_mask_to_capacity(pre.bucket_mask);
                if pre.items + 1 <= full_cap / 2 {
                    return Err(format!(
                        "step {}: removals drive growth: inserting {:?} grew the table from {} to {} buckets although it held only {} live elements (capacity {}, {} removed-slot markers): freed slots were not reclaimed in place",
                        self.steps, k, pre.bucket_mask + 1, post.bucket_mask + 1, pre.items, full_cap, inv::count_deleted(pre)
                    ));
                }
            } else if post.bucket_mask < pre.bucket_mask {
                return Err(format!("step {}: inserting {:?} shrank the table from {} to {} buckets", self.steps, k, pre.bucket_mask + 1, post.bucket_mask + 1));
            } else if inv::count_deleted(&post) + 1 < inv::count_deleted(pre) {
                self.in_place += 1;
                if inv::count_deleted(&post) != 0 {
                    return Err(format!("step {}: an in-place rehash left {} removed-slot markers behind", self.steps, inv::count_deleted(&post)));
                }
            }
        }
        if !inserted && post.bucket_mask != pre.bucket_mask {
            return Err(format!("step {}: removing {:?} changed the bucket count from {} to {}", self.steps, k, pre.bucket_mask + 1, post.bucket_mask + 1));
        }
        Ok(())
    }
    fn insert(&mut self, k: WKey) -> Result<(), String> {
        let pre = self.dump();
        let fresh = match (&mut self.tab, self.api) {
            (Tab::Map(m), Api::Map) => m.insert(k, k.id).is_none(),
            (Tab::Map(m), _) => match m.entry(k) {
                hashbrown::hash_map::Entry::Occupied(_) => false,
                hashbrown::hash_map::Entry::Vacant(v) => {
                    v.insert(k.id);
                    true
                }
            },
            (Tab::Table(t), Api::TableUnique) => {
                t.insert_unique(k.h, k, |x| x.h);
                true
            }
            (Tab::Table(t), _) => match t.entry(k.h, |x| x.id == k.id, |x| x.h) {
                hashbrown::hash_table::Entry::Occupied(_) => false,
                hashbrown::hash_table::Entry::Vacant(v) => {
                    v.insert(k);
                    true
                }
            },
        };
        if !fresh {
            return Err(format!("step {}: inserting the new key {:?} found it present", self.steps, k));
        }
        self.live += 1;
        self.after(&pre, "insert", &k, true)
    }
    fn remove(&mut self, k: WKey) -> Result<(), String> {
        let pre = self.dump();
        let ok = match (&mut self.tab, self.api) {
            (Tab::Map(m), Api::Map) => m.remove(&k) == Some(k.id),
            (Tab::Map(m), _) => m.remove_entry(&k) == Some((k, k.id)),
            (Tab::Table(t), _) => match t.find_entry(k.h, |x| x.id == k.id) {
                Ok(e) => e.remove().0 == k,
                Err(_) => false,
            },
        };
        if !ok {
            return Err(format!("step {}: removing the live key {:?} did not find it", self.steps, k));
        }
        self.live -= 1;
        self.after(&pre, "remove", &k, false)
    }
    fn shrink(&mut self) -> Result<(), String> {
        let pre = self.dump();
        match &mut self.tab {
            Tab::Map(m) => m.shrink_to_fit(),
            Tab::Table(t) => t.shrink_to_fit(|x| x.h),
        }
        let post = self.dump();
        if post.bucket_mask > pre.bucket_mask || post.items != pre.items {
            return Err(format!("step {}: shrink_to_fit went from {} buckets / {} elements to {} / {}", self.steps, pre.bucket_mask + 1, pre.items, post.bucket_mask + 1, post.items));
        }
        let usable = inv::count_empty(&post);
        if post.growth_left > usable {
            return Err(format!(
                "step {}: after shrink_to_fit the table claims room for {} more elements but has only {} never-used slots ({} removed-slot markers): insertions can fill the last EMPTY slot and probes will not terminate",
                self.steps, post.growth_left, usable, inv::count_deleted(&post)
            ));
        }
        Ok(())
    }
    /// structure invariants, every live key found, absent keys of every flavour not found (and the lookups return)
    fn audit(&self, live: &mut dyn Iterator<Item = WKey>, plan: WPlan, t: u64) -> Result<(), String> {
        crate::crumbs::touch();
        let d = self.dump();
        match &self.tab {
            Tab::Map(m) => inv::check_structure(&d, inv::Which { lawful_hash: true }, &|i| m.verif_bucket(i).map(|(k, _)| k.h))?,
            Tab::Table(tb) => inv::check_structure(&d, inv::Which { lawful_hash: true }, &|i| tb.verif_bucket(i).map(|k| k.h))?,
        }
        let mut cnt = 0;
        for k in live {
            cnt += 1;
            if !self.contains(&k) {
                return Err(format!("step {}: live key {:?} is not found", self.steps, k));
            }
        }
        if cnt != self.len() {
            return Err(format!("step {}: reference holds {} keys, len() = {}", self.steps, cnt, self.len()));
        }
        for a in [WKey { id: u64::MAX, h: 0 }, WKey { id: u64::MAX, h: plan.hash(t + 1) }, WKey { id: u64::MAX, h: plan.hash(t / 2) }, WKey { id: u64::MAX, h: u64::MAX }] {
            if self.contains(&a) {
                return Err(format!("step {}: absent key {:?} is found", self.steps, a));
            }
        }
        Ok(())
    }
}

pub struct Outcome {
    pub steps: u64,
    pub max_buckets: usize,
    pub in_place: u64,
    pub grew: u64,
}

pub fn run_case(c: &WCase) -> Result<Outcome, String> {
    let (size, align) = match c.api {
        Api::Map | Api::MapEntry => hashbrown::verif::table_layout_of::<(WKey, u64)>(),
        _ => hashbrown::verif::table_layout_of::<WKey>(),
    };
    let base = hashbrown::verif::capacity_to_buckets(c.n, size, align).ok_or("MACHINERY: capacity overflow")?;
    let tab = match c.api {
        Api::Map | Api::MapEntry => Tab::Map(HashMap::with_hasher(Ident)),
        _ => Tab::Table(HashTable::new()),
    };
    let mut s = Sys { tab, api: c.api, live: 0, n: c.n, base, steps: 0, max_buckets: 0, in_place: 0, grew: 0 };
    let mut next_id = 0u64;
    let mut t = 0u64;
    let mut fresh = |h: u64| {
        next_id += 1;
        WKey { id: next_id, h }
    };
    let residents_n = if c.pattern == Pattern::Mixed { c.n / 4 } else { 0 };
    let mut residents: Vec<WKey> = Vec::new();
    let mut window: VecDeque<WKey> = VecDeque::new();
    for _ in 0..residents_n {
        let k = fresh(0);
        s.insert(k)?;
        residents.push(k);
    }
    for _ in residents_n..c.n {
        t += 1;
        let k = fresh(c.plan.hash(t));
        s.insert(k)?;
        window.push_back(k);
    }
    let audit_every = (c.n / 2).max(16);
    let total = c.rounds * c.n;
    let mut i = 0usize;
    while i < total {
        match c.pattern {
            Pattern::Fifo | Pattern::Mixed | Pattern::FifoShrink => {
                let old = window.pop_front().unwrap();
                s.remove(old)?;
                t += 1;
                let k = fresh(c.plan.hash(t));
                s.insert(k)?;
                window.push_back(k);
                if c.pattern == Pattern::Mixed {
                    let old = residents.pop().unwrap();
                    s.remove(old)?;
                    let k = fresh(0);
                    s.insert(k)?;
                    residents.push(k);
                }
                if c.pattern == Pattern::FifoShrink && i % 37 == 5 {
                    s.shrink()?;
                    s.audit(&mut residents.iter().chain(window.iter()).copied(), c.plan, t)?;
                }
                i += 1;
            }
            Pattern::Lifo => {
                let old = window.pop_back().unwrap();
                s.remove(old)?;
                t += 1;
                let k = fresh(c.plan.hash(t));
                s.insert(k)?;
                window.push_back(k);
                i += 1;
            }
            Pattern::Saw | Pattern::Flush => {
                let k = if c.pattern == Pattern::Saw { c.n / 2 } else { c.n };
                for _ in 0..k {
                    let old = window.pop_front().unwrap();
                    s.remove(old)?;
                }
                s.audit(&mut residents.iter().chain(window.iter()).copied(), c.plan, t)?;
                for _ in 0..k {
                    t += 1;
                    let nk = fresh(c.plan.hash(t));
                    s.insert(nk)?;
                    window.push_back(nk);
                }
                i += k.max(1);
            }
        }
        if i % audit_every == 0 {
            s.audit(&mut residents.iter().chain(window.iter()).copied(), c.plan, t)?;
        }
    }
    s.audit(&mut residents.iter().chain(window.iter()).copied(), c.plan, t)?;
    Ok(Outcome { steps: s.steps, max_buckets: s.max_buckets, in_place: s.in_place, grew: s.grew })
}

pub fn cases(tier: Tier) -> Vec<WCase> {
    let q = tier == Tier::Quick;
    let w = hashbrown::verif::GROUP_WIDTH;
    // live sizes: just below / above the capacities 7/8 * 2^k of 256 .. 2048 buckets, and one far from any
    let ns: Vec<usize> = if q { vec![100, 449, 40 * w] } else { vec![57, 100, 224, 225, 448, 449, 40 * w, 897, 1500] };
    let plans = [WPlan::Zero, WPlan::Seq, WPlan::Stride, WPlan::Mix, WPlan::Four, WPlan::End];
    let patterns = [Pattern::Fifo, Pattern::Lifo, Pattern::Saw, Pattern::Flush, Pattern::Mixed, Pattern::FifoShrink];
    let apis = [Api::Map, Api::MapEntry, Api::TableUnique, Api::TableEntry];
    let mut v = Vec::new();
    for &n in &ns {
        for &plan in &plans {
            for &pattern in &patterns {
                for &api in &apis {
                    // all-colliding plans cost O(n) per operation
                    let rounds = if q { 24 } else { 60 };
                    v.push(WCase { n, plan, pattern, api, rounds });
                }
            }
        }
    }
    v
}

pub struct WideChurn {
    pub tier: Tier,
}

impl Config for WideChurn {
    fn label(&self) -> String {
        "wide-churn-scripts".into()
    }
    fn run(&self) -> ConfigReport {
        crate::crumbs::set_config(&self.label());
        let t0 = std::time::Instant::now();
        let cs = cases(self.tier);
        let next = std::sync::atomic::AtomicUsize::new(0);
        let (ran, steps, inplace, grew, maxb) = (AtomicU64::new(0), AtomicU64::new(0), AtomicU64::new(0), AtomicU64::new(0), AtomicU64::new(0));
        let viol: Mutex<Option<(Value, String)>> = Mutex::new(None);
        let capped = std::sync::atomic::AtomicBool::new(false);
        let wall_cap = if self.tier == Tier::Quick { 60.0 } else { 1200.0 };
        std::thread::scope(|sc| {
            for w in 0..explore::nthreads() {
                let (cs, next, ran, steps, inplace, grew, maxb, viol, capped) = (&cs, &next, &ran, &steps, &inplace, &grew, &maxb, &viol, &capped);
                sc.spawn(move || {
                    env::WORKER.with(|c| c.set(w));
                    loop {
                        let i = next.fetch_add(1, Ordering::Relaxed);
                        if i >= cs.len() || viol.lock().unwrap().is_some() {
                            break;
                        }
                        if t0.elapsed().as_secs_f64() > wall_cap {
                            capped.store(true, Ordering::Relaxed);
                            break;
                        }
                        crate::crumbs::set_replay(&json!({"case": cs[i]}).to_string());
                        match env::catch(|| run_case(&cs[i])) {
                            Ok(Ok(o)) => {
                                ran.fetch_add(1, Ordering::Relaxed);
                                steps.fetch_add(o.steps, Ordering::Relaxed);
                                inplace.fetch_add(o.in_place, Ordering::Relaxed);
                                grew.fetch_add(o.grew, Ordering::Relaxed);
                                maxb.fetch_max(o.max_buckets as u64, Ordering::Relaxed);
                            }
                            Ok(Err(m)) => {
                                *viol.lock().unwrap() = Some((json!({"case": cs[i]}), m));
                            }
                            Err(m) => {
                                *viol.lock().unwrap() = Some((json!({"case": cs[i]}), format!("unexpected panic: {m}")));
                            }
                        }
                    }
                    crate::crumbs::clear();
                });
            }
        });
        let mut rep = ConfigReport {
            label: self.label(),
            mode: "enum(churn scripts: live size x hash plan x removal pattern x API)".into(),
            states: steps.load(Ordering::Relaxed),
            executions: ran.load(Ordering::Relaxed),
            transitions: steps.load(Ordering::Relaxed),
            exhaustive: !capped.load(Ordering::Relaxed),
            cap: if capped.load(Ordering::Relaxed) { Some(format!("wall cap {wall_cap}s")) } else { None },
            wall_s: t0.elapsed().as_secs_f64(),
            ..Default::default()
        };
        rep.detail = json!({"scripts": cs.len(), "scripts_run": rep.executions, "steps_checked": steps.load(Ordering::Relaxed),
            "in_place_rehashes": inplace.load(Ordering::Relaxed), "growths": grew.load(Ordering::Relaxed),
            "max_buckets_observed": maxb.load(Ordering::Relaxed),
            "note": "deterministic scripts, one per grid cell; not a closure of all interleavings (those are the *-churn configurations)"});
        if let Some(c) = cs.get(cs.len() / 3) {
            rep.samples.push(json!({"case": c}));
        }
        if let Some((rp, m)) = viol.into_inner().unwrap() {
            if m.starts_with("MACHINERY") {
                rep.machinery_error = Some(m);
            } else {
                rep.violations.push(Viol { config: self.label(), message: m, replay: rp });
            }
        } else if inplace.load(Ordering::Relaxed) == 0 {
            rep.machinery_error = Some("anti-vacuity: no churn script triggered an in-place rehash".into());
        }
        rep
    }
    fn replay(&self, rp: &Value) -> Result<(), String> {
        let c: WCase = serde_json::from_value(rp["case"].clone()).map_err(|e| format!("MACHINERY: bad replay: {e}"))?;
        match env::catch(|| run_case(&c)) {
            Ok(r) => r.map(|_| ()),
            Err(m) => Err(format!("unexpected panic: {m}")),
        }
    }
}
