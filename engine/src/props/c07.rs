//! C07: HashSet and its set algebra equal mathematical sets for all pairs of sets.

use crate::explore::Limits;
use crate::keys::*;
use crate::report::{BfsConfig, Config, Tier};
use crate::setsut::*;

fn lim(tier: Tier) -> Limits {
    Limits {
        max_wall_s: if tier == Tier::Quick { 30.0 } else { 600.0 },
        max_states: if tier == Tier::Quick { 200_000 } else { 3_000_000 },
        ..Default::default()
    }
}

pub fn single(plan: Plan, universe: u8, tier: Tier) -> Box<dyn Config> {
    let mut c = SetCfg::new(plan, universe);
    c.max_buckets = if super::width() == 16 { 64 } else { 32 };
    let label = c.label();
    Box::new(BfsConfig::new(label, SetHarness::new(c), lim(tier)))
}

pub fn pairs(pa: Plan, ua: u8, pb: Plan, ub: u8, alt: bool, tier: Tier) -> Box<dyn Config> {
    // no symmetry reduction here: which ids two sets share is exactly what the algebra depends on
    let w = super::width();
    let (big, gw, fill): (u8, u8, u8) = if w == 16 { (30, 16, 28) } else { (16, 8, 14) };
    let mut ca = SetCfg::new(pa, big);
    ca.ops_universe = Some(ua);
    ca.reduce = false;
    ca.full_alphabet = false;
    ca.max_buckets = 32;
    let mut cb = SetCfg::new(pb, big);
    cb.ops_universe = Some(ub);
    cb.reduce = false;
    cb.full_alphabet = false;
    cb.max_buckets = 32;
    cb.alt_hasher = alt;
    let label = format!("pairs-{}-ops{}-x-{}-ops{}{}", ca.label(), ua, cb.label(), ub, if alt { "-althasher" } else { "" });
    // full-window, full-load and tombstone-saturated sets take part in every pair
    let ins = |n: u8| (0..n).map(SetOp::Insert).collect::<Vec<_>>();
    let mut extra = vec![ins(gw + 1), ins(fill)];
    for removed in [gw / 2, fill / 2, fill - 3] {
        let mut h = ins(fill);
        h.extend((0..removed).map(SetOp::Remove));
        extra.push(h);
    }
    let mut h = ins(fill);
    h.extend((0..fill).filter(|i| i % 2 == 1).map(SetOp::Remove));
    extra.push(h);
    Box::new(SetPairs {
        label,
        ha: SetHarness::new(ca),
        hb: SetHarness::new(cb),
        limits: lim(tier),
        max_states: if tier == Tier::Quick { 1500 } else { 20000 },
        wall_cap: if tier == Tier::Quick { 40.0 } else { 1200.0 },
        extra,
    })
}

/// Scripted deep sets (full windows, full load, tombstones), then a depth-bounded search with the full alphabet.
fn seeded(plan: Plan, depth: u32, tier: Tier) -> Box<dyn Config> {
    let w = super::width();
    let (gw, fill): (u8, u8) = if w == 16 { (16, 28) } else { (8, 14) };
    let mut c = SetCfg::new(plan, fill + 2);
    c.max_buckets = if w == 16 { 64 } else { 32 };
    let label = format!("{}-seeded-d{}", c.label(), depth);
    let mut l = lim(tier);
    l.max_depth = Some(depth);
    let mut b = BfsConfig::new(label, SetHarness::new(c), l);
    let ins = |n: u8| (0..n).map(SetOp::Insert).collect::<Vec<_>>();
    let mut seeds = vec![ins(gw + 1), ins(fill)];
    for removed in [1u8, gw / 2, fill / 2, fill - 8] {
        let mut h = ins(fill);
        h.extend((0..removed).map(SetOp::Remove));
        seeds.push(h);
    }
    let mut h = ins(fill);
    h.extend((0..fill).filter(|i| i % 2 == 1).map(SetOp::Remove));
    seeds.push(h);
    b.seeds = seeds;
    Box::new(b)
}

pub fn configs(tier: Tier) -> Vec<Box<dyn Config>> {
    let sse2 = super::width() == 16;
    let q = tier == Tier::Quick;
    let mut v = Vec::new();
    v.push(Box::new(super::widebattery::WideBattery { tier, part: super::widebattery::Part::SetAlgebra }) as Box<dyn Config>);
    for plan in [Plan::Zero, Plan::Tail] {
        v.push(seeded(plan, if q { 1 } else { 2 }, tier));
    }
    if sse2 {
        v.push(single(Plan::Zero, if q { 6 } else { 12 }, tier));
        v.push(single(Plan::Seq, if q { 4 } else { 6 }, tier));
        v.push(pairs(Plan::Seq, if q { 4 } else { 5 }, Plan::Seq, if q { 4 } else { 5 }, false, tier));
        v.push(pairs(Plan::Zero, if q { 4 } else { 5 }, Plan::Mix, if q { 4 } else { 5 }, true, tier));
    } else {
        v.push(single(Plan::Zero, if q { 6 } else { 11 }, tier));
        v.push(single(Plan::Cluster(2), if q { 5 } else { 8 }, tier));
        v.push(pairs(Plan::Zero, if q { 4 } else { 5 }, Plan::Zero, if q { 4 } else { 5 }, false, tier));
        v.push(pairs(Plan::Seq, 4, Plan::Max, 4, true, tier));
    }
    v
}
