//! C01: HashMap equals a sequential key-value map for every history and hasher.

use crate::explore::{Limits, Mech};
use crate::keys::*;
use crate::mapsut::*;
use crate::report::{BfsConfig, Config, Tier};

fn lim(tier: Tier, depth: Option<u32>) -> Limits {
    Limits {
        max_depth: depth,
        max_wall_s: if tier == Tier::Quick { 40.0 } else { 1500.0 },
        max_states: if tier == Tier::Quick { 400_000 } else { 6_000_000 },
        ..Default::default()
    }
}

pub fn closed(plan: Plan, universe: u8, tier: Tier) -> Box<dyn Config> {
    let mut c = MapCfg::new(plan, universe);
    c.max_buckets = if super::width() == 16 { 64 } else { 32 };
    let label = c.label();
    Box::new(BfsConfig::new(label, MapHarness::<TKey, TVal>::new(c), lim(tier, None)))
}

/// Closed search (core alphabet) with the wrapper-level API probes in every state.
fn closed_wrappers<K: KeyT, V: ValT>(plan: Plan, universe: u8, tier: Tier) -> Box<dyn Config> {
    let mut c = MapCfg::new(plan, universe);
    c.max_buckets = if super::width() == 16 { 64 } else { 32 };
    c.alphabet = Alphabet::core();
    c.probes = vec![Probe::Wrappers];
    let label = format!("{}-{}-wrappers", c.label(), K::NAME);
    Box::new(BfsConfig::new(label, MapHarness::<K, V>::new(c), lim(tier, None)))
}

/// Closed search with the state-changing core alphabet (reaches deeper tables).
fn closed_core(plan: Plan, universe: u8, tier: Tier, need_inplace: bool) -> Box<dyn Config> {
    let mut c = MapCfg::new(plan, universe);
    c.max_buckets = if super::width() == 16 { 64 } else { 32 };
    c.alphabet = Alphabet::core();
    let label = format!("{}-core", c.label());
    let mut b = BfsConfig::new(label, MapHarness::<TKey, TVal>::new(c), lim(tier, None));
    if need_inplace {
        b.post = Some(Box::new(|_o, stats| {
            if stats.get(Mech::RehashInPlace) == 0 || stats.get(Mech::TombstoneReused) == 0 {
                return Err("anti-vacuity: no in-place rehash / tombstone reuse in this space".into());
            }
            Ok(serde_json::json!({}))
        }));
    }
    Box::new(b)
}

/// Scripted deep states (full windows, full load, tombstone-saturated), then a
/// depth-bounded search with the given alphabet.
pub fn seeds_for(width: usize) -> Vec<Vec<MapOp>> {
    let (w, fill) = if width == 16 { (16u8, 28u8) } else { (8u8, 14u8) };
    let ins = |n: u8| (0..n).map(MapOp::Insert).collect::<Vec<_>>();
    let mut v = vec![ins(w + 1), ins(fill), ins(fill / 2)];
    // (fill - 1: only the last inserted, displaced element remains; fill: every slot is a tombstone)
    let mut h = ins(w + 1);
    h.extend((0..w).map(MapOp::Remove));
    v.push(h);
    for removed in [1u8, w / 2, fill / 2, fill - 8, fill - 1, fill] {
        let mut h = ins(fill);
        h.extend((0..removed).map(MapOp::Remove));
        v.push(h);
    }
    // grown one size further, then thinned to about one group (shrinking decisions at the group-width boundary)
    for left in [w + 1, w, w - 1] {
        let mut h = ins(fill + 2);
        h.extend((left..fill + 2).map(MapOp::Remove));
        v.push(h);
    }
    // suffix removal, every-other removal
    let mut h = ins(fill);
    h.extend((fill / 2..fill).map(MapOp::Remove));
    v.push(h);
    let mut h = ins(fill);
    h.extend((0..fill).filter(|i| i % 2 == 1).map(MapOp::Remove));
    v.push(h);
    v
}

fn seeded(tier: Tier, full: bool, depth: u32) -> Box<dyn Config> {
    seeded_plan(Plan::Zero, tier, full, depth)
}

/// The same seeds under another plan (MAX: every probe window crosses the
/// mirrored tail and wraps around the end of the control bytes).
fn seeded_plan(plan: Plan, tier: Tier, full: bool, depth: u32) -> Box<dyn Config> {
    let w = super::width();
    let mut c = MapCfg::new(plan, if w == 16 { 30 } else { 16 });
    c.max_buckets = if w == 16 { 64 } else { 32 };
    if !full {
        c.alphabet = Alphabet::core();
    }
    let label = format!("{}-seeded-{}-d{}", c.label(), if full { "full" } else { "core" }, depth);
    let mut b = BfsConfig::new(label, MapHarness::<TKey, TVal>::new(c), lim(tier, Some(depth)));
    b.seeds = seeds_for(w);
    b.post = Some(Box::new(|_o, stats| {
        if stats.get(Mech::RehashInPlace) == 0 || stats.get(Mech::TombstoneCreated) == 0 {
            return Err("anti-vacuity: the seeded neighbourhoods contain no in-place rehash / tombstone".into());
        }
        Ok(serde_json::json!({}))
    }));
    Box::new(b)
}

/// Collision chains that reach the third and fourth group of the probe sequence (where the triangular sequence
/// departs from a linear one), built through several growths; tombstones inside such chains.
pub fn long_chain(plan: Plan, tier: Tier) -> Box<dyn Config> {
    let mut c = MapCfg::new(plan, 62);
    c.max_buckets = 128;
    c.alphabet = Alphabet::core();
    c.alphabet.shrink_to = vec![Shr::Len, Shr::CapPlus1];
    c.alphabet.shrink_to_fit = true;
    let depth = if tier == Tier::Quick { 1 } else { 2 };
    let label = format!("{}-long-chain-d{}", c.label(), depth);
    let mut b = BfsConfig::new(label, MapHarness::<TKey, TVal>::new(c), lim(tier, Some(depth)));
    let ins = |n: u8| (0..n).map(MapOp::Insert).collect::<Vec<_>>();
    let mut seeds = vec![ins(30), ins(57), ins(60)];
    for removed in [3u8, 20, 40] {
        let mut h = ins(60);
        h.extend((0..removed).map(MapOp::Remove));
        seeds.push(h);
    }
    let mut h = ins(60);
    h.extend((0..60).filter(|i| i % 3 == 1).map(MapOp::Remove));
    seeds.push(h);
    // a full 64-bucket table thinned to under half: the next insertion rehashes in place with more than one
    // group's worth of elements in one probe sequence (which wraps around the end under the MAX plan)
    for removed in [30u8, 35] {
        let mut h = ins(56);
        h.extend((0..removed).map(MapOp::Remove));
        seeds.push(h);
    }
    let mut h = ins(56);
    h.extend((0..56).filter(|i| i % 2 == 0).map(MapOp::Remove));
    h.extend([1u8, 3].map(MapOp::Remove));
    seeds.push(h);
    b.seeds = seeds;
    Box::new(b)
}

pub fn configs(tier: Tier) -> Vec<Box<dyn Config>> {
    let sse2 = super::width() == 16;
    let q = tier == Tier::Quick;
    let mut v: Vec<Box<dyn Config>> = Vec::new();
    v.push(Box::new(super::rehash::RehashGrammar { tier }));
    v.push(Box::new(Conversions));
    v.push(Box::new(super::widebattery::WideBattery { tier, part: super::widebattery::Part::Lookup }));
    v.push(long_chain(Plan::Zero, tier));
    v.push(long_chain(Plan::Max, tier));
    v.push(long_chain(Plan::Back, tier));
    v.push(closed_wrappers::<TKey, TVal>(Plan::Zero, if q { 9 } else { 12 }, tier));
    v.push(closed_wrappers::<PKey, PVal>(Plan::Cluster(2), if q { 6 } else { 8 }, tier));
    if q {
        v.push(closed(Plan::Zero, if sse2 { 12 } else { 11 }, tier));
        v.push(closed(Plan::Seq, 5, tier));
        v.push(closed(Plan::Max, if sse2 { 7 } else { 6 }, tier));
        v.push(closed(Plan::Last, 5, tier));
        v.push(closed(Plan::Cluster(2), 6, tier));
        v.push(closed(Plan::Tag, 4, tier));
        v.push(closed(Plan::Mix, 4, tier));
        v.push(closed(Plan::Adv(0), 4, tier));
        v.push(seeded(tier, true, 2));
        v.push(seeded(tier, false, 3));
        v.push(seeded_plan(Plan::Max, tier, true, 1));
        v.push(seeded_plan(Plan::Max, tier, false, 2));
        v.push(seeded_plan(Plan::Last, tier, true, 1));
        v.push(seeded_plan(Plan::Last, tier, false, 2));
        v.push(seeded_plan(Plan::Tail, tier, false, 2));
        v.push(seeded_plan(Plan::Seq, tier, true, 1));
        if !sse2 {
            // two tag classes starting at the last bucket: in-place rehash with swaps across the wrap-around
            v.push(closed_core(Plan::Adv(2), 9, tier, true));
            v.push(closed_core(Plan::Last, 9, tier, false));
            v.push(closed_core(Plan::Max, 12, tier, false));
            v.push(closed_core(Plan::Zero, 12, tier, true));
        }
    } else {
        v.push(closed(Plan::Zero, if sse2 { 15 } else { 13 }, tier));
        v.push(closed_core(Plan::Zero, if sse2 { 18 } else { 16 }, tier, true));
        v.push(closed(Plan::Max, if sse2 { 13 } else { 11 }, tier));
        v.push(closed(Plan::Last, 7, tier));
        v.push(closed(Plan::Cluster(2), if sse2 { 10 } else { 9 }, tier));
        v.push(closed(Plan::Cluster(3), 8, tier));
        for p in [Plan::Seq, Plan::Mix, Plan::Tag] {
            v.push(closed(p, 6, tier));
        }
        for g in 0..ADV_GRID.len() as u8 {
            v.push(closed(Plan::Adv(g), 5, tier));
        }
        v.push(seeded(tier, true, 2));
        v.push(seeded(tier, false, 4));
        v.push(seeded_plan(Plan::Max, tier, true, 2));
        v.push(seeded_plan(Plan::Max, tier, false, 4));
        v.push(seeded_plan(Plan::Cluster(2), tier, false, 3));
        v.push(seeded_plan(Plan::Last, tier, true, 2));
        v.push(seeded_plan(Plan::Last, tier, false, 4));
        v.push(seeded_plan(Plan::Tail, tier, true, 1));
        v.push(seeded_plan(Plan::Tail, tier, false, 3));
    }
    v
}

// ---------------------------------------------------------------------------
// Conversions from arrays: `HashMap::from([(K, V); N])` and `HashSet::from([T; N])` (default hasher; the result
// does not depend on the hash values): every array of length 0..=5 over three keys, repeated keys included.
// The map must equal the last-value-wins reference with the first key of each run of equal keys kept, every
// superseded key and value must be dropped exactly once.
// ---------------------------------------------------------------------------

pub struct Conversions;

const CONV_ZERO: Baseline = Baseline { live_elems: 0, live_blocks: 0, live_bytes: 0, block_idx: 0, reg_idx: 0 };

fn conv_one<const N: usize>(ids: [u8; N]) -> Result<(), String> {
    use crate::env::{self, CheckAlloc};
    env::reset();
    let what = || format!("From<[_; {N}]> with keys {:?}", ids);
    {
        let arr: [(TKey, TVal); N] = std::array::from_fn(|i| (TKey::make(ids[i], 100 + i as u32), TVal::make(200 + i as u32)));
        let m: hashbrown::HashMap<TKey, TVal, hashbrown::DefaultHashBuilder, CheckAlloc> = hashbrown::HashMap::from(arr);
        let mut model: Vec<(u8, u32, u32)> = Vec::new();
        for (i, &id) in ids.iter().enumerate() {
            match model.iter_mut().find(|e| e.0 == id) {
                Some(e) => e.2 = 200 + i as u32,
                None => model.push((id, 100 + i as u32, 200 + i as u32)),
            }
        }
        model.sort_unstable();
        let mut got: Vec<(u8, u32, u32)> = m.iter().map(|(k, v)| (k.id, k.tok(), v.tok())).collect();
        got.sort_unstable();
        if got != model || m.len() != model.len() {
            return Err(format!("HashMap {}: holds {:?} (len {}), expected {:?}", what(), got, m.len(), model));
        }
        for e in &model {
            if m.get(&KeyRef(e.0)).map(|v| v.tok()) != Some(e.2) {
                return Err(format!("HashMap {}: get({}) does not return the last value", what(), e.0));
            }
        }
        crate::inv::check_structure_public(&m.verif_dump()).map_err(|e| format!("HashMap {}: {e}", what()))?;
        let mut m = m;
        for e in &model {
            if m.remove(&KeyRef(e.0)).is_none() || m.contains_key(&KeyRef(e.0)) {
                return Err(format!("HashMap {}: key {} is still found after remove (stored twice?)", what(), e.0));
            }
        }
        if !m.is_empty() {
            return Err(format!("HashMap {}: {} entries left after removing every key once", what(), m.len()));
        }
    }
    end_of_run_checks(&CONV_ZERO).map_err(|e| format!("HashMap {}: {e}", what()))?;
    env::reset();
    {
        let arr: [TKey; N] = std::array::from_fn(|i| TKey::make(ids[i], 100 + i as u32));
        let s: hashbrown::HashSet<TKey, hashbrown::DefaultHashBuilder, CheckAlloc> = hashbrown::HashSet::from(arr);
        let mut model: Vec<(u8, u32)> = Vec::new();
        for (i, &id) in ids.iter().enumerate() {
            if !model.iter().any(|e| e.0 == id) {
                model.push((id, 100 + i as u32));
            }
        }
        model.sort_unstable();
        let mut got: Vec<(u8, u32)> = s.iter().map(|k| (k.id, k.tok())).collect();
        got.sort_unstable();
        if got != model || s.len() != model.len() {
            return Err(format!("HashSet {}: holds {:?} (len {}), expected {:?}", what(), got, s.len(), model));
        }
        crate::inv::check_structure_public(&s.verif_dump()).map_err(|e| format!("HashSet {}: {e}", what()))?;
        let mut s = s;
        for e in &model {
            if !s.remove(&KeyRef(e.0)) || s.contains(&KeyRef(e.0)) {
                return Err(format!("HashSet {}: key {} is still found after remove (stored twice?)", what(), e.0));
            }
        }
    }
    end_of_run_checks(&CONV_ZERO).map_err(|e| format!("HashSet {}: {e}", what()))
}

fn conv_all<const N: usize>(count: &mut u64) -> Result<(), (Vec<u8>, String)> {
    let total = 3usize.pow(N as u32);
    for code in 0..total {
        let mut c = code;
        let ids: [u8; N] = std::array::from_fn(|_| {
            let d = (c % 3) as u8;
            c /= 3;
            d
        });
        *count += 1;
        match crate::env::catch(|| conv_one(ids)) {
            Ok(Ok(())) => {}
            Ok(Err(m)) => return Err((ids.to_vec(), m)),
            Err(m) => return Err((ids.to_vec(), format!("unexpected panic: {m}"))),
        }
    }
    Ok(())
}

fn conv_replay(ids: &[u8]) -> Result<(), String> {
    fn go<const N: usize>(ids: &[u8]) -> Result<(), String> {
        let a: [u8; N] = std::array::from_fn(|i| ids[i]);
        match crate::env::catch(|| conv_one(a)) {
            Ok(r) => r,
            Err(m) => Err(format!("unexpected panic: {m}")),
        }
    }
    match ids.len() {
        0 => go::<0>(ids),
        1 => go::<1>(ids),
        2 => go::<2>(ids),
        3 => go::<3>(ids),
        4 => go::<4>(ids),
        5 => go::<5>(ids),
        _ => Err("MACHINERY: bad replay length".into()),
    }
}

impl Config for Conversions {
    fn label(&self) -> String {
        "from-array-conversions".into()
    }
    fn run(&self) -> crate::report::ConfigReport {
        use serde_json::json;
        let t0 = std::time::Instant::now();
        let mut rep = crate::report::ConfigReport { label: self.label(), mode: "enum(arrays of length 0..=5 over 3 keys)".into(), exhaustive: true, ..Default::default() };
        let mut n = 0u64;
        let r = conv_all::<0>(&mut n).and_then(|_| conv_all::<1>(&mut n)).and_then(|_| conv_all::<2>(&mut n)).and_then(|_| conv_all::<3>(&mut n)).and_then(|_| conv_all::<4>(&mut n)).and_then(|_| conv_all::<5>(&mut n));
        rep.states = n;
        rep.executions = 2 * n;
        if let Err((ids, m)) = r {
            rep.violations.push(crate::report::Viol { config: self.label(), message: m, replay: json!({"array": ids}) });
        }
        rep.wall_s = t0.elapsed().as_secs_f64();
        rep
    }
    fn replay(&self, rp: &serde_json::Value) -> Result<(), String> {
        let ids: Vec<u8> = serde_json::from_value(rp["array"].clone()).map_err(|e| format!("MACHINERY: bad replay: {e}"))?;
        conv_replay(&ids)
    }
}
