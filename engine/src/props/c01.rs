//! C01: HashMap equals a sequential key-value map for every history and hasher.

use crate::explore::{Limits, Mech};
use crate::keys::*;
use crate::mapsut::*;
use crate::report::{BfsConfig, Config, Tier};

fn lim(tier: Tier, depth: Option<u32>) -> Limits {
    Limits {
        max_depth: depth,
        max_wall_s: if tier == Tier::Quick { 40.0 } else { 1500.0 },
        max_states: if tier == Tier::Quick { 400_000 } else { 6_000_000 },
        ..Default::default()
    }
}

pub fn closed(plan: Plan, universe: u8, tier: Tier) -> Box<dyn Config> {
    let mut c = MapCfg::new(plan, universe);
    c.max_buckets = if super::width() == 16 { 64 } else { 32 };
    let label = c.label();
    Box::new(BfsConfig::new(label, MapHarness::<TKey, TVal>::new(c), lim(tier, None)))
}

/// Closed search (core alphabet) with the wrapper-level API probes in every state.
fn closed_wrappers<K: KeyT, V: ValT>(plan: Plan, universe: u8, tier: Tier) -> Box<dyn Config> {
    let mut c = MapCfg::new(plan, universe);
    c.max_buckets = if super::width() == 16 { 64 } else { 32 };
    c.alphabet = Alphabet::core();
    c.probes = vec![Probe::Wrappers];
    let label = format!("{}-{}-wrappers", c.label(), K::NAME);
    Box::new(BfsConfig::new(label, MapHarness::<K, V>::new(c), lim(tier, None)))
}

/// Closed search with the state-changing core alphabet (reaches deeper tables).
fn closed_core(plan: Plan, universe: u8, tier: Tier, need_inplace: bool) -> Box<dyn Config> {
    let mut c = MapCfg::new(plan, universe);
    c.max_buckets = if super::width() == 16 { 64 } else { 32 };
    c.alphabet = Alphabet::core();
    let label = format!("{}-core", c.label());
    let mut b = BfsConfig::new(label, MapHarness::<TKey, TVal>::new(c), lim(tier, None));
    if need_inplace {
        b.post = Some(Box::new(|_o, stats| {
            if stats.get(Mech::RehashInPlace) == 0 || stats.get(Mech::TombstoneReused) == 0 {
                return Err("anti-vacuity: no in-place rehash / tombstone reuse in this space".into());
            }
            Ok(serde_json::json!({}))
        }));
    }
    Box::new(b)
}

/// Scripted deep states (full windows, full load, tombstone-saturated), then a
/// depth-bounded search with the given alphabet.
pub fn seeds_for(width: usize) -> Vec<Vec<MapOp>> {
    let (w, fill) = if width == 16 { (16u8, 28u8) } else { (8u8, 14u8) };
    let ins = |n: u8| (0..n).map(MapOp::Insert).collect::<Vec<_>>();
    let mut v = vec![ins(w + 1), ins(fill), ins(fill / 2)];
    // (fill - 1: only the last inserted, displaced element remains; fill: every slot is a tombstone)
    let mut h = ins(w + 1);
    h.extend((0..w).map(MapOp::Remove));
    v.push(h);
    for removed in [1u8, w / 2, fill / 2, fill - 8, fill - 1, fill] {
        let mut h = ins(fill);
        h.extend((0..removed).map(MapOp::Remove));
        v.push(h);
    }
    // grown one size further, then thinned to about one group (shrinking decisions at the group-width boundary)
    for left in [w + 1, w, w - 1] {
        let mut h = ins(fill + 2);
        h.extend((left..fill + 2).map(MapOp::Remove));
        v.push(h);
    }
    // suffix removal, every-other removal
    let mut h = ins(fill);
    h.extend((fill / 2..fill).map(MapOp::Remove));
    v.push(h);
    let mut h = ins(fill);
    h.extend((0..fill).filter(|i| i % 2 == 1).map(MapOp::Remove));
    v.push(h);
    v
}

fn seeded(tier: Tier, full: bool, depth: u32) -> Box<dyn Config> {
    seeded_plan(Plan::Zero, tier, full, depth)
}

/// The same seeds under another plan (MAX: every probe window crosses the
/// mirrored tail and wraps around the end of the control bytes).
fn seeded_plan(plan: Plan, tier: Tier, full: bool, depth: u32) -> Box<dyn Config> {
    let w = super::width();
    let mut c = MapCfg::new(plan, if w == 16 { 30 } else { 16 });
    c.max_buckets = if w == 16 { 64 } else { 32 };
    if !full {
        c.alphabet = Alphabet::core();
    }
    let label = format!("{}-seeded-{}-d{}", c.label(), if full { "full" } else { "core" }, depth);
    let mut b = BfsConfig::new(label, MapHarness::<TKey, TVal>::new(c), lim(tier, Some(depth)));
    b.seeds = seeds_for(w);
    b.post = Some(Box::new(|_o, stats| {
        if stats.get(Mech::RehashInPlace) == 0 || stats.get(Mech::TombstoneCreated) == 0 {
            return Err("anti-vacuity: the seeded neighbourhoods contain no in-place rehash / tombstone".into());
        }
        Ok(serde_json::json!({}))
    }));
    Box::new(b)
}

/// Collision chains that reach the third and fourth group of the probe sequence (where the triangular sequence
/// departs from a linear one), built through several growths; tombstones inside such chains.
pub fn long_chain(plan: Plan, tier: Tier) -> Box<dyn Config> {
    let mut c = MapCfg::new(plan, 62);
    c.max_buckets = 128;
    c.alphabet = Alphabet::core();
    c.alphabet.shrink_to = vec![Shr::Len, Shr::CapPlus1];
    c.alphabet.shrink_to_fit = true;
    let depth = if tier == Tier::Quick { 1 } else { 2 };
    let label = format!("{}-long-chain-d{}", c.label(), depth);
    let mut b = BfsConfig::new(label, MapHarness::<TKey, TVal>::new(c), lim(tier, Some(depth)));
    let ins = |n: u8| (0..n).map(MapOp::Insert).collect::<Vec<_>>();
    let mut seeds = vec![ins(30), ins(57), ins(60)];
    for removed in [3u8, 20, 40] {
        let mut h = ins(60);
        h.extend((0..removed).map(MapOp::Remove));
        seeds.push(h);
    }
    let mut h = ins(60);
    h.extend((0..60).filter(|i| i % 3 == 1).map(MapOp::Remove));
    seeds.push(h);
    // a full 64-bucket table thinned to under half: the next insertion rehashes in place with more than one
    // group's worth of elements in one probe sequence (which wraps around the end under the MAX plan)
    for removed in [30u8, 35] {
        let mut h = ins(56);
        h.extend((0..removed).map(MapOp::Remove));
        seeds.push(h);
    }
    let mut h = ins(56);
    h.extend((0..56).filter(|i| i % 2 == 0).map(MapOp::Remove));
    h.extend([1u8, 3].map(MapOp::Remove));
    seeds.push(h);
    b.seeds = seeds;
    Box::new(b)
}

pub fn configs(tier: Tier) -> Vec<Box<dyn Config>> {
    let sse2 = super::width() == 16;
    let q = tier == Tier::Quick;
    let mut v: Vec<Box<dyn Config>> = Vec::new();
    v.push(Box::new(super::rehash::RehashGrammar { tier }));
    v.push(Box::new(super::widebattery::WideBattery { tier, part: super::widebattery::Part::Lookup }));
    v.push(long_chain(Plan::Zero, tier));
    v.push(long_chain(Plan::Max, tier));
    v.push(long_chain(Plan::Back, tier));
    v.push(closed_wrappers::<TKey, TVal>(Plan::Zero, if q { 9 } else { 12 }, tier));
    v.push(closed_wrappers::<PKey, PVal>(Plan::Cluster(2), if q { 6 } else { 8 }, tier));
    if q {
        v.push(closed(Plan::Zero, if sse2 { 12 } else { 11 }, tier));
        v.push(closed(Plan::Seq, 5, tier));
        v.push(closed(Plan::Max, if sse2 { 7 } else { 6 }, tier));
        v.push(closed(Plan::Last, 5, tier));
        v.push(closed(Plan::Cluster(2), 6, tier));
        v.push(closed(Plan::Tag, 4, tier));
        v.push(closed(Plan::Mix, 4, tier));
        v.push(closed(Plan::Adv(0), 4, tier));
        v.push(seeded(tier, true, 2));
        v.push(seeded(tier, false, 3));
        v.push(seeded_plan(Plan::Max, tier, true, 1));
        v.push(seeded_plan(Plan::Max, tier, false, 2));
        v.push(seeded_plan(Plan::Last, tier, true, 1));
        v.push(seeded_plan(Plan::Last, tier, false, 2));
        v.push(seeded_plan(Plan::Tail, tier, false, 2));
        v.push(seeded_plan(Plan::Seq, tier, true, 1));
        if !sse2 {
            // two tag classes starting at the last bucket: in-place rehash with swaps across the wrap-around
            v.push(closed_core(Plan::Adv(2), 9, tier, true));
            v.push(closed_core(Plan::Last, 9, tier, false));
            v.push(closed_core(Plan::Max, 12, tier, false));
            v.push(closed_core(Plan::Zero, 12, tier, true));
        }
    } else {
        v.push(closed(Plan::Zero, if sse2 { 15 } else { 13 }, tier));
        v.push(closed_core(Plan::Zero, if sse2 { 18 } else { 16 }, tier, true));
        v.push(closed(Plan::Max, if sse2 { 13 } else { 11 }, tier));
        v.push(closed(Plan::Last, 7, tier));
        v.push(closed(Plan::Cluster(2), if sse2 { 10 } else { 9 }, tier));
        v.push(closed(Plan::Cluster(3), 8, tier));
        for p in [Plan::Seq, Plan::Mix, Plan::Tag] {
            v.push(closed(p, 6, tier));
        }
        for g in 0..ADV_GRID.len() as u8 {
            v.push(closed(Plan::Adv(g), 5, tier));
        }
        v.push(seeded(tier, true, 2));
        v.push(seeded(tier, false, 4));
        v.push(seeded_plan(Plan::Max, tier, true, 2));
        v.push(seeded_plan(Plan::Max, tier, false, 4));
        v.push(seeded_plan(Plan::Cluster(2), tier, false, 3));
        v.push(seeded_plan(Plan::Last, tier, true, 2));
        v.push(seeded_plan(Plan::Last, tier, false, 4));
        v.push(seeded_plan(Plan::Tail, tier, true, 1));
        v.push(seeded_plan(Plan::Tail, tier, false, 3));
    }
    v
}
