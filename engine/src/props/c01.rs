//! C01: HashMap equals a sequential key-value map for every history and hasher.

use crate::explore::Limits;
use crate::keys::*;
use crate::mapsut::*;
use crate::report::{BfsConfig, Config, Tier};

fn cfg(plan: Plan, universe: u8, tier: Tier) -> Box<dyn Config> {
    let mut c = MapCfg::new(plan, universe);
    c.max_buckets = if super::width() == 16 { 64 } else { 32 };
    let label = c.label();
    let lim = Limits {
        max_wall_s: if tier == Tier::Quick { 40.0 } else { 900.0 },
        max_states: if tier == Tier::Quick { 400_000 } else { 6_000_000 },
        ..Default::default()
    };
    Box::new(BfsConfig::new(label, MapHarness::<TKey, TVal>::new(c), lim))
}

pub fn configs(tier: Tier) -> Vec<Box<dyn Config>> {
    let sse2 = super::width() == 16;
    let mut v: Vec<Box<dyn Config>> = Vec::new();
    match tier {
        Tier::Quick => {
            v.push(cfg(Plan::Zero, if sse2 { 13 } else { 10 }, tier));
            v.push(cfg(Plan::Seq, 5, tier));
        }
        Tier::Thorough => {
            v.push(cfg(Plan::Zero, if sse2 { 18 } else { 14 }, tier));
        }
    }
    v
}
