//! One module per property: configurations (alphabet, bounds per tier, oracle).

use crate::report::{Config, Tier};

pub mod c01;
pub mod c04;

pub fn configs(prop: &str, tier: Tier) -> Option<Vec<Box<dyn Config>>> {
    Some(match prop {
        "C01" => c01::configs(tier),
        "C04" => c04::configs(tier),
        _ => return None,
    })
}

pub fn level_of(prop: &str) -> &'static str {
    match prop {
        "C04" | "C12" | "C20" => "fault_enumeration",
        "C16" | "C17" => "exploration",
        _ => "model_checking",
    }
}

pub fn width() -> usize {
    hashbrown::verif::GROUP_WIDTH
}
pub fn backend() -> &'static str {
    if width() == 16 {
        "sse2"
    } else {
        "portable"
    }
}
