//! One module per property: configurations (alphabet, bounds per tier, oracle).

use crate::report::{Config, Tier};

pub mod c01;
pub mod c02;
pub mod c04;
pub mod c05;
pub mod c06;
pub mod c07;
pub mod c08;
pub mod c09;
pub mod c11;
pub mod c14;
pub mod c15;
pub mod c16;
pub mod c17;
pub mod c18;
pub mod c19;
pub mod c20;
pub mod rehash;
pub mod widebattery;
pub mod widechurn;

pub fn configs(prop: &str, tier: Tier) -> Option<Vec<Box<dyn Config>>> {
    Some(match prop {
        "C01" => c01::configs(tier),
        "C02" => c02::configs_c02(tier),
        "C03" => c02::configs_c03(tier),
        "C04" => c04::configs(tier),
        "C05" => c05::configs(tier),
        "C06" => c06::configs(tier),
        "C07" => c07::configs(tier),
        "C08" => c08::configs_c08(tier),
        "C11" => c11::configs(tier),
        "C12" => c08::configs_c12(tier),
        "C13" => c08::configs_c13(tier),
        "C14" => c14::configs(tier),
        "C15" => c15::configs(tier),
        "C16" => c16::configs(tier),
        "C17" => c17::configs(tier),
        "C18" => c18::configs(tier),
        "C19" => c19::configs(tier),
        "C20" => c20::configs(tier),
        "C09" => c09::configs_c09(tier),
        "C10" => c09::configs_c10(tier),
        _ => return None,
    })
}

pub fn level_of(prop: &str) -> &'static str {
    match prop {
        "C04" | "C12" | "C20" => "fault_enumeration",
        "C16" | "C17" => "exploration",
        _ => "model_checking",
    }
}

pub fn width() -> usize {
    hashbrown::verif::GROUP_WIDTH
}
/// Which build this is: the portable build is made by `rustc-wrap.sh`, which tells the harness crate so
/// (the group width alone does not identify the scanner implementation).
pub fn backend() -> &'static str {
    if cfg!(hbmc_portable) || cfg!(miri) {
        "portable"
    } else {
        "sse2"
    }
}
