//! C15: multi-key mutable borrows never alias.

use crate::keys::*;
use crate::mapsut::*;
use crate::report::{Config, Tier};
use crate::tablesut::TProbe;

pub fn configs(tier: Tier) -> Vec<Box<dyn Config>> {
    let sse2 = super::width() == 16;
    let q = tier == Tier::Quick;
    let p = vec![Probe::ManyMut];
    let mut v: Vec<Box<dyn Config>> = Vec::new();
    v.push(Box::new(ZstManyMut));
    v.push(Box::new(super::widebattery::WideBattery { tier, part: super::widebattery::Part::ManyMut }));
    v.push(Box::new(UnsizedKeys));
    // scripted deep tables: elements displaced into a second probe group, tombstones, full load
    {
        use crate::explore::Limits;
        use crate::report::BfsConfig;
        let mut c = MapCfg::new(Plan::Zero, if sse2 { 30 } else { 16 });
        c.max_buckets = if sse2 { 64 } else { 32 };
        c.alphabet = Alphabet::core();
        c.probes = p.clone();
        let label = format!("{}-map-many-mut-seeded", c.label());
        let l = Limits { max_depth: Some(0), max_wall_s: if q { 30.0 } else { 600.0 }, ..Default::default() };
        let mut b = BfsConfig::new(label, MapHarness::<TKey, TVal>::new(c), l);
        b.seeds = super::c01::seeds_for(super::width()).into_iter().step_by(if q { 4 } else { 1 }).collect();
        v.push(Box::new(b));
        v.push(super::c06::seeded_with(Plan::Zero, false, 0, vec![TProbe::ManyMut], tier));
    }
    if sse2 {
        v.push(super::c09::map_cfg(Plan::Zero, if q { 7 } else { 10 }, p.clone(), tier, "map-many-mut"));
        v.push(super::c09::map_cfg(Plan::Adv(0), if q { 4 } else { 6 }, p.clone(), tier, "map-many-mut"));
        v.push(super::c09::map_cfg(Plan::Seq, if q { 4 } else { 5 }, p.clone(), tier, "map-many-mut"));
        v.push(super::c06::tab(Plan::Zero, if q { 4 } else { 6 }, if q { 5 } else { 8 }, vec![TProbe::ManyMut], false, tier, "-many-mut"));
        v.push(super::c06::tab(Plan::Adv(0), 4, 5, vec![TProbe::ManyMut], false, tier, "-many-mut"));
        v.push(super::c06::tab(Plan::Mid, 4, 5, vec![TProbe::ManyMut], false, tier, "-many-mut"));
        v.push(super::c09::map_cfg(Plan::Mid, 4, p.clone(), tier, "map-many-mut"));
    } else {
        v.push(super::c06::tab(Plan::Mid, 4, 5, vec![TProbe::ManyMut], false, tier, "-many-mut"));
        v.push(super::c09::map_cfg(Plan::Mid, 4, p.clone(), tier, "map-many-mut"));
        v.push(super::c09::map_cfg(Plan::Zero, if q { 5 } else { 9 }, p.clone(), tier, "map-many-mut"));
        v.push(super::c09::map_cfg(Plan::Adv(0), if q { 4 } else { 6 }, p.clone(), tier, "map-many-mut"));
        v.push(super::c06::tab(Plan::Zero, if q { 4 } else { 6 }, if q { 5 } else { 8 }, vec![TProbe::ManyMut], false, tier, "-many-mut"));
        v.push(super::c06::tab(Plan::Cluster(2), 4, 5, vec![TProbe::ManyMut], false, tier, "-many-mut"));
    }
    v
}

// ---------------------------------------------------------------------------
// Zero-sized elements: every bucket of a `HashTable<()>` has the same element address, so "the same
// entry" must be decided by position, not by address. Entries are inserted with distinct hashes into a
// table that never needs to re-hash (the re-hashing closure cannot tell zero-sized elements apart).
// ---------------------------------------------------------------------------

use crate::env::{self, CheckAlloc};
use crate::report::{ConfigReport, Viol};
use serde_json::{json, Value};

pub struct ZstManyMut;

fn zst_tuple<const N: usize>(n: usize, req: [usize; N]) -> Result<(), String> {
    type T = hashbrown::HashTable<(), CheckAlloc>;
    let hash_of = |i: usize| mk_hash(3 * i as u64 + 1, 0x20 + i as u8);
    let mut t = T::with_capacity_in(14, CheckAlloc);
    for i in 0..n {
        t.insert_unique(hash_of(i), (), |_| unreachable!("a table with spare capacity must not re-hash"));
    }
    // request index n = a hash nothing was inserted with
    let hashes: [u64; N] = std::array::from_fn(|i| hash_of(req[i]));
    let mut expect_panic = false;
    for i in 0..N {
        for j in 0..i {
            if req[i] == req[j] && req[i] < n {
                expect_panic = true;
            }
        }
    }
    let what = format!("HashTable<()> with {n} entries (distinct hashes): get_many_mut(requests {:?}, entry index {n} is absent)", req);
    let r = env::catch(|| {
        let res = t.get_many_mut(hashes, |_, _| true);
        let out: [bool; N] = std::array::from_fn(|i| res[i].is_some());
        out
    });
    match r {
        Err(m) => {
            if !expect_panic {
                return Err(format!("{what} panicked ({m}) although no two requests resolve to the same entry"));
            }
        }
        Ok(out) => {
            if expect_panic {
                return Err(format!("{what} returned although two requests resolve to the same entry"));
            }
            for i in 0..N {
                if out[i] != (req[i] < n) {
                    return Err(format!("{what}: result {i} is {}, expected {}", if out[i] { "Some" } else { "None" }, if req[i] < n { "Some" } else { "None" }));
                }
            }
        }
    }
    if t.len() != n || t.iter().count() != n {
        return Err(format!("{what} changed the table"));
    }
    Ok(())
}

fn zst_all() -> Result<u64, String> {
    let mut count = 0;
    for n in 0..=5usize {
        zst_tuple::<0>(n, [])?;
        for a in 0..=n {
            zst_tuple::<1>(n, [a])?;
            for b in 0..=n {
                zst_tuple::<2>(n, [a, b])?;
                for c in 0..=n {
                    zst_tuple::<3>(n, [a, b, c])?;
                    count += 1;
                    if n <= 3 {
                        for d in 0..=n {
                            zst_tuple::<4>(n, [a, b, c, d])?;
                            count += 1;
                        }
                    }
                }
            }
        }
    }
    Ok(count)
}

impl Config for ZstManyMut {
    fn label(&self) -> String {
        "HashTable<zero-sized>-many-mut".into()
    }
    fn run(&self) -> ConfigReport {
        crate::crumbs::set_config(&self.label());
        let t0 = std::time::Instant::now();
        env::reset();
        let mut rep = ConfigReport { label: self.label(), mode: "enum".into(), exhaustive: true, ..Default::default() };
        match env::catch(zst_all) {
            Ok(Ok(n)) => {
                rep.executions = n;
                rep.states = 6;
                rep.detail = json!({"entries": "0..=5", "tuples": "N = 0..=4 over present and absent entries", "runs": n, "distinct_nontrivial": n});
            }
            Ok(Err(m)) | Err(m) => rep.violations.push(Viol { config: self.label(), message: m, replay: json!({"zst_many_mut": true}) }),
        }
        rep.wall_s = t0.elapsed().as_secs_f64();
        rep
    }
    fn replay(&self, _rp: &Value) -> Result<(), String> {
        env::reset();
        match env::catch(zst_all) {
            Ok(r) => r.map(|_| ()),
            Err(m) => Err(m),
        }
    }
}

// ---------------------------------------------------------------------------
// Unsized borrowed query keys (`Q: ?Sized`): the N queries are sub-slices of ONE buffer - same start address,
// different lengths - so anything that identifies a query by its address instead of hashing / comparing it
// confuses distinct keys.
// ---------------------------------------------------------------------------

pub struct UnsizedKeys;

#[derive(Clone, Default)]
struct Fnv;
struct FnvH(u64);
impl std::hash::BuildHasher for Fnv {
    type Hasher = FnvH;
    fn build_hasher(&self) -> FnvH {
        FnvH(0xcbf29ce484222325)
    }
}
impl std::hash::Hasher for FnvH {
    fn finish(&self) -> u64 {
        self.0
    }
    fn write(&mut self, b: &[u8]) {
        for &x in b {
            self.0 = (self.0 ^ x as u64).wrapping_mul(0x100000001b3);
        }
    }
}

fn unsized_tuple<const N: usize>(present: u32, lens: [usize; N]) -> Result<(), String> {
    const BUF: &[u8] = b"abcdefgh";
    type M = hashbrown::HashMap<Vec<u8>, u32, Fnv, CheckAlloc>;
    let mut m = M::with_hasher_in(Fnv, CheckAlloc);
    for l in 1..=5usize {
        if present >> l & 1 == 1 {
            m.insert(BUF[..l].to_vec(), l as u32);
        }
    }
    let is_present = |l: usize| l <= 5 && present >> l & 1 == 1;
    let mut expect_panic = false;
    for i in 0..N {
        for j in 0..i {
            if lens[i] == lens[j] && is_present(lens[i]) {
                expect_panic = true;
            }
        }
    }
    for (kv, unchecked) in [(false, false), (true, false), (false, true), (true, true)] {
        if unchecked && expect_panic {
            continue;
        }
        let what = format!("{}({:?}) on the prefixes of one buffer (present lengths mask {present:#b})", match (kv, unchecked) {
            (false, false) => "get_many_mut",
            (true, false) => "get_many_key_value_mut",
            (false, true) => "get_many_unchecked_mut",
            (true, true) => "get_many_key_value_unchecked_mut",
        }, lens);
        let r = env::catch(|| {
            let ks: [&[u8]; N] = std::array::from_fn(|i| &BUF[..lens[i]]);
            let out: [Option<(usize, u32)>; N] = match (kv, unchecked) {
                (false, false) => m.get_many_mut(ks).map(|o| o.map(|v| (usize::MAX, *v))),
                (true, false) => m.get_many_key_value_mut(ks).map(|o| o.map(|(k, v)| (k.len(), *v))),
                // SAFETY (contract of the unchecked variants): no two requests resolve to the same entry
                (false, true) => unsafe { m.get_many_unchecked_mut(ks) }.map(|o| o.map(|v| (usize::MAX, *v))),
                (true, true) => unsafe { m.get_many_key_value_unchecked_mut(ks) }.map(|o| o.map(|(k, v)| (k.len(), *v))),
            };
            out
        });
        match r {
            Err(msg) => {
                if !expect_panic {
                    return Err(format!("{what} panicked ({msg}) although no two requests resolve to the same entry"));
                }
            }
            Ok(out) => {
                if expect_panic {
                    return Err(format!("{what} returned although two requests resolve to the same entry"));
                }
                for i in 0..N {
                    let want = if is_present(lens[i]) { Some(lens[i] as u32) } else { None };
                    if out[i].map(|e| e.1) != want || out[i].map_or(false, |e| e.0 != usize::MAX && e.0 != lens[i]) {
                        return Err(format!("{what}: result {i} is {:?}, expected the entry of the {}-byte prefix: {:?}", out[i], lens[i], want));
                    }
                }
            }
        }
    }
    Ok(())
}

fn unsized_all() -> Result<u64, String> {
    let mut count = 0;
    for present in (0..64u32).filter(|p| p & 1 == 0) {
        for a in 1..=6usize {
            unsized_tuple::<1>(present, [a])?;
            for b in 1..=6usize {
                unsized_tuple::<2>(present, [a, b])?;
                for c in 1..=6usize {
                    unsized_tuple::<3>(present, [a, b, c])?;
                    count += 1;
                }
            }
        }
    }
    Ok(count)
}

impl Config for UnsizedKeys {
    fn label(&self) -> String {
        "unsized-borrowed-query-keys".into()
    }
    fn run(&self) -> ConfigReport {
        crate::crumbs::set_config(&self.label());
        let t0 = std::time::Instant::now();
        env::reset();
        let mut rep = ConfigReport { label: self.label(), mode: "enum".into(), exhaustive: true, ..Default::default() };
        match env::catch(unsized_all) {
            Ok(Ok(n)) => {
                rep.executions = n;
                rep.states = 32;
                rep.detail = json!({"maps": "all subsets of the 5 prefixes of one buffer", "tuples": "N = 1..=3 over prefix lengths 1..=6 (6 = absent)", "runs": n, "distinct_nontrivial": n});
            }
            Ok(Err(m)) | Err(m) => rep.violations.push(Viol { config: self.label(), message: m, replay: json!({"unsized_keys": true}) }),
        }
        rep.wall_s = t0.elapsed().as_secs_f64();
        rep
    }
    fn replay(&self, _rp: &Value) -> Result<(), String> {
        env::reset();
        match env::catch(unsized_all) {
            Ok(r) => r.map(|_| ()),
            Err(m) => Err(m),
        }
    }
}
