//! C15: multi-key mutable borrows never alias.

use crate::keys::*;
use crate::mapsut::*;
use crate::report::{Config, Tier};
use crate::tablesut::TProbe;

pub fn configs(tier: Tier) -> Vec<Box<dyn Config>> {
    let sse2 = super::width() == 16;
    let q = tier == Tier::Quick;
    let p = vec![Probe::ManyMut];
    let mut v = Vec::new();
    if sse2 {
        v.push(super::c09::map_cfg(Plan::Zero, if q { 7 } else { 10 }, p.clone(), tier, "map-many-mut"));
        v.push(super::c09::map_cfg(Plan::Adv(0), if q { 4 } else { 6 }, p.clone(), tier, "map-many-mut"));
        v.push(super::c09::map_cfg(Plan::Seq, if q { 4 } else { 5 }, p.clone(), tier, "map-many-mut"));
        v.push(super::c06::tab(Plan::Zero, if q { 4 } else { 6 }, if q { 5 } else { 8 }, vec![TProbe::ManyMut], false, tier, "-many-mut"));
        v.push(super::c06::tab(Plan::Adv(0), 4, 5, vec![TProbe::ManyMut], false, tier, "-many-mut"));
        v.push(super::c06::tab(Plan::Mid, 4, 5, vec![TProbe::ManyMut], false, tier, "-many-mut"));
        v.push(super::c09::map_cfg(Plan::Mid, 4, p.clone(), tier, "map-many-mut"));
    } else {
        v.push(super::c06::tab(Plan::Mid, 4, 5, vec![TProbe::ManyMut], false, tier, "-many-mut"));
        v.push(super::c09::map_cfg(Plan::Mid, 4, p.clone(), tier, "map-many-mut"));
        v.push(super::c09::map_cfg(Plan::Zero, if q { 5 } else { 9 }, p.clone(), tier, "map-many-mut"));
        v.push(super::c09::map_cfg(Plan::Adv(0), if q { 4 } else { 6 }, p.clone(), tier, "map-many-mut"));
        v.push(super::c06::tab(Plan::Zero, if q { 4 } else { 6 }, if q { 5 } else { 8 }, vec![TProbe::ManyMut], false, tier, "-many-mut"));
        v.push(super::c06::tab(Plan::Cluster(2), 4, 5, vec![TProbe::ManyMut], false, tier, "-many-mut"));
    }
    v
}
