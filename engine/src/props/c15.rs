//! C15: multi-key mutable borrows never alias.

use crate::keys::*;
use crate::mapsut::*;
use crate::report::{Config, Tier};
use crate::tablesut::TProbe;

pub fn configs(tier: Tier) -> Vec<Box<dyn Config>> {
    let sse2 = super::width() == 16;
    let q = tier == Tier::Quick;
    let p = vec![Probe::ManyMut];
    let mut v: Vec<Box<dyn Config>> = Vec::new();
    v.push(Box::new(ZstManyMut));
    v.push(Box::new(super::widebattery::WideBattery { tier, part: super::widebattery::Part::ManyMut }));
    v.push(Box::new(UnsizedKeys));
    v.push(Box::new(ScriptedEq { tier }));
    // scripted deep tables: elements displaced into a second probe group, tombstones, full load
    {
        use crate::explore::Limits;
        use crate::report::BfsConfig;
        let mut c = MapCfg::new(Plan::Zero, if sse2 { 30 } else { 16 });
        c.max_buckets = if sse2 { 64 } else { 32 };
        c.alphabet = Alphabet::core();
        c.probes = p.clone();
        let label = format!("{}-map-many-mut-seeded", c.label());
        let l = Limits { max_depth: Some(0), max_wall_s: if q { 30.0 } else { 600.0 }, ..Default::default() };
        let mut b = BfsConfig::new(label, MapHarness::<TKey, TVal>::new(c), l);
        b.seeds = super::c01::seeds_for(super::width()).into_iter().step_by(if q { 4 } else { 1 }).collect();
        v.push(Box::new(b));
        v.push(super::c06::seeded_with(Plan::Zero, false, 0, vec![TProbe::ManyMut], tier));
    }
    if sse2 {
        v.push(super::c09::map_cfg(Plan::Zero, if q { 7 } else { 10 }, p.clone(), tier, "map-many-mut"));
        v.push(super::c09::map_cfg(Plan::Adv(0), if q { 4 } else { 6 }, p.clone(), tier, "map-many-mut"));
        v.push(super::c09::map_cfg(Plan::Seq, if q { 4 } else { 5 }, p.clone(), tier, "map-many-mut"));
        v.push(super::c06::tab(Plan::Zero, if q { 4 } else { 6 }, if q { 5 } else { 8 }, vec![TProbe::ManyMut], false, tier, "-many-mut"));
        v.push(super::c06::tab(Plan::Adv(0), 4, 5, vec![TProbe::ManyMut], false, tier, "-many-mut"));
        v.push(super::c06::tab(Plan::Mid, 4, 5, vec![TProbe::ManyMut], false, tier, "-many-mut"));
        v.push(super::c09::map_cfg(Plan::Mid, 4, p.clone(), tier, "map-many-mut"));
    } else {
        v.push(super::c06::tab(Plan::Mid, 4, 5, vec![TProbe::ManyMut], false, tier, "-many-mut"));
        v.push(super::c09::map_cfg(Plan::Mid, 4, p.clone(), tier, "map-many-mut"));
        v.push(super::c09::map_cfg(Plan::Zero, if q { 5 } else { 9 }, p.clone(), tier, "map-many-mut"));
        v.push(super::c09::map_cfg(Plan::Adv(0), if q { 4 } else { 6 }, p.clone(), tier, "map-many-mut"));
        v.push(super::c06::tab(Plan::Zero, if q { 4 } else { 6 }, if q { 5 } else { 8 }, vec![TProbe::ManyMut], false, tier, "-many-mut"));
        v.push(super::c06::tab(Plan::Cluster(2), 4, 5, vec![TProbe::ManyMut], false, tier, "-many-mut"));
    }
    v
}

// ---------------------------------------------------------------------------
// Zero-sized elements: every bucket of a `HashTable<()>` has the same element address, so "the same
// entry" must be decided by position, not by address. Entries are inserted with distinct hashes into a
// table that never needs to re-hash (the re-hashing closure cannot tell zero-sized elements apart).
// ---------------------------------------------------------------------------

use crate::env::{self, CheckAlloc};
use crate::report::{ConfigReport, Viol};
use serde_json::{json, Value};

pub struct ZstManyMut;

fn zst_tuple<const N: usize>(n: usize, req: [usize; N]) -> Result<(), String> {
    zst_tuple_of::<(), N>(n, req)?;
    // over-aligned zero-sized elements: the references handed out must be aligned
    zst_tuple_of::<[u64; 0], N>(n, req)?;
    zst_tuple_of::<ZAlign64, N>(n, req)
}

#[derive(Default, Clone, Copy)]
#[repr(align(64))]
struct ZAlign64;

fn zst_tuple_of<Z: Default + 'static, const N: usize>(n: usize, req: [usize; N]) -> Result<(), String> {
    type T<Z> = hashbrown::HashTable<Z, CheckAlloc>;
    let hash_of = |i: usize| mk_hash(3 * i as u64 + 1, 0x20 + i as u8);
    let mut t = T::<Z>::with_capacity_in(14, CheckAlloc);
    for i in 0..n {
        t.insert_unique(hash_of(i), Z::default(), |_| unreachable!("a table with spare capacity must not re-hash"));
    }
    // request index n = a hash nothing was inserted with
    let hashes: [u64; N] = std::array::from_fn(|i| hash_of(req[i]));
    let mut expect_panic = false;
    for i in 0..N {
        for j in 0..i {
            if req[i] == req[j] && req[i] < n {
                expect_panic = true;
            }
        }
    }
    let what = format!("HashTable<{}> with {n} entries (distinct hashes): get_many_mut(requests {:?}, entry index {n} is absent)", std::any::type_name::<Z>(), req);
    let r = env::catch(|| {
        let res = t.get_many_mut(hashes, |_, _| true);
        let out: [bool; N] = std::array::from_fn(|i| res[i].is_some());
        // read the references as plain integers: the optimiser may assume that a `&mut Z` is aligned and fold the test away
        let raw: [usize; N] = unsafe { std::mem::transmute_copy(std::hint::black_box(&res)) };
        let misaligned = raw.iter().any(|&a| a != 0 && a % std::mem::align_of::<Z>() != 0);
        (out, misaligned)
    });
    let r = match r {
        Ok((_, true)) => return Err(format!("{what} returned a reference that is not aligned for its type (alignment {})", std::mem::align_of::<Z>())),
        Ok((out, false)) => Ok(out),
        Err(m) => Err(m),
    };
    match r {
        Err(m) => {
            if !expect_panic {
                return Err(format!("{what} panicked ({m}) although no two requests resolve to the same entry"));
            }
        }
        Ok(out) => {
            if expect_panic {
                return Err(format!("{what} returned although two requests resolve to the same entry"));
            }
            for i in 0..N {
                if out[i] != (req[i] < n) {
                    return Err(format!("{what}: result {i} is {}, expected {}", if out[i] { "Some" } else { "None" }, if req[i] < n { "Some" } else { "None" }));
                }
            }
        }
    }
    if t.len() != n || t.iter().count() != n {
        return Err(format!("{what} changed the table"));
    }
    Ok(())
}

fn zst_all() -> Result<u64, String> {
    let mut count = 0;
    for n in 0..=5usize {
        zst_tuple::<0>(n, [])?;
        for a in 0..=n {
            zst_tuple::<1>(n, [a])?;
            for b in 0..=n {
                zst_tuple::<2>(n, [a, b])?;
                for c in 0..=n {
                    zst_tuple::<3>(n, [a, b, c])?;
                    count += 1;
                    if n <= 3 {
                        for d in 0..=n {
                            zst_tuple::<4>(n, [a, b, c, d])?;
                            count += 1;
                        }
                    }
                }
            }
        }
    }
    Ok(count)
}

impl Config for ZstManyMut {
    fn label(&self) -> String {
        "HashTable<zero-sized>-many-mut".into()
    }
    fn run(&self) -> ConfigReport {
        crate::crumbs::set_config(&self.label());
        let t0 = std::time::Instant::now();
        env::reset();
        let mut rep = ConfigReport { label: self.label(), mode: "enum".into(), exhaustive: true, ..Default::default() };
        match env::catch(zst_all) {
            Ok(Ok(n)) => {
                rep.executions = n;
                rep.states = 6;
                rep.detail = json!({"entries": "0..=5", "tuples": "N = 0..=4 over present and absent entries", "runs": n, "distinct_nontrivial": n});
            }
            Ok(Err(m)) | Err(m) => rep.violations.push(Viol { config: self.label(), message: m, replay: json!({"zst_many_mut": true}) }),
        }
        rep.wall_s = t0.elapsed().as_secs_f64();
        rep
    }
    fn replay(&self, _rp: &Value) -> Result<(), String> {
        env::reset();
        match env::catch(zst_all) {
            Ok(r) => r.map(|_| ()),
            Err(m) => Err(m),
        }
    }
}

// ---------------------------------------------------------------------------
// Unsized borrowed query keys (`Q: ?Sized`): the N queries are sub-slices of ONE buffer - same start address,
// different lengths - so anything that identifies a query by its address instead of hashing / comparing it
// confuses distinct keys.
// ---------------------------------------------------------------------------

pub struct UnsizedKeys;

#[derive(Clone, Default)]
struct Fnv;
struct FnvH(u64);
impl std::hash::BuildHasher for Fnv {
    type Hasher = FnvH;
    fn build_hasher(&self) -> FnvH {
        FnvH(0xcbf29ce484222325)
    }
}
impl std::hash::Hasher for FnvH {
    fn finish(&self) -> u64 {
        self.0
    }
    fn write(&mut self, b: &[u8]) {
        for &x in b {
            self.0 = (self.0 ^ x as u64).wrapping_mul(0x100000001b3);
        }
    }
}

fn unsized_tuple<const N: usize>(present: u32, lens: [usize; N]) -> Result<(), String> {
    const BUF: &[u8] = b"abcdefgh";
    type M = hashbrown::HashMap<Vec<u8>, u32, Fnv, CheckAlloc>;
    let mut m = M::with_hasher_in(Fnv, CheckAlloc);
    for l in 1..=5usize {
        if present >> l & 1 == 1 {
            m.insert(BUF[..l].to_vec(), l as u32);
        }
    }
    let is_present = |l: usize| l <= 5 && present >> l & 1 == 1;
    let mut expect_panic = false;
    for i in 0..N {
        for j in 0..i {
            if lens[i] == lens[j] && is_present(lens[i]) {
                expect_panic = true;
            }
        }
    }
    for (kv, unchecked) in [(false, false), (true, false), (false, true), (true, true)] {
        if unchecked && expect_panic {
            continue;
        }
        let what = format!("{}({:?}) on the prefixes of one buffer (present lengths mask {present:#b})", match (kv, unchecked) {
            (false, false) => "get_many_mut",
            (true, false) => "get_many_key_value_mut",
            (false, true) => "get_many_unchecked_mut",
            (true, true) => "get_many_key_value_unchecked_mut",
        }, lens);
        let r = env::catch(|| {
            let ks: [&[u8]; N] = std::array::from_fn(|i| &BUF[..lens[i]]);
            let out: [Option<(usize, u32)>; N] = match (kv, unchecked) {
                (false, false) => m.get_many_mut(ks).map(|o| o.map(|v| (usize::MAX, *v))),
                (true, false) => m.get_many_key_value_mut(ks).map(|o| o.map(|(k, v)| (k.len(), *v))),
                // SAFETY (contract of the unchecked variants): no two requests resolve to the same entry
                (false, true) => unsafe { m.get_many_unchecked_mut(ks) }.map(|o| o.map(|v| (usize::MAX, *v))),
                (true, true) => unsafe { m.get_many_key_value_unchecked_mut(ks) }.map(|o| o.map(|(k, v)| (k.len(), *v))),
            };
            out
        });
        match r {
            Err(msg) => {
                if !expect_panic {
                    return Err(format!("{what} panicked ({msg}) although no two requests resolve to the same entry"));
                }
            }
            Ok(out) => {
                if expect_panic {
                    return Err(format!("{what} returned although two requests resolve to the same entry"));
                }
                for i in 0..N {
                    let want = if is_present(lens[i]) { Some(lens[i] as u32) } else { None };
                    if out[i].map(|e| e.1) != want || out[i].map_or(false, |e| e.0 != usize::MAX && e.0 != lens[i]) {
                        return Err(format!("{what}: result {i} is {:?}, expected the entry of the {}-byte prefix: {:?}", out[i], lens[i], want));
                    }
                }
            }
        }
    }
    Ok(())
}

fn unsized_all() -> Result<u64, String> {
    let mut count = 0;
    for present in (0..64u32).filter(|p| p & 1 == 0) {
        for a in 1..=6usize {
            unsized_tuple::<1>(present, [a])?;
            for b in 1..=6usize {
                unsized_tuple::<2>(present, [a, b])?;
                for c in 1..=6usize {
                    unsized_tuple::<3>(present, [a, b, c])?;
                    count += 1;
                }
            }
        }
    }
    Ok(count)
}

impl Config for UnsizedKeys {
    fn label(&self) -> String {
        "unsized-borrowed-query-keys".into()
    }
    fn run(&self) -> ConfigReport {
        crate::crumbs::set_config(&self.label());
        let t0 = std::time::Instant::now();
        env::reset();
        let mut rep = ConfigReport { label: self.label(), mode: "enum".into(), exhaustive: true, ..Default::default() };
        match env::catch(unsized_all) {
            Ok(Ok(n)) => {
                rep.executions = n;
                rep.states = 32;
                rep.detail = json!({"maps": "all subsets of the 5 prefixes of one buffer", "tuples": "N = 1..=3 over prefix lengths 1..=6 (6 = absent)", "runs": n, "distinct_nontrivial": n});
            }
            Ok(Err(m)) | Err(m) => rep.violations.push(Viol { config: self.label(), message: m, replay: json!({"unsized_keys": true}) }),
        }
        rep.wall_s = t0.elapsed().as_secs_f64();
        rep
    }
    fn replay(&self, _rp: &Value) -> Result<(), String> {
        env::reset();
        match env::catch(unsized_all) {
            Ok(r) => r.map(|_| ()),
            Err(m) => Err(m),
        }
    }
}

// ---------------------------------------------------------------------------
// Equality answers that change from call to call: `HashTable::get_many_mut` takes an `FnMut`, `HashMap::get_many_mut`
// any `Equivalent` implementation. Every answer script of bounded length is enumerated (call k of the predicate
// returns bit k of the script, `false` once the script is used up); whatever the answers are, the references that
// come back must point to pairwise different live entries, or the call must panic with the documented message.
// ---------------------------------------------------------------------------

pub struct ScriptedEq {
    pub tier: Tier,
}

thread_local! {
    static SCRIPT: std::cell::Cell<(u32, u32, u32)> = const { std::cell::Cell::new((0, 0, 0)) }; // (bits, length, calls so far)
}
fn script_next() -> bool {
    SCRIPT.with(|c| {
        let (bits, len, k) = c.get();
        c.set((bits, len, k + 1));
        k < len && bits >> k & 1 == 1
    })
}

#[derive(Clone, Copy)]
struct ScriptedKey;
impl std::hash::Hash for ScriptedKey {
    fn hash<H: std::hash::Hasher>(&self, s: &mut H) {
        s.write_u32(7);
    }
}
impl hashbrown::Equivalent<u32> for ScriptedKey {
    fn equivalent(&self, _k: &u32) -> bool {
        script_next()
    }
}
#[derive(Clone, Default)]
struct ConstBuild;
struct ConstHasher;
impl std::hash::Hasher for ConstHasher {
    fn finish(&self) -> u64 {
        7
    }
    fn write(&mut self, _: &[u8]) {}
}
impl std::hash::BuildHasher for ConstBuild {
    type Hasher = ConstHasher;
    fn build_hasher(&self) -> ConstHasher {
        ConstHasher
    }
}

fn scripted_case(n: u32, reqs: usize, bits: u32, len: u32, map: bool) -> Result<(), String> {
    let what = || format!("{} with {n} entries of one hash, {reqs} requests, equality answers {:0w$b} (first call = lowest bit)", if map { "HashMap::get_many_mut" } else { "HashTable::get_many_mut" }, bits, w = len as usize);
    SCRIPT.with(|c| c.set((bits, len, 0)));
    let check = |ptrs: Vec<Option<(*const u32, u32)>>, live: &dyn Fn(*const u32) -> bool| -> Result<(), String> {
        for (i, a) in ptrs.iter().enumerate() {
            if let Some((pa, va)) = a {
                if !live(*pa) || *va >= n {
                    return Err(format!("{}: request #{i} got a reference that is not an entry of the table", what()));
                }
                for (j, b) in ptrs.iter().enumerate().take(i) {
                    if let Some((pb, _)) = b {
                        if pa == pb {
                            return Err(format!("{}: requests #{j} and #{i} got mutable references to the same entry", what()));
                        }
                    }
                }
            }
        }
        Ok(())
    };
    let verdict = |r: Result<Vec<Option<(*const u32, u32)>>, String>, live: &dyn Fn(*const u32) -> bool| -> Result<(), String> {
        match r {
            Ok(p) => check(p, live),
            Err(m) if m.contains("duplicate") => Ok(()),
            Err(m) => Err(format!("{}: panicked with an undocumented message: {m}", what())),
        }
    };
    if map {
        let mut m: hashbrown::HashMap<u32, u32, ConstBuild> = hashbrown::HashMap::with_hasher(ConstBuild);
        for i in 0..n {
            m.insert(i, i);
        }
        let addrs: Vec<*const u32> = m.values().map(|v| v as *const u32).collect();
        let live = |p: *const u32| addrs.contains(&p);
        let k = ScriptedKey;
        let r = env::catch(|| match reqs {
            2 => m.get_many_mut([&k, &k]).into_iter().map(|o| o.map(|v| (v as *const u32, *v))).collect::<Vec<_>>(),
            3 => m.get_many_mut([&k, &k, &k]).into_iter().map(|o| o.map(|v| (v as *const u32, *v))).collect::<Vec<_>>(),
            _ => m.get_many_key_value_mut([&k, &k]).into_iter().map(|o| o.map(|(_, v)| (v as *const u32, *v))).collect::<Vec<_>>(),
        });
        verdict(r, &live)
    } else {
        let mut t: hashbrown::HashTable<u32> = hashbrown::HashTable::new();
        for i in 0..n {
            t.insert_unique(7, i, |_| 7);
        }
        let addrs: Vec<*const u32> = t.iter().map(|v| v as *const u32).collect();
        let live = |p: *const u32| addrs.contains(&p);
        let r = env::catch(|| match reqs {
            2 => t.get_many_mut([7, 7], |_, _| script_next()).into_iter().map(|o| o.map(|v| (v as *const u32, *v))).collect::<Vec<_>>(),
            _ => t.get_many_mut([7, 7, 7], |_, _| script_next()).into_iter().map(|o| o.map(|v| (v as *const u32, *v))).collect::<Vec<_>>(),
        });
        verdict(r, &live)
    }
}

/// Keys whose own `==` is not reflexive (a NaN-like key type with a safe `impl Eq`), looked up through a borrowed
/// form that matches by identity: "the same entry requested twice" must be decided by the entry, not by `K == K`.
fn nonreflexive_keys(count: &mut u64) -> Result<(), String> {
    #[derive(Clone, Copy, Debug)]
    struct NanKey(u32);
    impl PartialEq for NanKey {
        fn eq(&self, _: &NanKey) -> bool {
            false
        }
    }
    impl Eq for NanKey {}
    impl std::hash::Hash for NanKey {
        fn hash<H: std::hash::Hasher>(&self, s: &mut H) {
            s.write_u32(7);
        }
    }
    #[derive(Clone, Copy, Debug)]
    struct ById(u32);
    impl std::hash::Hash for ById {
        fn hash<H: std::hash::Hasher>(&self, s: &mut H) {
            s.write_u32(7);
        }
    }
    impl hashbrown::Equivalent<NanKey> for ById {
        fn equivalent(&self, k: &NanKey) -> bool {
            self.0 == k.0
        }
    }
    for n in 1..=4u32 {
        for a in 0..=n {
            for b in 0..=n {
                for c in 0..=n {
                    *count += 1;
                    let mut m: hashbrown::HashMap<NanKey, u32, ConstBuild> = hashbrown::HashMap::with_hasher(ConstBuild);
                    for i in 0..n {
                        m.insert(NanKey(i), i);
                    }
                    let req = [ById(a), ById(b), ById(c)];
                    let dup = (a == b && a < n) || (a == c && a < n) || (b == c && b < n);
                    let what = format!("HashMap with {n} keys whose == is never true, get_many_mut / get_many_key_value_mut({:?}) ({n} = absent)", [a, b, c]);
                    for kv in [false, true] {
                        let r = env::catch(|| {
                            if kv {
                                m.get_many_key_value_mut([&req[0], &req[1], &req[2]]).map(|o| o.map(|(_, v)| (v as *const u32 as usize, *v)))
                            } else {
                                m.get_many_mut([&req[0], &req[1], &req[2]]).map(|o| o.map(|v| (v as *const u32 as usize, *v)))
                            }
                        });
                        match r {
                            Err(msg) => {
                                if !dup || !msg.contains("duplicate") {
                                    return Err(format!("{what}: panicked ({msg}); a panic is expected exactly when one stored entry is requested twice ({dup})"));
                                }
                            }
                            Ok(got) => {
                                if dup {
                                    return Err(format!("{what}: returned {:?} although one entry was requested twice", got.map(|g| g.map(|x| x.1))));
                                }
                                for (i, id) in [a, b, c].into_iter().enumerate() {
                                    if got[i].map(|g| g.1) != if id < n { Some(id) } else { None } {
                                        return Err(format!("{what}: request #{i} gave {:?}", got[i].map(|g| g.1)));
                                    }
                                    for j in 0..i {
                                        if got[i].is_some() && got[i].map(|g| g.0) == got[j].map(|g| g.0) {
                                            return Err(format!("{what}: requests #{j} and #{i} got references to the same entry"));
                                        }
                                    }
                                }
                            }
                        }
                    }
                }
            }
        }
    }
    Ok(())
}

fn scripted_all(tier: Tier, count: &mut u64) -> Result<(), (Value, String)> {
    nonreflexive_keys(count).map_err(|m| (json!({"scripted_eq": {"nonreflexive_keys": true}}), m))?;
    let len: u32 = if tier == Tier::Quick { 10 } else { 14 };
    for map in [false, true] {
        for n in 1..=4u32 {
            for reqs in [2usize, 3, 4] {
                if !map && reqs == 4 {
                    continue;
                }
                for bits in 0..(1u32 << len) {
                    *count += 1;
                    if let Err(m) = scripted_case(n, reqs, bits, len, map) {
                        return Err((json!({"scripted_eq": {"n": n, "reqs": reqs, "bits": bits, "len": len, "map": map}}), m));
                    }
                }
            }
        }
    }
    Ok(())
}

impl Config for ScriptedEq {
    fn label(&self) -> String {
        "scripted-equality-answers".into()
    }
    fn run(&self) -> ConfigReport {
        crate::crumbs::set_config(&self.label());
        let t0 = std::time::Instant::now();
        env::reset();
        let mut rep = ConfigReport { label: self.label(), mode: "enum(answer scripts of the equality predicate)".into(), exhaustive: true, ..Default::default() };
        let mut n = 0u64;
        let r = scripted_all(self.tier, &mut n);
        rep.executions = n;
        rep.states = n;
        rep.detail = json!({"entries": "1..=4 with one hash", "requests": "2, 3 (HashTable, HashMap), 2 through get_many_key_value_mut", "script_length": if self.tier == Tier::Quick { 10 } else { 14 }, "distinct_nontrivial": n});
        if let Err((rp, m)) = r {
            rep.violations.push(Viol { config: self.label(), message: m, replay: rp });
        }
        rep.wall_s = t0.elapsed().as_secs_f64();
        rep
    }
    fn replay(&self, rp: &Value) -> Result<(), String> {
        let c = &rp["scripted_eq"];
        let g = |k: &str| c[k].as_u64().unwrap_or(0);
        env::reset();
        if c["nonreflexive_keys"].as_bool() == Some(true) {
            let mut n = 0;
            return nonreflexive_keys(&mut n);
        }
        scripted_case(g("n") as u32, g("reqs") as usize, g("bits") as u32, g("len") as u32, c["map"].as_bool().unwrap_or(false))
    }
}
