//! C20: serde round-trips contents; a lying size hint cannot force over-allocation.

use crate::env::{self, CheckAlloc};
use crate::explore::{self, Limits, Stats};
use crate::inv;
use crate::keys::*;
use crate::mapsut::*;
use crate::report::{outcome_report, Config, ConfigReport, Tier, Viol};
use crate::setsut::{Set, SetCfg, SetHarness, SetOp};
use serde::de::value::{Error as DeError, U64Deserializer};
use serde::de::{DeserializeSeed, Deserializer, Error as _, MapAccess, SeqAccess, Visitor};
use serde::Deserialize;
use serde_json::{json, Value};
use std::sync::atomic::{AtomicU64, Ordering};
use std::sync::Mutex;

type M = Map<TKey, TVal>;

const ZERO_BASE: Baseline = Baseline { live_elems: 0, live_blocks: 0, live_bytes: 0, block_idx: 0, reg_idx: 0 };

/// Input source with a claimed size hint and an injected error position.
#[derive(Clone, Debug)]
struct Src {
    /// (key = id << 32 | tok, value tok)
    entries: Vec<(u64, u64)>,
    hint: Option<usize>,
    /// fail when about to produce item number `fail_at` (keys and values counted separately for maps)
    fail_at: Option<usize>,
    pos: usize,
    produced: usize,
}
impl<'de> Deserializer<'de> for &mut Src {
    type Error = DeError;
    fn deserialize_any<V: Visitor<'de>>(self, _v: V) -> Result<V::Value, DeError> {
        // like the compact binary formats, this input is not self-describing
        Err(DeError::custom("this format is not self-describing: deserialize_any is not supported"))
    }
    fn deserialize_map<V: Visitor<'de>>(self, v: V) -> Result<V::Value, DeError> {
        v.visit_map(self)
    }
    fn deserialize_seq<V: Visitor<'de>>(self, v: V) -> Result<V::Value, DeError> {
        v.visit_seq(self)
    }
    serde::forward_to_deserialize_any! {
        bool i8 i16 i32 i64 i128 u8 u16 u32 u64 u128 f32 f64 char str string bytes byte_buf option unit unit_struct
        newtype_struct tuple tuple_struct struct enum identifier ignored_any
    }
}
impl Src {
    fn tick(&mut self) -> Result<(), DeError> {
        if self.fail_at == Some(self.produced) {
            return Err(DeError::custom("injected input error"));
        }
        self.produced += 1;
        Ok(())
    }
}
impl<'de> MapAccess<'de> for &mut Src {
    type Error = DeError;
    fn next_key_seed<K: DeserializeSeed<'de>>(&mut self, seed: K) -> Result<Option<K::Value>, DeError> {
        if self.pos >= self.entries.len() {
            // an error can also strike at the very end of the input
            if self.fail_at == Some(self.produced) {
                return Err(DeError::custom("injected input error"));
            }
            return Ok(None);
        }
        self.tick()?;
        seed.deserialize(U64Deserializer::new(self.entries[self.pos].0)).map(Some)
    }
    fn next_value_seed<V: DeserializeSeed<'de>>(&mut self, seed: V) -> Result<V::Value, DeError> {
        self.tick()?;
        let v = self.entries[self.pos].1;
        self.pos += 1;
        seed.deserialize(U64Deserializer::new(v))
    }
    fn size_hint(&self) -> Option<usize> {
        self.hint
    }
}
impl<'de> SeqAccess<'de> for &mut Src {
    type Error = DeError;
    fn next_element_seed<T: DeserializeSeed<'de>>(&mut self, seed: T) -> Result<Option<T::Value>, DeError> {
        if self.pos >= self.entries.len() {
            if self.fail_at == Some(self.produced) {
                return Err(DeError::custom("injected input error"));
            }
            return Ok(None);
        }
        self.tick()?;
        let k = self.entries[self.pos].0;
        self.pos += 1;
        seed.deserialize(U64Deserializer::new(k)).map(Some)
    }
    fn size_hint(&self) -> Option<usize> {
        self.hint
    }
}

const HINTS: [Option<usize>; 11] =
    [None, Some(0), Some(1), Some(3), Some(4095), Some(4096), Some(4097), Some(1 << 16), Some(1 << 22), Some(1 << 32), Some(usize::MAX)];

fn alloc_bound_map() -> usize {
    let m: M = M::with_capacity_and_hasher_in(4096, PlanBuild::default(), CheckAlloc);
    m.allocation_size()
}
fn alloc_bound_set() -> usize {
    let m: Set = Set::with_capacity_and_hasher_in(4096, PlanBuild::default(), CheckAlloc);
    m.allocation_size()
}

/// One adversarial input for the map deserializer.
fn one_map_input(syms: &[u8], hint: Option<usize>, fail_at: Option<usize>, bound: usize) -> Result<(), String> {
    env::reset();
    env::set_plan(&Plan::Cluster(2).table());
    // symbol s: key id = s % 3, value class = s / 3; tokens make every occurrence distinguishable
    let entries: Vec<(u64, u64)> = syms.iter().enumerate().map(|(i, &s)| ((((s % 3) as u64) << 32) | (100 + i as u64), 200 + 10 * (s / 3) as u64 + i as u64 * 100)).collect();
    let mut src = Src { entries: entries.clone(), hint, fail_at, pos: 0, produced: 0 };
    env::with(|e| {
        e.log_requests = true;
        e.requests.clear();
    });
    let r = env::catch(|| M::deserialize(&mut src));
    let requests = env::with(|e| {
        e.log_requests = false;
        std::mem::take(&mut e.requests)
    });
    let what = || format!("deserialize(map entries {:?}, claimed size hint {:?}, error injected at item {:?})", syms, hint, fail_at);
    let r = r.map_err(|m| format!("{}: panicked: {m}", what()))?;
    if let Some(first) = requests.first() {
        if first.0 > bound {
            return Err(format!("{}: the first allocation request is {} bytes, more than the {} bytes a hint of 4096 entries would reserve", what(), first.0, bound));
        }
    }
    let total_items = 2 * entries.len();
    let should_fail = fail_at.map_or(false, |f| f <= total_items);
    match r {
        Ok(map) => {
            if should_fail {
                return Err(format!("{}: returned Ok although the input failed", what()));
            }
            // last value wins, first key kept
            let mut model: Vec<(u8, u32, u32)> = Vec::new();
            for &(k, v) in &entries {
                let (id, kt, vt) = ((k >> 32) as u8, k as u32, v as u32);
                match model.iter_mut().find(|e| e.0 == id) {
                    Some(e) => e.2 = vt,
                    None => model.push((id, kt, vt)),
                }
            }
            model.sort_unstable();
            let mut got: Vec<(u8, u32, u32)> = map.iter().map(|(k, v)| (k.id, k.tok, v.tok)).collect();
            got.sort_unstable();
            if got != model {
                return Err(format!("{}: result {:?}, last-value-wins reference {:?}", what(), got, model));
            }
            let d = map.verif_dump();
            inv::check_structure(&d, inv::Which { lawful_hash: true }, &|i| map.verif_bucket(i).map(|(k, _)| plan_hash(k.id)))?;
            drop(map);
        }
        Err(_) => {
            if !should_fail {
                return Err(format!("{}: returned an error although the input is fine", what()));
            }
        }
    }
    // the in-place entry point, into a map that already holds other entries and has room: on success the map must
    // equal the input (nothing of the old contents survives); after an error it must be a valid map
    {
        let mut place: M = M::with_capacity_and_hasher_in(if syms.len() % 2 == 0 { 28 } else { 0 }, PlanBuild::default(), CheckAlloc);
        for id in [0u8, 1, 7, 9] {
            place.insert(TKey::make(id, 900 + id as u32), TVal::make(950 + id as u32));
        }
        place.remove(&KeyRef(1));
        let mut src = Src { entries: entries.clone(), hint, fail_at, pos: 0, produced: 0 };
        let r = env::catch(|| M::deserialize_in_place(&mut src, &mut place));
        let whatp = || format!("{} in place into a map holding keys 0, 7, 9", what());
        let r = r.map_err(|m| format!("{}: panicked: {m}", whatp()))?;
        let d = place.verif_dump();
        inv::check_structure(&d, inv::Which { lawful_hash: true }, &|i| place.verif_bucket(i).map(|(k, _)| plan_hash(k.id))).map_err(|m| format!("{}: {m}", whatp()))?;
        if place.iter().count() != place.len() {
            return Err(format!("{}: len() disagrees with iteration", whatp()));
        }
        match r {
            Ok(()) => {
                if should_fail {
                    return Err(format!("{}: returned Ok although the input failed", whatp()));
                }
                let mut model: Vec<(u8, u32, u32)> = Vec::new();
                for &(k, v) in &entries {
                    let (id, kt, vt) = ((k >> 32) as u8, k as u32, v as u32);
                    match model.iter_mut().find(|e| e.0 == id) {
                        Some(e) => e.2 = vt,
                        None => model.push((id, kt, vt)),
                    }
                }
                model.sort_unstable();
                let mut got: Vec<(u8, u32, u32)> = place.iter().map(|(k, v)| (k.id, k.tok, v.tok)).collect();
                got.sort_unstable();
                if got != model {
                    return Err(format!("{}: result {:?}, the input is {:?}", whatp(), got, model));
                }
            }
            Err(_) => {
                if !should_fail {
                    return Err(format!("{}: returned an error although the input is fine", whatp()));
                }
            }
        }
        drop(place);
    }
    end_of_run_checks(&ZERO_BASE).map_err(|m| format!("{}: {m}", what()))
}

fn one_set_input(syms: &[u8], hint: Option<usize>, fail_at: Option<usize>, bound: usize, in_place_target: Option<&[u8]>) -> Result<(), String> {
    env::reset();
    env::set_plan(&Plan::Zero.table());
    let entries: Vec<(u64, u64)> = syms.iter().enumerate().map(|(i, &s)| ((((s % 3) as u64) << 32) | (100 + i as u64), 0)).collect();
    let mut src = Src { entries: entries.clone(), hint, fail_at, pos: 0, produced: 0 };
    let what = || format!("deserialize(set elements {:?}, claimed size hint {:?}, error injected at item {:?}, in place into {:?})", syms, hint, fail_at, in_place_target);
    let mut model: Vec<(u8, u32)> = Vec::new();
    for &(k, _) in &entries {
        let (id, kt) = ((k >> 32) as u8, k as u32);
        if !model.iter().any(|e| e.0 == id) {
            model.push((id, kt));
        }
    }
    model.sort_unstable();
    let should_fail = fail_at.map_or(false, |f| f <= entries.len());
    // in-place targets are built with a second hasher state for half of the inputs: the result must hash with
    // the target's own hasher
    let alt = in_place_target.map_or(false, |t| (syms.len() + t.len()) % 2 == 1);
    if alt {
        env::with(|e| e.plan_b = Plan::Mix.table());
    }
    let check_set = |s: &Set, exact: bool| -> Result<(), String> {
        let d = s.verif_dump();
        inv::check_structure(&d, inv::Which { lawful_hash: true }, &|i| s.verif_bucket(i).map(|k| if alt { env::with(|e| e.plan_b[k.id as usize]) } else { plan_hash(k.id) }))
            .map_err(|m| format!("{}: {m}", what()))?;
        for g in s.iter() {
            if s.get(&KeyRef(g.id)).map(|k| k.tok) != Some(g.tok) || !s.contains(&KeyRef(g.id)) {
                return Err(format!("{}: element {} is yielded by iter() but not found by get() / contains()", what(), g.id));
            }
        }
        let mut got: Vec<(u8, u32)> = s.iter().map(|k| (k.id, k.tok)).collect();
        got.sort_unstable();
        if exact && got != model {
            return Err(format!("{}: result {:?}, reference {:?}", what(), got, model));
        }
        if !exact && got.iter().any(|g| !model.contains(g)) {
            return Err(format!("{}: after the error the set holds {:?}, not a subset of the input {:?}", what(), got, model));
        }
        if got.len() != s.len() {
            return Err(format!("{}: len() disagrees with iteration", what()));
        }
        Ok(())
    };
    match in_place_target {
        None => {
            env::with(|e| {
                e.log_requests = true;
                e.requests.clear();
            });
            let r = env::catch(|| Set::deserialize(&mut src));
            let requests = env::with(|e| {
                e.log_requests = false;
                std::mem::take(&mut e.requests)
            });
            let r = r.map_err(|m| format!("{}: panicked: {m}", what()))?;
            if let Some(first) = requests.first() {
                if first.0 > bound {
                    return Err(format!("{}: first allocation request {} bytes exceeds the bound {}", what(), first.0, bound));
                }
            }
            match r {
                Ok(s) => {
                    if should_fail {
                        return Err(format!("{}: returned Ok although the input failed", what()));
                    }
                    check_set(&s, true)?;
                }
                Err(_) => {
                    if !should_fail {
                        return Err(format!("{}: returned an error although the input is fine", what()));
                    }
                }
            }
        }
        Some(t) => {
            let mut place = Set::with_hasher_in(PlanBuild { alt }, CheckAlloc);
            for (i, &id) in t.iter().enumerate() {
                place.insert(TKey::make(id, 900 + i as u32));
            }
            if t.len() > 1 {
                place.remove(&KeyRef(t[0]));
            }
            let before = place.allocation_size();
            env::with(|e| {
                e.log_requests = true;
                e.requests.clear();
            });
            let r = env::catch(|| Set::deserialize_in_place(&mut src, &mut place));
            let requests = env::with(|e| {
                e.log_requests = false;
                std::mem::take(&mut e.requests)
            });
            let r = r.map_err(|m| format!("{}: panicked: {m}", what()))?;
            if let Some(first) = requests.first() {
                if first.0 > bound.max(before) {
                    return Err(format!("{}: first allocation request {} bytes exceeds the bound {}", what(), first.0, bound));
                }
            }
            match r {
                Ok(()) => {
                    if should_fail {
                        return Err(format!("{}: returned Ok although the input failed", what()));
                    }
                    check_set(&place, true)?;
                }
                Err(_) => {
                    if !should_fail {
                        return Err(format!("{}: returned an error although the input is fine", what()));
                    }
                    check_set(&place, false)?;
                }
            }
            drop(place);
        }
    }
    end_of_run_checks(&ZERO_BASE).map_err(|m| format!("{}: {m}", what()))
}

/// Zero-sized element type (its table still allocates one control byte per bucket).
#[derive(Clone, Copy, PartialEq, Eq, Hash, Default, Debug)]
struct ZK;
impl<'de> Deserialize<'de> for ZK {
    fn deserialize<D: Deserializer<'de>>(d: D) -> Result<Self, D::Error> {
        u64::deserialize(d)?;
        Ok(ZK)
    }
}

/// Element layouts beyond the tracked pair: zero-sized and 64-byte elements, every hint, 0..2 entries.
fn layout_hint_inputs() -> Result<u64, String> {
    type ZSet = hashbrown::HashSet<ZK, PlanBuild, CheckAlloc>;
    type ZMap = hashbrown::HashMap<ZK, ZK, PlanBuild, CheckAlloc>;
    let mut n = 0;
    for &hint in HINTS.iter() {
        for len in 0..3usize {
            for fail in [None, Some(len)] {
                let entries: Vec<(u64, u64)> = (0..len as u64).map(|i| (i, i)).collect();
                let what = |k: &str| format!("deserialize({k} of zero-sized elements, {len} entries, claimed size hint {:?}, error at {:?})", hint, fail);
                // set
                env::reset();
                env::set_plan(&Plan::Zero.table());
                let bound = ZSet::with_capacity_and_hasher_in(4096, PlanBuild::default(), CheckAlloc).allocation_size();
                let mut src = Src { entries: entries.clone(), hint, fail_at: fail, pos: 0, produced: 0 };
                env::with(|e| {
                    e.log_requests = true;
                    e.requests.clear();
                });
                let r = env::catch(|| ZSet::deserialize(&mut src));
                let req = env::with(|e| {
                    e.log_requests = false;
                    std::mem::take(&mut e.requests)
                });
                let r = r.map_err(|m| format!("{}: panicked: {m}", what("set")))?;
                if let Some(f) = req.first() {
                    if f.0 > bound {
                        return Err(format!("{}: first allocation request {} bytes exceeds the {} bytes of a 4096-entry hint", what("set"), f.0, bound));
                    }
                }
                if let Ok(s) = &r {
                    if s.len() != len.min(1) {
                        return Err(format!("{}: result has {} elements", what("set"), s.len()));
                    }
                }
                drop(r);
                end_of_run_checks(&ZERO_BASE).map_err(|m| format!("{}: {m}", what("set")))?;
                // in place
                let mut place = ZSet::default();
                let mut src = Src { entries: entries.clone(), hint, fail_at: fail, pos: 0, produced: 0 };
                env::with(|e| {
                    e.log_requests = true;
                    e.requests.clear();
                });
                let r = env::catch(|| ZSet::deserialize_in_place(&mut src, &mut place));
                let req = env::with(|e| {
                    e.log_requests = false;
                    std::mem::take(&mut e.requests)
                });
                r.map_err(|m| format!("{}: deserialize_in_place panicked: {m}", what("set")))?.ok();
                if let Some(f) = req.first() {
                    if f.0 > bound {
                        return Err(format!("{}: deserialize_in_place: first allocation request {} bytes exceeds {}", what("set"), f.0, bound));
                    }
                }
                drop(place);
                // map
                let boundm = ZMap::with_capacity_and_hasher_in(4096, PlanBuild::default(), CheckAlloc).allocation_size();
                let mut src = Src { entries: entries.clone(), hint, fail_at: fail.map(|f| 2 * f), pos: 0, produced: 0 };
                env::with(|e| {
                    e.log_requests = true;
                    e.requests.clear();
                });
                let r = env::catch(|| ZMap::deserialize(&mut src));
                let req = env::with(|e| {
                    e.log_requests = false;
                    std::mem::take(&mut e.requests)
                });
                let r = r.map_err(|m| format!("{}: panicked: {m}", what("map")))?;
                if let Some(f) = req.first() {
                    if f.0 > boundm {
                        return Err(format!("{}: first allocation request {} bytes exceeds the {} bytes of a 4096-entry hint", what("map"), f.0, boundm));
                    }
                }
                drop(r);
                end_of_run_checks(&ZERO_BASE).map_err(|m| format!("{}: {m}", what("map")))?;
                n += 3;
            }
        }
    }
    n += big_place_inputs()?;
    n += long_lying_inputs()?;
    Ok(n)
}

/// Inputs that really are long (more entries than the 4096-entry cap reserves room for) and claim to be much
/// longer: every allocation request made while reading must be justified by the cap or by the number of entries
/// read so far (the table at most doubles), never by the claimed length.
fn long_lying_inputs() -> Result<u64, String> {
    type BMap = hashbrown::HashMap<u64, u64, std::hash::BuildHasherDefault<IdH>, CheckAlloc>;
    type BSet = hashbrown::HashSet<u64, std::hash::BuildHasherDefault<IdH>, CheckAlloc>;
    let mut n = 0;
    for &len in &[7168usize, 7169, 7300, 14337] {
        for &hint in &[Some(1usize << 20), Some(1 << 32), Some(usize::MAX), Some(0), None] {
            for is_map in [true, false] {
                env::reset();
                let entries: Vec<(u64, u64)> = (0..len as u64).map(|i| (i, i)).collect();
                let mut src = Src { entries, hint, fail_at: None, pos: 0, produced: 0 };
                let what = format!("deserialize({} of {len} distinct entries, claimed size hint {:?})", if is_map { "map" } else { "set" }, hint);
                env::with(|e| {
                    e.log_requests = true;
                    e.requests.clear();
                });
                let got_len = if is_map {
                    env::catch(|| BMap::deserialize(&mut src)).map_err(|m| format!("{what}: panicked: {m}"))?.map_err(|e| format!("{what}: failed: {e}"))?.len()
                } else {
                    env::catch(|| BSet::deserialize(&mut src)).map_err(|m| format!("{what}: panicked: {m}"))?.map_err(|e| format!("{what}: failed: {e}"))?.len()
                };
                let req = env::with(|e| {
                    e.log_requests = false;
                    std::mem::take(&mut e.requests)
                });
                if got_len != len {
                    return Err(format!("{what}: result has {got_len} entries"));
                }
                // the largest table the input itself justifies: one doubling beyond what holds `len` entries
                let bound = if is_map {
                    BMap::with_capacity_and_hasher_in((2 * len + 2).max(4096), Default::default(), CheckAlloc).allocation_size()
                } else {
                    BSet::with_capacity_and_hasher_in((2 * len + 2).max(4096), Default::default(), CheckAlloc).allocation_size()
                };
                if let Some(f) = req.iter().find(|f| f.0 > bound) {
                    return Err(format!("{what}: an allocation of {} bytes was requested; the entries actually read justify at most {bound} bytes", f.0));
                }
                end_of_run_checks(&ZERO_BASE).map_err(|m| format!("{what}: {m}"))?;
                n += 1;
            }
        }
    }
    Ok(n)
}

/// identity hasher for u64 elements
#[derive(Default, Clone)]
struct IdH(u64);
impl std::hash::Hasher for IdH {
    fn finish(&self) -> u64 {
        self.0.wrapping_mul(0x9E37_79B9_7F4A_7C15)
    }
    fn write(&mut self, b: &[u8]) {
        for &x in b {
            self.0 = (self.0 << 8) | x as u64;
        }
    }
    fn write_u64(&mut self, v: u64) {
        self.0 = v;
    }
}

/// deserialize_in_place into sets that already hold thousands of elements (full, nearly full, half full):
/// before the first element is read no allocation larger than both the old one and a 4096-entry table
/// may be requested, for every claimed hint.
fn big_place_inputs() -> Result<u64, String> {
    type BSet = hashbrown::HashSet<u64, std::hash::BuildHasherDefault<IdH>, CheckAlloc>;
    let mut n = 0;
    for &(cap, fill) in &[(4096usize, 7168usize), (4096, 7167), (4096, 3168), (3584, 3584), (28, 28), (28, 27)] {
        for &hint in HINTS.iter() {
            for len in [0usize, 2] {
                env::reset();
                let bound = BSet::with_capacity_and_hasher_in(4096, Default::default(), CheckAlloc).allocation_size();
                let mut place = BSet::with_capacity_and_hasher_in(cap, Default::default(), CheckAlloc);
                let fill = fill.min(place.capacity());
                for i in 0..fill as u64 {
                    place.insert(1000 + i);
                }
                let before = place.allocation_size();
                let what = format!("deserialize_in_place({len} elements, claimed size hint {:?}) into a set holding {fill} elements with capacity {}", hint, place.capacity());
                let entries: Vec<(u64, u64)> = (0..len as u64).map(|i| (i, 0)).collect();
                let mut src = Src { entries, hint, fail_at: None, pos: 0, produced: 0 };
                env::with(|e| {
                    e.log_requests = true;
                    e.requests.clear();
                });
                let r = env::catch(|| BSet::deserialize_in_place(&mut src, &mut place));
                let req = env::with(|e| {
                    e.log_requests = false;
                    std::mem::take(&mut e.requests)
                });
                r.map_err(|m| format!("{what}: panicked: {m}"))?.map_err(|e| format!("{what}: failed: {e}"))?;
                for f in &req {
                    if f.0 > bound.max(before) {
                        return Err(format!("{what}: allocation request of {} bytes exceeds both the old allocation ({before}) and that of a 4096-entry hint ({bound})", f.0));
                    }
                }
                let mut got: Vec<u64> = place.iter().copied().collect();
                got.sort_unstable();
                if got != (0..len as u64).collect::<Vec<_>>() {
                    return Err(format!("{what}: result holds {} elements, expected exactly the {len} of the input", got.len()));
                }
                drop(place);
                end_of_run_checks(&ZERO_BASE).map_err(|m| format!("{what}: {m}"))?;
                n += 1;
            }
        }
    }
    Ok(n)
}

fn all_seqs(max_len: usize) -> Vec<Vec<u8>> {
    let mut out = vec![vec![]];
    let mut frontier = vec![vec![]];
    for _ in 0..max_len {
        let mut next = Vec::new();
        for s in &frontier {
            for sym in 0..6u8 {
                let mut t: Vec<u8> = s.clone();
                t.push(sym);
                next.push(t);
            }
        }
        out.extend(next.iter().cloned());
        frontier = next;
    }
    out
}

struct Adversarial {
    tier: Tier,
}
impl Config for Adversarial {
    fn label(&self) -> String {
        "adversarial-inputs".into()
    }
    fn run(&self) -> ConfigReport {
        crate::crumbs::set_config(&self.label());
        let t0 = std::time::Instant::now();
        let q = self.tier == Tier::Quick;
        let seqs = all_seqs(if q { 4 } else { 6 });
        env::reset();
        let (bm, bs) = (alloc_bound_map(), alloc_bound_set());
        let runs = AtomicU64::new(0);
        let viol: Mutex<Option<(Value, String)>> = Mutex::new(None);
        let next = std::sync::atomic::AtomicUsize::new(0);
        let targets: [&[u8]; 4] = [&[], &[0], &[0, 1, 2], &[2, 1, 0, 3, 4, 5, 6, 7]];
        std::thread::scope(|sc| {
            for w in 0..explore::nthreads() {
                let (seqs, runs, viol, next, targets) = (&seqs, &runs, &viol, &next, &targets);
                sc.spawn(move || {
                    env::WORKER.with(|c| c.set(w));
                    loop {
                        let i = next.fetch_add(1, Ordering::Relaxed);
                        if i >= seqs.len() || viol.lock().unwrap().is_some() {
                            break;
                        }
                        let s = &seqs[i];
                        for &hint in HINTS.iter() {
                            let mut fails: Vec<Option<usize>> = vec![None];
                            fails.extend((0..=2 * s.len()).map(Some));
                            for &f in &fails {
                                let rp = json!({"kind": "map", "syms": s, "hint": hint, "fail_at": f});
                                crate::crumbs::set_replay(&rp.to_string());
                                runs.fetch_add(1, Ordering::Relaxed);
                                if let Err(m) = one_map_input(s, hint, f, bm) {
                                    *viol.lock().unwrap() = Some((rp, m));
                                    return;
                                }
                                if f.map_or(true, |f| f <= s.len()) {
                                    let rp = json!({"kind": "set", "syms": s, "hint": hint, "fail_at": f, "target": Value::Null});
                                    crate::crumbs::set_replay(&rp.to_string());
                                    runs.fetch_add(1, Ordering::Relaxed);
                                    if let Err(m) = one_set_input(s, hint, f, bs, None) {
                                        *viol.lock().unwrap() = Some((rp, m));
                                        return;
                                    }
                                    if s.len() <= 3 || hint.is_none() {
                                        for t in targets.iter() {
                                            let rp = json!({"kind": "set", "syms": s, "hint": hint, "fail_at": f, "target": t});
                                            crate::crumbs::set_replay(&rp.to_string());
                                            runs.fetch_add(1, Ordering::Relaxed);
                                            if let Err(m) = one_set_input(s, hint, f, bs, Some(t)) {
                                                *viol.lock().unwrap() = Some((rp, m));
                                                return;
                                            }
                                        }
                                    }
                                }
                            }
                        }
                    }
                    crate::crumbs::clear();
                });
            }
        });
        let mut rep = ConfigReport {
            label: self.label(),
            mode: "enum+faults".into(),
            states: seqs.len() as u64,
            executions: runs.load(Ordering::Relaxed),
            exhaustive: true,
            wall_s: t0.elapsed().as_secs_f64(),
            ..Default::default()
        };
        rep.detail = json!({"input_sequences": seqs.len(), "max_entries": if q { 4 } else { 6 }, "alphabet": "3 keys x 2 values", "claimed_hints": HINTS.iter().map(|h| format!("{:?}", h)).collect::<Vec<_>>(),
            "runs": rep.executions, "allocation_bound_map_bytes": bm, "allocation_bound_set_bytes": bs, "distinct_nontrivial": rep.executions});
        rep.samples.push(json!({"kind": "map", "syms": [0, 3, 1, 0], "hint": "Some(usize::MAX)", "fail_at": 5}));
        if let Some((rp, m)) = viol.into_inner().unwrap() {
            rep.violations.push(Viol { config: self.label(), message: m, replay: rp });
        }
        if rep.violations.is_empty() {
            // (a crash - e.g. an allocation failure on an infallible path - is attributed to this part through the breadcrumb)
            crate::crumbs::set_replay_unwatched(&json!({"kind": "zst"}).to_string());
            match env::catch(layout_hint_inputs) {
                Ok(Ok(k)) => rep.executions += k,
                Ok(Err(m)) | Err(m) => rep.violations.push(Viol { config: self.label(), message: m, replay: json!({"kind": "zst"}) }),
            }
        }
        rep
    }
    fn replay(&self, rp: &Value) -> Result<(), String> {
        if rp["kind"] == "zst" {
            return match env::catch(layout_hint_inputs) {
                Ok(r) => r.map(|_| ()),
                Err(m) => Err(m),
            };
        }
        let syms: Vec<u8> = serde_json::from_value(rp["syms"].clone()).map_err(|e| format!("MACHINERY: bad replay: {e}"))?;
        let hint: Option<usize> = serde_json::from_value(rp["hint"].clone()).map_err(|e| format!("MACHINERY: bad replay: {e}"))?;
        let fail: Option<usize> = serde_json::from_value(rp["fail_at"].clone()).map_err(|e| format!("MACHINERY: bad replay: {e}"))?;
        env::reset();
        let (bm, bs) = (alloc_bound_map(), alloc_bound_set());
        let r = env::catch(|| {
            if rp["kind"] == "map" {
                one_map_input(&syms, hint, fail, bm)
            } else {
                let t: Option<Vec<u8>> = serde_json::from_value(rp["target"].clone()).unwrap_or(None);
                one_set_input(&syms, hint, fail, bs, t.as_deref())
            }
        });
        match r {
            Ok(r) => r,
            Err(m) => Err(format!("unexpected panic: {m}")),
        }
    }
}

/// deserialize(serialize(x)) == x for every visited state of a closed search.
struct RoundTrip {
    tier: Tier,
}
impl RoundTrip {
    fn harness(&self) -> MapHarness<TKey, TVal> {
        let mut c = MapCfg::new(Plan::Zero, if self.tier == Tier::Quick { 8 } else { 14 });
        c.alphabet = Alphabet::core();
        c.max_buckets = 32;
        MapHarness::new(c)
    }
    fn one(&self, h: &MapHarness<TKey, TVal>, hist: &[MapOp]) -> Result<(), String> {
        let st = Stats::default();
        let s = explore::replay(h, hist, &st)?;
        let text = serde_json::to_string(&s.map).map_err(|e| format!("serialize failed: {e}"))?;
        let back: M = serde_json::from_str(&text).map_err(|e| format!("deserialize(serialize(x)) failed: {e}"))?;
        if !(back == s.map && s.map == back) {
            return Err(format!("deserialize(serialize(x)) != x for x = {text}"));
        }
        let mut a: Vec<_> = back.iter().map(|(k, v)| (k.id, k.tok, v.tok)).collect();
        a.sort_unstable();
        let mut b = s.model.clone();
        b.sort_unstable();
        if a != b {
            return Err(format!("round trip changed the contents: {:?} vs {:?}", a, b));
        }
        // the same for a set of the keys
        let set: Set = s.map.keys().cloned().collect();
        let text = serde_json::to_string(&set).map_err(|e| format!("serialize failed: {e}"))?;
        let sb: Set = serde_json::from_str(&text).map_err(|e| format!("set deserialize failed: {e}"))?;
        if sb != set {
            return Err(format!("set round trip: deserialize(serialize(x)) != x for x = {text}"));
        }
        let mut place: Set = [TKey::make(200, 1), TKey::make(201, 2)].into_iter().collect();
        let mut de = serde_json::Deserializer::from_str(&text);
        Set::deserialize_in_place(&mut de, &mut place).map_err(|e| format!("deserialize_in_place failed: {e}"))?;
        if place != set {
            return Err("deserialize_in_place result differs from the source".into());
        }
        drop((back, set, sb, place));
        s.finish()
    }
}
impl Config for RoundTrip {
    fn label(&self) -> String {
        "round-trip-over-visited-states".into()
    }
    fn run(&self) -> ConfigReport {
        crate::crumbs::set_config(&self.label());
        let h = self.harness();
        let stats = Stats::default();
        let out = explore::bfs(&h, vec![vec![]], &Limits { max_wall_s: 30.0, ..Default::default() }, &stats);
        let mut rep = outcome_report(&self.label(), "bfs+probe", &out, &stats);
        if out.violation.is_some() {
            return rep;
        }
        let next = std::sync::atomic::AtomicUsize::new(0);
        let viol: Mutex<Option<(Value, String)>> = Mutex::new(None);
        let n = AtomicU64::new(0);
        std::thread::scope(|sc| {
            for w in 0..explore::nthreads() {
                let (next, viol, n, out, h) = (&next, &viol, &n, &out, &h);
                sc.spawn(move || {
                    env::WORKER.with(|c| c.set(w));
                    loop {
                        let i = next.fetch_add(1, Ordering::Relaxed);
                        if i >= out.states || viol.lock().unwrap().is_some() {
                            break;
                        }
                        let hist = out.history(i);
                        match env::catch(|| self.one(h, &hist)) {
                            Ok(Ok(())) => {
                                n.fetch_add(3, Ordering::Relaxed);
                            }
                            Ok(Err(m)) | Err(m) => {
                                *viol.lock().unwrap() = Some((json!({"history": hist}), m));
                            }
                        }
                    }
                });
            }
        });
        rep.probes = n.load(Ordering::Relaxed);
        if let Some((rp, m)) = viol.into_inner().unwrap() {
            rep.violations.push(Viol { config: self.label(), message: m, replay: rp });
        }
        rep
    }
    fn replay(&self, rp: &Value) -> Result<(), String> {
        let hist: Vec<MapOp> = serde_json::from_value(rp["history"].clone()).map_err(|e| format!("MACHINERY: bad replay: {e}"))?;
        // the violation may come from the underlying search itself
        crate::report::BfsConfig::new(self.label(), self.harness(), Limits::default()).replay(rp)?;
        match env::catch(|| self.one(&self.harness(), &hist)) {
            Ok(r) => r,
            Err(m) => Err(m),
        }
    }
}

pub fn configs(tier: Tier) -> Vec<Box<dyn Config>> {
    let _ = (SetCfg::new(Plan::Zero, 1), None::<SetHarness>, None::<SetOp>);
    vec![Box::new(RoundTrip { tier }), Box::new(Adversarial { tier })]
}
