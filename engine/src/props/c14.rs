//! C14: entry-style APIs agree with plain lookup/insert/remove, even at full load.

use crate::explore::{Limits, Mech};
use crate::keys::*;
use crate::mapsut::*;
use crate::report::{BfsConfig, Config, Tier};

fn cfg<K: KeyT, V: ValT>(plan: Plan, universe: u8, seeds: Option<Vec<Vec<MapOp>>>, depth: Option<u32>, tier: Tier, tag: &str) -> Box<dyn Config> {
    let mut c = MapCfg::new(plan, universe);
    c.max_buckets = if super::width() == 16 { 64 } else { 32 };
    // state-changing core + every entry-style API
    let mut a = Alphabet::core();
    a.entry = ENTRY_ACTS.to_vec();
    a.entry_ref = ENTRY_REF_ACTS.to_vec();
    a.raw_entry = true;
    a.rustc_entry = true;
    c.alphabet = a;
    c.probes = vec![Probe::Entry];
    let label = format!("{}-{}-entry{}", c.label(), K::NAME, tag);
    let lim = Limits {
        max_depth: depth,
        max_wall_s: if tier == Tier::Quick { 40.0 } else { 900.0 },
        max_states: if tier == Tier::Quick { 400_000 } else { 6_000_000 },
        ..Default::default()
    };
    let mut b = BfsConfig::new(label, MapHarness::<K, V>::new(c), lim);
    if let Some(s) = seeds {
        b.seeds = s;
    }
    b.post = Some(Box::new(|_out, stats| {
        if stats.get(Mech::FullLoad) == 0 {
            return Err("anti-vacuity: no state with capacity() == len() / growth_left == 0 was visited".into());
        }
        Ok(serde_json::json!({"full_load_states_visited": stats.get(Mech::FullLoad)}))
    }));
    Box::new(b)
}

pub fn configs(tier: Tier) -> Vec<Box<dyn Config>> {
    let sse2 = super::width() == 16;
    let q = tier == Tier::Quick;
    let mut v: Vec<Box<dyn Config>> = Vec::new();
    // closures handed to entry methods (and_modify, or_insert_with*, and_replace_entry_with, replace_entry_with) that panic:
    // afterwards the map must still agree with plain operations (single-fault enumeration, details: C04)
    v.push(super::c04::mk::<TKey, TVal>(Plan::Zero, if q { 4 } else { 6 }, vec![vec![]], None, tier, false, "-faults"));
    // entry-style insertion into deep multi-home layouts at full load (layout grammar, RawTable::insert path)
    v.push(Box::new(super::rehash::RehashGrammar { tier }));
    // probe windows that start at the last bucket and wrap (tables smaller than a group rely on the insert-slot fix-up)
    v.push(cfg::<TKey, TVal>(Plan::Max, if q { 5 } else { 8 }, None, None, tier, ""));
    v.push(cfg::<PKey, PVal>(Plan::Last, if q { 4 } else { 6 }, None, None, tier, ""));
    // HashSet::entry and its Occupied / Vacant entries (full set alphabet)
    v.push(super::c07::single(Plan::Zero, if q { 6 } else { 10 }, tier));
    v.push(super::c07::single(Plan::Max, if q { 4 } else { 6 }, tier));
    if sse2 {
        v.push(cfg::<TKey, TVal>(Plan::Zero, if q { 9 } else { 11 }, None, None, tier, ""));
        v.push(cfg::<PKey, PVal>(Plan::Seq, if q { 4 } else { 5 }, None, None, tier, ""));
        // full 16- and 32-bucket tables, with and without tombstones
        let mut seeds = vec![(0..14).map(MapOp::Insert).collect::<Vec<_>>(), (0..28).map(MapOp::Insert).collect::<Vec<_>>()];
        let mut s = (0..28).map(MapOp::Insert).collect::<Vec<_>>();
        s.extend((0..20).map(MapOp::Remove));
        seeds.push(s);
        v.push(cfg::<TKey, TVal>(Plan::Zero, 30, Some(seeds.clone()), Some(if q { 1 } else { 2 }), tier, "-seeded"));
        // one key per bucket: absent keys whose probe starts at an EMPTY slot next to tombstones
        v.push(cfg::<PKey, PVal>(Plan::Seq, 31, Some(seeds.clone()), Some(1), tier, "-seeded"));
        v.push(cfg::<TKey, TVal>(Plan::Tail, 30, Some(seeds), Some(1), tier, "-seeded"));
        // a run of full buckets that starts in the middle of a group and is longer than a group: the second probe
        // window of a key whose home is inside the run is not group-aligned (keys 69.. share homes with 5..)
        let run: Vec<MapOp> = (5..33).map(MapOp::Insert).collect();
        let mut run64 = run.clone();
        run64.extend((37..60).map(MapOp::Insert));
        v.push(cfg::<PKey, PVal>(Plan::Seq, 72, Some(vec![run, run64]), Some(1), tier, "-seeded-unaligned-run"));
    } else {
        v.push(cfg::<TKey, TVal>(Plan::Zero, if q { 9 } else { 12 }, None, None, tier, ""));
        v.push(cfg::<PKey, PVal>(Plan::Cluster(2), if q { 4 } else { 6 }, None, None, tier, ""));
        let mut seeds = vec![(0..7).map(MapOp::Insert).collect::<Vec<_>>(), (0..14).map(MapOp::Insert).collect::<Vec<_>>()];
        let mut s = (0..14).map(MapOp::Insert).collect::<Vec<_>>();
        s.extend((0..10).map(MapOp::Remove));
        seeds.push(s);
        v.push(cfg::<TKey, TVal>(Plan::Zero, 16, Some(seeds.clone()), Some(if q { 1 } else { 2 }), tier, "-seeded"));
        v.push(cfg::<PKey, PVal>(Plan::Seq, 16, Some(seeds.clone()), Some(1), tier, "-seeded"));
        v.push(cfg::<TKey, TVal>(Plan::Tail, 16, Some(seeds), Some(1), tier, "-seeded"));
        let run: Vec<MapOp> = (5..19).map(MapOp::Insert).collect();
        let mut run32: Vec<MapOp> = (5..21).map(MapOp::Insert).collect();
        run32.extend((23..31).map(MapOp::Insert));
        v.push(cfg::<PKey, PVal>(Plan::Seq, 40, Some(vec![run, run32]), Some(1), tier, "-seeded-unaligned-run"));
    }
    v
}
