//! C09: every iterator yields each element exactly once with exact length reporting.
//! C10: retain / extract_if / drain remove exactly the selected elements.
//! (HashMap parts; the HashSet / HashTable counterparts live in their own systems.)

use crate::explore::Limits;
use crate::keys::*;
use crate::mapsut::*;
use crate::report::{BfsConfig, Config, Tier};

pub fn map_cfg(plan: Plan, universe: u8, probes: Vec<Probe>, tier: Tier, tag: &str) -> Box<dyn Config> {
    let mut c = MapCfg::new(plan, universe);
    c.max_buckets = if super::width() == 16 { 64 } else { 32 };
    c.alphabet = Alphabet::core();
    c.probes = probes;
    let label = format!("{}-{}", c.label(), tag);
    let lim = Limits {
        max_wall_s: if tier == Tier::Quick { 40.0 } else { 900.0 },
        max_states: if tier == Tier::Quick { 400_000 } else { 6_000_000 },
        ..Default::default()
    };
    Box::new(BfsConfig::new(label, MapHarness::<TKey, TVal>::new(c), lim))
}

fn set_probe_cfg(plan: Plan, universe: u8, tier: Tier) -> Box<dyn Config> {
    let mut c = crate::setsut::SetCfg::new(plan, universe);
    c.full_alphabet = false;
    c.iter_probes = true;
    c.max_buckets = if super::width() == 16 { 64 } else { 32 };
    let label = format!("{}-iter-removal-probes", c.label());
    Box::new(BfsConfig::new(label, crate::setsut::SetHarness::new(c), Limits { max_wall_s: if tier == Tier::Quick { 30.0 } else { 600.0 }, ..Default::default() }))
}

pub fn configs_c09(tier: Tier) -> Vec<Box<dyn Config>> {
    let sse2 = super::width() == 16;
    let q = tier == Tier::Quick;
    let p = vec![Probe::Iterators];
    let mut v = Vec::new();
    v.push(Box::new(super::widebattery::WideBattery { tier, part: super::widebattery::Part::Iter }) as Box<dyn Config>);
    // HashSet and HashTable counterparts
    v.push(set_probe_cfg(Plan::Zero, if q { 8 } else { 11 }, tier));
    v.push(super::c06::tab(Plan::Zero, if q { 5 } else { 7 }, if q { 7 } else { 9 }, vec![crate::tablesut::TProbe::Iterators], false, tier, "-iterators"));
    // over-aligned elements: iterating unallocated and small tables (the shared empty table is only group-aligned)
    v.push(super::c02::lay::<crate::laysut::A64>(crate::laysut::Coll::Map, Plan::Zero, if q { 3 } else { 5 }, tier));
    v.push(super::c02::lay::<crate::laysut::A32>(crate::laysut::Coll::Table, Plan::Max, if q { 3 } else { 5 }, tier));
    // the set-algebra iterators (union / intersection / difference / symmetric_difference): size_hint brackets,
    // next / fold agreement, clones taken mid-way, over all ordered pairs of small sets
    v.push(super::c07::pairs(Plan::Zero, 3, Plan::Zero, 3, false, tier));
    // zero-sized elements: exact lengths and next / fold / for_each agreement of every HashTable iterator
    v.push(Box::new(super::c02::ZstTables { tier }));
    // scripted deep tables (elements displaced into a second probe group, tombstones): iter / iter_hash / owning iterators
    v.push(super::c06::seeded_with(Plan::Zero, false, if q { 0 } else { 1 }, vec![crate::tablesut::TProbe::Iterators], tier));
    v.push(super::c06::seeded_with(Plan::Max, false, if q { 0 } else { 1 }, vec![crate::tablesut::TProbe::Iterators], tier));
    if sse2 {
        v.push(map_cfg(Plan::Zero, if q { 13 } else { 16 }, p.clone(), tier, "map-iter"));
        v.push(map_cfg(Plan::Seq, if q { 4 } else { 6 }, p.clone(), tier, "map-iter"));
        v.push(map_cfg(Plan::Last, if q { 5 } else { 7 }, p.clone(), tier, "map-iter"));
        // first key in the LAST bucket: with 15+ keys the table has two groups and the last group is occupied
        v.push(map_cfg(Plan::Max, if q { 15 } else { 17 }, p.clone(), tier, "map-iter"));
    } else {
        v.push(map_cfg(Plan::Zero, if q { 12 } else { 14 }, p.clone(), tier, "map-iter"));
        v.push(map_cfg(Plan::Seq, if q { 4 } else { 6 }, p.clone(), tier, "map-iter"));
        v.push(map_cfg(Plan::Cluster(2), if q { 6 } else { 9 }, p.clone(), tier, "map-iter"));
    }
    v
}

pub fn configs_c10(tier: Tier) -> Vec<Box<dyn Config>> {
    let sse2 = super::width() == 16;
    let q = tier == Tier::Quick;
    let mut pre: Vec<Box<dyn Config>> = Vec::new();
    pre.push(Box::new(super::widebattery::WideBattery { tier, part: super::widebattery::Part::Remove }));
    // removal while a destructor or predicate panics: exactly the selected elements must be gone (details: C04)
    pre.push(super::c04::mk::<TKey, TVal>(Plan::Zero, if q { 4 } else { 6 }, vec![vec![]], None, tier, false, "-faults"));
    let p = vec![Probe::Removal { max_subset_len: if q { 8 } else { 11 } }];
    let mut v = pre;
    v.push(set_probe_cfg(if sse2 { Plan::Seq } else { Plan::Zero }, if q { 6 } else { 9 }, tier));
    // HashTable: retain / extract_if (every cut) / drain are operations of its alphabet, checked against the multiset
    v.push(super::c06::tab(Plan::Zero, if q { 4 } else { 7 }, if q { 6 } else { 9 }, vec![crate::tablesut::TProbe::Iterators], true, tier, "-removal"));
    if sse2 {
        v.push(map_cfg(Plan::Zero, if q { 11 } else { 14 }, p.clone(), tier, "map-removal"));
        v.push(map_cfg(Plan::Seq, if q { 4 } else { 6 }, p.clone(), tier, "map-removal"));
        v.push(Box::new(super::c02::ZstTables { tier }));
    } else {
        v.push(map_cfg(Plan::Zero, if q { 11 } else { 13 }, p.clone(), tier, "map-removal"));
        v.push(Box::new(super::c02::ZstTables { tier }));
        v.push(map_cfg(Plan::Cluster(2), if q { 6 } else { 8 }, p.clone(), tier, "map-removal"));
    }
    v
}
