//! Explicit-state explorer: level-synchronous breadth-first search over the
//! real implementation. A state is represented by the shortest history that
//! reaches it; expanding a state replays that history on a fresh collection
//! and applies one more operation.

use crate::env;
use std::collections::HashMap as StdMap;
use std::fmt::Debug;
use std::sync::atomic::{AtomicBool, AtomicU64, AtomicUsize, Ordering};
use std::sync::Mutex;
use std::time::Instant;

pub const NMECH: usize = 16;
#[derive(Clone, Copy, Debug)]
#[repr(usize)]
pub enum Mech {
    Grew = 0,
    Shrank = 1,
    RehashInPlace = 2,
    TombstoneCreated = 3,
    ErasedToEmpty = 4,
    TombstoneReused = 5,
    EmptyConsumed = 6,
    SmallTable = 7,
    ProbedPastFirstGroup = 8,
    FullLoad = 9,
    Freed = 10,
    ExpectedPanic = 11,
    ReallocSameSize = 12,
    TombstonedState = 13,
    Aux1 = 14,
    Aux2 = 15,
}
pub const MECH_NAMES: [&str; NMECH] = [
    "grew",
    "shrank",
    "rehash_in_place",
    "tombstone_created",
    "erased_to_empty",
    "tombstone_reused",
    "empty_slot_consumed",
    "small_table_state",
    "probe_past_first_group_state",
    "full_load_state",
    "freed_to_singleton",
    "expected_panic",
    "realloc_same_size",
    "tombstoned_state",
    "aux1",
    "aux2",
];

#[derive(Default)]
pub struct Stats {
    pub mech: [AtomicU64; NMECH],
    pub probes: AtomicU64,
    pub transitions: AtomicU64,
    pub replayed_ops: AtomicU64,
}
impl Stats {
    pub fn hit(&self, m: Mech) {
        self.mech[m as usize].fetch_add(1, Ordering::Relaxed);
    }
    pub fn add(&self, m: Mech, n: u64) {
        self.mech[m as usize].fetch_add(n, Ordering::Relaxed);
    }
    pub fn probe(&self, n: u64) {
        self.probes.fetch_add(n, Ordering::Relaxed);
    }
    pub fn mech_map(&self) -> serde_json::Value {
        let mut m = serde_json::Map::new();
        for i in 0..NMECH {
            m.insert(
                MECH_NAMES[i].to_string(),
                serde_json::json!(self.mech[i].load(Ordering::Relaxed)),
            );
        }
        serde_json::Value::Object(m)
    }
    pub fn get(&self, m: Mech) -> u64 {
        self.mech[m as usize].load(Ordering::Relaxed)
    }
}

/// What a property module supplies.
pub trait Harness: Sync {
    type Op: Clone + Debug + Send + Sync + serde::Serialize + serde::de::DeserializeOwned;
    type Sut;
    /// fresh system (resets the thread environment)
    fn init(&self) -> Self::Sut;
    /// fresh system next to a live one in the same thread (no reset: the
    /// ledgers are shared and compared against baselines)
    fn init_nested(&self) -> Self::Sut;
    /// operations to try in this state
    fn ops(&self, sut: &Self::Sut) -> Vec<Self::Op>;
    /// apply `op` to the real collection and the reference model. With
    /// `checked`, compare the return value with the model's.
    fn apply(&self, sut: &mut Self::Sut, op: &Self::Op, checked: bool, stats: &Stats) -> Result<(), String>;
    /// invariants + model agreement
    fn check(&self, sut: &mut Self::Sut) -> Result<(), String>;
    fn canon(&self, sut: &Self::Sut) -> Vec<u8>;
    /// property-specific checks in a state; `rebuild` produces a fresh replay
    /// of the same state. Returns number of probes executed.
    fn probes(&self, _rebuild: &dyn Fn() -> Self::Sut, _sut: &mut Self::Sut, _stats: &Stats) -> Result<(), String> {
        Ok(())
    }
    /// drop the collection and check the ledgers
    fn finish(&self, sut: Self::Sut) -> Result<(), String>;
    /// state-based pruning: do not expand this state
    fn prune(&self, _sut: &Self::Sut) -> bool {
        false
    }
}

#[derive(Clone, Debug)]
pub struct Violation {
    pub history: Vec<String>,
    pub message: String,
}

pub struct Node<Op> {
    pub parent: u32,
    pub op: Option<Op>,
    pub depth: u32,
}

pub struct Outcome<Op> {
    pub nodes: Vec<Node<Op>>,
    pub seed_hist: Vec<Vec<Op>>,
    pub seeds: usize,
    pub states: usize,
    pub transitions: u64,
    pub levels: Vec<usize>,
    pub exhaustive: bool,
    pub cap_hit: Option<String>,
    pub violation: Option<(Vec<Op>, String)>,
    pub wall_s: f64,
    pub canon_of: Vec<Vec<u8>>,
}

impl<Op: Clone> Outcome<Op> {
    pub fn history(&self, idx: usize) -> Vec<Op> {
        history_of(&self.nodes, &self.seed_hist, idx)
    }
}

pub struct Limits {
    pub max_depth: Option<u32>,
    pub max_states: usize,
    pub max_wall_s: f64,
    pub threads: usize,
    pub run_probes: bool,
}
impl Default for Limits {
    fn default() -> Self {
        Limits { max_depth: None, max_states: 3_000_000, max_wall_s: 600.0, threads: nthreads(), run_probes: true }
    }
}

/// Multiplier for wall caps (slow executors such as Miri set HBMC_WALL_SCALE).
pub fn wall_scale() -> f64 {
    std::env::var("HBMC_WALL_SCALE").ok().and_then(|s| s.parse().ok()).unwrap_or(1.0)
}

pub fn nthreads() -> usize {
    std::env::var("VERIF_THREADS")
        .ok()
        .and_then(|s| s.parse().ok())
        .unwrap_or_else(|| std::thread::available_parallelism().map(|n| n.get()).unwrap_or(8).min(16))
}

fn history_of<Op: Clone>(nodes: &[Node<Op>], seeds: &[Vec<Op>], mut idx: usize) -> Vec<Op> {
    let mut rev = Vec::new();
    loop {
        let n = &nodes[idx];
        if n.parent == u32::MAX {
            // seed root: idx < seeds.len()
            let mut h = seeds[idx].clone();
            rev.reverse();
            h.extend(rev);
            return h;
        }
        rev.push(n.op.clone().unwrap());
        idx = n.parent as usize;
    }
}

/// Replay `hist` on a fresh system without return-value checks.
pub fn replay<H: Harness>(h: &H, hist: &[H::Op], stats: &Stats) -> Result<H::Sut, String> {
    replay_in(h, hist, stats, false)
}

/// Same, next to a live system of the same thread (ledgers not reset).
pub fn replay_nested<H: Harness>(h: &H, hist: &[H::Op], stats: &Stats) -> Result<H::Sut, String> {
    replay_in(h, hist, stats, true)
}

fn replay_in<H: Harness>(h: &H, hist: &[H::Op], stats: &Stats, nested: bool) -> Result<H::Sut, String> {
    let mut sut = if nested { h.init_nested() } else { h.init() };
    for op in hist {
        h.apply(&mut sut, op, false, stats)?;
    }
    stats.replayed_ops.fetch_add(hist.len() as u64, Ordering::Relaxed);
    Ok(sut)
}

/// Breadth-first search from the given seed histories (use `vec![vec![]]` for
/// the initial state) to a fixpoint or the limits.
pub fn bfs<H: Harness>(h: &H, seeds: Vec<Vec<H::Op>>, lim: &Limits, stats: &Stats) -> Outcome<H::Op> {
    let t0 = Instant::now();
    let mut nodes: Vec<Node<H::Op>> = Vec::new();
    let mut canon_of: Vec<Vec<u8>> = Vec::new();
    let mut seen: StdMap<Vec<u8>, u32> = StdMap::new();
    let mut violation: Option<(Vec<H::Op>, String)> = None;
    let mut kept_seeds: Vec<Vec<H::Op>> = Vec::new();

    // seeds
    for s in seeds.iter() {
        crate::crumbs::set_state(s, &[] as &[H::Op]);
        let r = env::catch(|| -> Result<Vec<u8>, String> {
            let mut sut = h.init();
            for op in s {
                h.apply(&mut sut, op, true, stats)?;
                h.check(&mut sut)?;
            }
            h.check(&mut sut)?;
            let c = h.canon(&sut);
            h.finish(sut)?;
            Ok(c)
        });
        match r {
            Ok(Ok(c)) => {
                if !seen.contains_key(&c) {
                    seen.insert(c.clone(), nodes.len() as u32);
                    nodes.push(Node { parent: u32::MAX, op: None, depth: 0 });
                    canon_of.push(c);
                    kept_seeds.push(s.clone());
                }
            }
            Ok(Err(m)) | Err(m) => {
                violation = Some((s.clone(), format!("while building seed: {m}")));
                break;
            }
        }
    }
    let nseeds = nodes.len();
    let mut levels = vec![nseeds];
    let mut frontier: Vec<u32> = (0..nseeds as u32).collect();
    let mut transitions: u64 = 0;
    let mut cap_hit = None;
    let mut depth = 0u32;

    while !frontier.is_empty() && violation.is_none() {
        // at the depth bound the last level is still checked state by state (probes), but not expanded
        let at_bound = lim.max_depth.map_or(false, |md| depth >= md);
        if at_bound {
            cap_hit = Some(format!("depth bound {}", lim.max_depth.unwrap()));
            if !lim.run_probes {
                break;
            }
        }
        if t0.elapsed().as_secs_f64() > lim.max_wall_s * wall_scale() {
            cap_hit = Some(format!("wall cap {}s", lim.max_wall_s));
            break;
        }
        if nodes.len() > lim.max_states {
            cap_hit = Some(format!("state cap {}", lim.max_states));
            break;
        }
        // expand the frontier in parallel
        let next = AtomicUsize::new(0);
        let stop = AtomicBool::new(false);
        type Cand<Op> = (Vec<u8>, u32, u32, Op);
        let results: Mutex<Vec<Vec<Cand<H::Op>>>> = Mutex::new(Vec::new());
        let viol: Mutex<Option<(u32, Option<H::Op>, String)>> = Mutex::new(None);
        let tcount = AtomicU64::new(0);
        let nodes_ref = &nodes;
        let seeds_ref = &kept_seeds;
        let canon_ref = &canon_of;
        let frontier_ref = &frontier;
        let seen_ref = &seen;
        std::thread::scope(|sc| {
            for w in 0..lim.threads.max(1) {
                let next = &next;
                let stop = &stop;
                let results = &results;
                let viol = &viol;
                let tcount = &tcount;
                sc.spawn(move || {
                    env::WORKER.with(|c| c.set(w));
                    let mut out: Vec<Cand<H::Op>> = Vec::new();
                    loop {
                        if stop.load(Ordering::Relaxed) {
                            break;
                        }
                        let i = next.fetch_add(1, Ordering::Relaxed);
                        if i >= frontier_ref.len() {
                            break;
                        }
                        let sidx = frontier_ref[i];
                        let hist = history_of(nodes_ref, seeds_ref, sidx as usize);
                        let report = |op: Option<H::Op>, m: String| {
                            let mut v = viol.lock().unwrap();
                            let better = match &*v {
                                None => true,
                                Some((s, _, _)) => sidx < *s,
                            };
                            if better {
                                *v = Some((sidx, op, m));
                            }
                            stop.store(true, Ordering::Relaxed);
                        };
                        // state-level work: determinism check + probes
                        crate::crumbs::set_state(&hist, &[] as &[H::Op]);
                        let r = env::catch(|| -> Result<Option<Vec<H::Op>>, String> {
                            let mut sut = replay(h, &hist, stats)?;
                            let c = h.canon(&sut);
                            if c != canon_ref[sidx as usize] {
                                return Err(format!(
                                    "MACHINERY: nondeterministic replay (canonical state differs from the stored one)"
                                ));
                            }
                            if h.prune(&sut) {
                                h.finish(sut)?;
                                return Ok(None);
                            }
                            let ops = h.ops(&sut);
                            if lim.run_probes {
                                let rebuild = || replay_nested(h, &hist, stats).expect("replay of a visited state failed");
                                h.probes(&rebuild, &mut sut, stats)?;
                            }
                            h.finish(sut)?;
                            let errs = env::take_errors();
                            if !errs.is_empty() {
                                return Err(errs.join("; "));
                            }
                            Ok(Some(ops))
                        });
                        let ops = match r {
                            Ok(Ok(Some(ops))) => ops,
                            Ok(Ok(None)) => continue,
                            Ok(Err(m)) => {
                                report(None, m);
                                break;
                            }
                            Err(m) => {
                                report(None, format!("unexpected panic: {m}"));
                                break;
                            }
                        };
                        if at_bound {
                            continue;
                        }
                        crate::crumbs::set_state(&hist, &ops);
                        for (oi, op) in ops.iter().enumerate() {
                            crate::crumbs::set_op(oi as i64);
                            let r = env::catch(|| -> Result<Vec<u8>, String> {
                                let mut sut = replay(h, &hist, stats)?;
                                h.apply(&mut sut, op, true, stats)?;
                                h.check(&mut sut)?;
                                let c = h.canon(&sut);
                                h.finish(sut)?;
                                let errs = env::take_errors();
                                if !errs.is_empty() {
                                    return Err(errs.join("; "));
                                }
                                Ok(c)
                            });
                            tcount.fetch_add(1, Ordering::Relaxed);
                            match r {
                                Ok(Ok(c)) => {
                                    if !seen_ref.contains_key(&c) {
                                        out.push((c, sidx, oi as u32, op.clone()))
                                    }
                                }
                                Ok(Err(m)) => {
                                    report(Some(op.clone()), m);
                                    break;
                                }
                                Err(m) => {
                                    report(Some(op.clone()), format!("unexpected panic: {m}"));
                                    break;
                                }
                            }
                        }
                    }
                    crate::crumbs::clear();
                    results.lock().unwrap().push(out);
                });
            }
        });
        transitions += tcount.load(Ordering::Relaxed);
        if let Some((sidx, op, m)) = viol.into_inner().unwrap() {
            let mut hist = history_of(&nodes, &kept_seeds, sidx as usize);
            if let Some(op) = op {
                hist.push(op);
            }
            violation = Some((hist, m));
            break;
        }
        if at_bound {
            break;
        }
        // deterministic merge
        let mut cands: Vec<Cand<H::Op>> = results.into_inner().unwrap().into_iter().flatten().collect();
        cands.sort_by(|a, b| (&a.0, a.1, a.2).cmp(&(&b.0, b.1, b.2)));
        let mut newf = Vec::new();
        for (c, parent, _oi, op) in cands {
            if seen.contains_key(&c) {
                continue;
            }
            let idx = nodes.len() as u32;
            seen.insert(c.clone(), idx);
            nodes.push(Node { parent, op: Some(op), depth: depth + 1 });
            canon_of.push(c);
            newf.push(idx);
        }
        depth += 1;
        if !newf.is_empty() {
            levels.push(newf.len());
        }
        frontier = newf;
    }
    stats.transitions.fetch_add(transitions, Ordering::Relaxed);
    let exhaustive = violation.is_none() && cap_hit.is_none() && frontier.is_empty();
    let states = nodes.len();
    Outcome {
        nodes,
        seed_hist: kept_seeds,
        seeds: nseeds,
        states,
        transitions,
        levels,
        exhaustive,
        cap_hit,
        violation,
        wall_s: t0.elapsed().as_secs_f64(),
        canon_of,
    }
}
