//! Single-fault enumeration for HashSet operations (C04 on the set wrappers: get_or_insert_with, replace, take,
//! entry, retain, extend ...): Hash, Eq, constructor closures, `Clone` and `Drop` can each panic at their k-th invocation.

use crate::env::{self, Class, NCLASS};
use crate::explore::{self, Stats};
use crate::faults::{FaultHarness, FaultStats};
use crate::inv;
use crate::keys::*;
use crate::mapsut::{end_of_run_checks, Res, Ret};
use crate::setsut::*;
use std::sync::atomic::Ordering;

impl FaultHarness for SetHarness {
    fn flavour(&self) -> &'static str {
        "tracked set element"
    }

    fn count_run(&self, hist: &[SetOp], op: &SetOp) -> Result<[u32; NCLASS], String> {
        let stats = Stats::default();
        let mut sut = explore::replay(self, hist, &stats)?;
        env::with(|e| {
            e.counts = [0; NCLASS];
            e.fault = None;
        });
        env::set_armed(true);
        let r = env::catch(|| crate::explore::Harness::apply(self, &mut sut, op, false, &stats));
        env::set_armed(false);
        let counts = env::with(|e| e.counts);
        match r {
            Ok(Ok(())) => {}
            Ok(Err(m)) => return Err(m),
            Err(m) => return Err(format!("unexpected panic in counting run: {m}")),
        }
        sut.finish()?;
        Ok(counts)
    }

    fn one_fault(&self, hist: &[SetOp], op: &SetOp, class: Class, k: u32, fstats: Option<&FaultStats>) -> Result<bool, String> {
        let stats = Stats::default();
        let mut sut = explore::replay(self, hist, &stats)?;
        let pre_model = sut.model.clone();
        let tok_base = sut.next_tok;
        let pre_serials: Vec<(u8, u32)> = sut.set.iter().map(|e| (e.id, e.serial)).collect();
        let (allocs0, _) = env::alloc_calls();
        env::with(|e| {
            e.counts = [0; NCLASS];
            e.fault = Some((class, k));
            e.fault_fired = false;
        });
        env::set_armed(true);
        let r = env::catch(|| crate::explore::Harness::apply(self, &mut sut, op, false, &stats));
        env::set_armed(false);
        let fired = env::with(|e| {
            e.fault = None;
            e.fault_fired
        });
        let (allocs1, _) = env::alloc_calls();
        match &r {
            Ok(Ok(())) => {
                if fired {
                    return Err(format!("injected {:?} fault #{k} was swallowed: the operation returned normally", class));
                }
                sut.finish().ok();
                env::take_errors();
                return Ok(false);
            }
            Ok(Err(m)) => return Err(format!("MACHINERY: unchecked apply returned an error: {m}")),
            Err(m) => {
                if !fired || !m.contains(env::FAULT_MSG) {
                    return Err(format!("unexpected panic during {:?} with fault {:?}#{k}: {m}", op, class));
                }
            }
        }
        if let Some(fs) = fstats {
            fs.fired.fetch_add(1, Ordering::Relaxed);
            fs.per_class[class as usize].fetch_add(1, Ordering::Relaxed);
            if allocs1 > allocs0 {
                fs.during_growth.fetch_add(1, Ordering::Relaxed);
            }
        }
        let errs = env::take_errors();
        if !errs.is_empty() {
            return Err(errs.join("; "));
        }
        // a valid table: structure, len == yields, every yielded element live, findable, explainable
        let d = sut.set.verif_dump();
        {
            let t = &sut.set;
            let alt = sut.alt;
            inv::check_structure(&d, inv::Which { lawful_hash: true }, &|i| {
                t.verif_bucket(i).map(|e| if alt { env::with(|x| x.plan_b[e.id as usize]) } else { plan_hash(e.id) })
            })?;
        }
        let mut post: Vec<(u8, u32)> = Vec::new();
        let mut post_serials: Vec<u32> = Vec::new();
        for e in sut.set.iter() {
            if post.len() > pre_model.len() + 8 {
                return Err("after the panic iter() yields more elements than could exist".into());
            }
            if !env::reg_is_live(e.serial) {
                return Err(format!("after the panic the set holds element #{} which has been dropped", e.serial));
            }
            post.push((e.id, e.tok));
            post_serials.push(e.serial);
        }
        if post.len() != sut.set.len() {
            return Err(format!("after the panic len() = {} but iter() yields {} elements", sut.set.len(), post.len()));
        }
        for e in &post {
            if post.iter().filter(|x| x.1 == e.1).count() != 1 {
                return Err(format!("after the panic element {:?} is stored twice", e));
            }
            if !(pre_model.contains(e) || e.1 >= tok_base) {
                return Err(format!("after the panic the set holds {:?} which is neither a stored element nor new", e));
            }
            if post.iter().filter(|x| x.0 == e.0).count() != 1 {
                return Err(format!("after the panic element id {} is stored twice", e.0));
            }
            if sut.set.get(&KeyRef(e.0)).map(|k| k.tok) != Some(e.1) {
                return Err(format!("after the panic element {:?} is yielded by iter() but get() does not return it", e));
            }
        }
        if class != Class::Drop {
            for (id, s) in &pre_serials {
                if !post_serials.contains(s) && env::reg_is_live(*s) {
                    return Err(format!("after the panic element #{s} (id {id}) is neither in the set nor dropped (leaked)"));
                }
            }
        }
        // resync the reference, then a follow-up script on the surviving table
        sut.model = post;
        sut.next_tok = tok_base + 100_000;
        let u = self.cfg.universe;
        sut.check_all(u, class != Class::Drop).map_err(|m| format!("after the panic: {m}"))?;
        let absent = (0..u).find(|&id| sut.mpos(id).is_none());
        let present = (0..u).find(|&id| sut.mpos(id).is_some());
        let mut script: Vec<SetOp> = Vec::new();
        if let Some(a) = absent {
            script.push(SetOp::Insert(a));
        }
        if let Some(p) = present {
            script.push(SetOp::Remove(p));
        }
        script.push(SetOp::Reserve(Res::One));
        script.push(SetOp::Retain(Ret::EvenIds));
        script.push(SetOp::Clear);
        if let Some(a) = absent {
            script.push(SetOp::Insert(a));
        }
        for sop in &script {
            let r = env::catch(|| -> Result<(), String> {
                crate::explore::Harness::apply(self, &mut sut, sop, true, &stats)?;
                sut.check_all(u, class != Class::Drop)
            });
            match r {
                Ok(Ok(())) => {}
                Ok(Err(m)) => return Err(format!("follow-up {:?} after the panic: {m}", sop)),
                Err(m) => return Err(format!("follow-up {:?} after the panic panicked: {m}", sop)),
            }
        }
        let SetSut { set, base, .. } = sut;
        drop(set);
        if class == Class::Drop {
            let errs = env::take_errors();
            if !errs.is_empty() {
                return Err(errs.join("; "));
            }
            env::alloc_check()?;
        } else {
            end_of_run_checks(&base).map_err(|m| format!("after the panic and final drop: {m}"))?;
        }
        Ok(true)
    }
}
