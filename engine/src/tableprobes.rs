//! Probes in every visited HashTable state: get_many_mut (C15), iterators (C09).

use crate::env::{self, CheckAlloc};
use crate::explore::Stats;
use crate::keys::plan_hash;
use crate::mapprobes::{drive, Tail};
use crate::tablesut::*;
use hashbrown::hash_table;

fn ids_to_try(s: &TabSut, universe: u8) -> Vec<u8> {
    let mut v: Vec<u8> = Vec::new();
    let mut absent_done = [false; 256];
    for id in 0..universe {
        if s.count(id) > 0 {
            v.push(id);
        } else {
            let c = s.class_of[id as usize] as usize;
            if !absent_done[c] {
                absent_done[c] = true;
                v.push(id);
            }
        }
    }
    v
}

fn many<const N: usize>(s: &mut TabSut, ids: [u8; N], matcher: Option<&[u8]>) -> Result<(), String> {
    many_impl::<N>(s, ids, matcher, false)?;
    if matcher.is_none() {
        many_impl::<N>(s, ids, matcher, true)?;
    }
    Ok(())
}

fn many_impl<const N: usize>(s: &mut TabSut, ids: [u8; N], matcher: Option<&[u8]>, unchecked: bool) -> Result<(), String> {
    let hashes: [u64; N] = std::array::from_fn(|i| plan_hash(ids[i]));
    let lawful = matcher.is_none();
    let before = s.model.clone();
    // expectation for lawful closures
    let mut expect_panic = false;
    if lawful {
        for i in 0..N {
            for j in 0..i {
                if ids[i] == ids[j] && s.count(ids[i]) > 0 {
                    expect_panic = true;
                }
            }
        }
    }
    if unchecked && expect_panic {
        // overlapping requests are outside the contract of get_many_unchecked_mut
        return Ok(());
    }
    let table = &mut s.table;
    let r = env::catch(|| {
        let eq = |i: usize, e: &TEl| match matcher {
            None => e.id == ids[i],
            Some(m) => m.contains(&e.id),
        };
        // SAFETY (contract of the unchecked variant): lawful closure, no two requests resolve to the same entry
        let res = if unchecked { unsafe { table.get_many_unchecked_mut(hashes, eq) } } else { table.get_many_mut(hashes, eq) };
        // addresses and a write through every reference
        let mut out: [Option<(usize, u8, u32)>; N] = [None; N];
        for (i, r) in res.into_iter().enumerate() {
            if let Some(e) = r {
                let addr = e as *mut TEl as usize;
                let old = e.tok;
                e.tok = 0x7000_0000 + i as u32;
                out[i] = Some((addr, e.id, old));
            }
        }
        out
    });
    match r {
        Err(m) => {
            if lawful && !expect_panic {
                return Err(format!("get_many_mut({:?}) panicked ({m}) although no two requests resolve to the same entry", ids));
            }
            // state must be unchanged
            let mut got: Vec<(u8, u32)> = s.table.iter().map(|e| (e.id, e.tok)).collect();
            got.sort_unstable();
            let mut want = before.clone();
            want.sort_unstable();
            if got != want {
                return Err(format!("get_many_mut({:?}) panicked and changed the table", ids));
            }
        }
        Ok(out) => {
            if expect_panic {
                return Err(format!("get_many_mut({:?}) returned although two requests resolve to the same entry (aliasing &mut)", ids));
            }
            for i in 0..N {
                for j in 0..i {
                    if let (Some(a), Some(b)) = (out[i], out[j]) {
                        if a.0 == b.0 {
                            return Err(format!("get_many_mut({:?}, matcher {:?}) returned two references to the same entry (requests {j} and {i})", ids, matcher));
                        }
                    }
                }
            }
            for i in 0..N {
                match out[i] {
                    Some((_, id, old)) => {
                        let ok = match matcher {
                            None => id == ids[i],
                            Some(m) => m.contains(&id),
                        };
                        if !ok {
                            return Err(format!("get_many_mut({:?}): result {i} refers to an element with id {id}", ids));
                        }
                        match s.model.iter().position(|e| e.1 == old && e.0 == id) {
                            Some(p) => s.model[p].1 = 0x7000_0000 + i as u32,
                            None => return Err(format!("get_many_mut({:?}): result {i} refers to {:?} which is not stored (or was handed out twice)", ids, (id, old))),
                        }
                    }
                    None => {
                        if lawful && s.count(ids[i]) > 0 {
                            return Err(format!("get_many_mut({:?}): result {i} is None but the element is stored", ids));
                        }
                    }
                }
            }
            // the writes landed in exactly the requested entries
            let mut got: Vec<(u8, u32)> = s.table.iter().map(|e| (e.id, e.tok)).collect();
            got.sort_unstable();
            let mut want = s.model.clone();
            want.sort_unstable();
            if got != want {
                return Err(format!("get_many_mut({:?}): after writing sentinels the table holds {:?}, reference {:?}", ids, got, want));
            }
            // restore distinct tokens
            for e in s.table.iter_mut() {
                if e.tok >= 0x7000_0000 {
                    let t = s.next_tok;
                    s.next_tok += 1;
                    let p = s.model.iter().position(|m| m.1 == e.tok && m.0 == e.id).unwrap();
                    s.model[p].1 = t;
                    e.tok = t;
                }
            }
        }
    }
    Ok(())
}

pub fn probe_many_mut(_rebuild: &dyn Fn() -> TabSut, s: &mut TabSut, universe: u8, stats: &Stats) -> Result<(), String> {
    let ids = ids_to_try(s, universe);
    let mut count = 0u64;
    many::<0>(s, [], None)?;
    for &a in &ids {
        many::<1>(s, [a], None)?;
        for &b in &ids {
            many::<2>(s, [a, b], None)?;
            count += 1;
            for &c in &ids {
                many::<3>(s, [a, b, c], None)?;
                count += 1;
                if ids.len() <= 6 {
                    for &d in &ids {
                        many::<4>(s, [a, b, c, d], None)?;
                        count += 1;
                    }
                }
            }
        }
    }
    // unlawful equality closures matching an id set M (|M| <= 2)
    let present: Vec<u8> = (0..universe).filter(|&id| s.count(id) > 0).collect();
    for (i, &m1) in present.iter().enumerate() {
        for &m2 in &present[i..] {
            let m = [m1, m2];
            for &a in &ids {
                for &b in &ids {
                    many::<2>(s, [a, b], Some(&m))?;
                    count += 1;
                }
            }
            if let (Some(&a), Some(&b)) = (ids.first(), ids.last()) {
                many::<3>(s, [a, b, m1], Some(&m))?;
                many::<4>(s, [m1, m2, a, b], Some(&m))?;
                count += 2;
            }
        }
    }
    s.check_all(universe).map_err(|m| format!("after get_many_mut probes: {m}"))?;
    stats.probe(count);
    Ok(())
}

pub fn probe_iterators(rebuild: &dyn Fn() -> TabSut, s: &mut TabSut, stats: &Stats) -> Result<(), String> {
    let n = s.model.len();
    let mut full: Vec<(u8, u32, u32)> = s.model.iter().map(|e| (e.0, e.1, 0)).collect();
    full.sort_unstable();
    let mut count = 0u64;
    let cv = |e: &TEl| (e.id, e.tok, 0u32);
    let cm = |e: &mut TEl| (e.id, e.tok, 0u32);
    let co = |e: TEl| (e.id, e.tok, 0u32);
    let expect = |what: &str, mut got: Vec<(u8, u32, u32)>| -> Result<(), String> {
        got.sort_unstable();
        if got != full {
            return Err(format!("{what}: yielded {:?}, reference {:?}", got, full));
        }
        Ok(())
    };
    for j in 0..=n + 2 {
        for tail in [Tail::Next, Tail::Fold, Tail::ForEach] {
            expect("table.iter()", drive(s.table.iter(), n, j, tail, "table.iter()", &cv)?)?;
            expect("(&table).into_iter()", drive((&s.table).into_iter(), n, j, tail, "(&table).into_iter()", &cv)?)?;
            expect("table.iter_mut()", drive(s.table.iter_mut(), n, j, tail, "table.iter_mut()", &cm)?)?;
            count += 3;
        }
        if j <= n {
            let mut a = s.table.iter();
            for _ in 0..j {
                a.next();
            }
            let b = a.clone();
            let mut ra = drive(a, n - j, 0, Tail::Next, "table.iter() after clone", &cv)?;
            let mut rb = drive(b, n - j, 0, Tail::Fold, "table.iter().clone()", &cv)?;
            ra.sort_unstable();
            rb.sort_unstable();
            if ra != rb {
                return Err("table.iter().clone() does not continue from the same position".into());
            }
        }
        // nth(k): within range, to the end, beyond; the skipped elements of an owning iterator are dropped, not leaked
        if j <= n {
            let r = n - j;
            for k in [0usize, 1, r.saturating_sub(1), r, r + 3] {
                crate::mapprobes::drive_nth(s.table.iter(), n, j, k, "table.iter()", &cv, &full)?;
                crate::mapprobes::drive_nth(s.table.iter_mut(), n, j, k, "table.iter_mut()", &cm, &full)?;
                let mut t = rebuild();
                let tb = std::mem::take(&mut t.table);
                crate::mapprobes::drive_nth(tb.into_iter(), n, j, k, "table.into_iter()", &co, &full)?;
                t.finish().map_err(|m| format!("after table.into_iter() with nth({k}): {m}"))?;
                let mut t = rebuild();
                crate::mapprobes::drive_nth(t.table.drain(), n, j, k, "table.drain()", &co, &full)?;
                t.model.clear();
                t.finish().map_err(|m| format!("after table.drain() with nth({k}): {m}"))?;
                count += 4;
            }
        }
        for tail in [Tail::Next, Tail::Fold] {
            {
                let mut t = rebuild();
                let tb = std::mem::take(&mut t.table);
                expect("table.into_iter()", drive(tb.into_iter(), n, j, tail, "table.into_iter()", &co)?)?;
                t.finish().map_err(|m| format!("after table.into_iter(): {m}"))?;
            }
            {
                let mut t = rebuild();
                expect("table.drain()", drive(t.table.drain(), n, j, tail, "table.drain()", &co)?)?;
                if !t.table.is_empty() {
                    return Err("table.drain(): not empty afterwards".into());
                }
                t.finish().map_err(|m| format!("after table.drain(): {m}"))?;
            }
            count += 2;
        }
    }
    fn empty<I: Iterator + ExactSizeIterator>(mut it: I, what: &str) -> Result<(), String> {
        if it.len() != 0 || it.size_hint() != (0, Some(0)) || it.next().is_some() || it.next().is_some() {
            return Err(format!("{what}::default() is not an empty iterator"));
        }
        Ok(())
    }
    empty(hash_table::Iter::<TEl>::default(), "hash_table::Iter")?;
    empty(hash_table::IterMut::<TEl>::default(), "hash_table::IterMut")?;
    empty(hash_table::IntoIter::<TEl, CheckAlloc>::default(), "hash_table::IntoIter")?;
    if hash_table::IterHash::<TEl>::default().next().is_some() || hash_table::IterHashMut::<TEl>::default().next().is_some() {
        return Err("IterHash::default() is not empty".into());
    }
    stats.probe(count + 5);
    Ok(())
}
