//! All ordered pairs of visited HashMap states: clone_from (target, source),
//! independence after cloning, and == (C11).

use crate::env;
use crate::explore::{self, Limits, Outcome, Stats};
use crate::keys::*;
use crate::mapsut::*;
use crate::report::{outcome_report, Config, ConfigReport, Viol};
use serde_json::{json, Value};
use std::sync::atomic::{AtomicBool, AtomicU64, AtomicUsize, Ordering};
use std::sync::Mutex;

type H = MapHarness<TKey, TVal>;
type Sut = MapSut<TKey, TVal>;

fn contents(s: &Sut) -> Vec<(u8, u32, u32)> {
    let mut v: Vec<_> = s.map.iter().map(|(k, v)| (k.id, k.tok, v.tok)).collect();
    v.sort_unstable();
    v
}
fn serials(s: &Sut) -> Vec<u32> {
    let mut v = Vec::new();
    for (k, val) in s.map.iter() {
        v.push(k.serial);
        v.push(val.serial);
    }
    v
}

/// `mk_t(first)`: rebuild the target (first call resets the environment);
/// `mk_s()`: rebuild the source next to it.
pub fn check_pair(mk_t: &dyn Fn(bool) -> Sut, mk_s: &dyn Fn() -> Sut, universe: u8, same_hasher: bool) -> Result<u64, String> {
    let mut n = 0u64;
    let mut t = mk_t(true);
    let mut s = mk_s();
    let cs = contents(&s);
    let ct = contents(&t);
    // == in both directions (values as built: equal iff same ids, key tokens irrelevant, value tokens equal)
    let proj = |c: &Vec<(u8, u32, u32)>| c.iter().map(|e| (e.0, e.2)).collect::<Vec<_>>();
    let want_eq = proj(&cs) == proj(&ct);
    if (t.map == s.map) != want_eq || (s.map == t.map) != want_eq {
        return Err(format!("==: A = {:?}, B = {:?} (id, key token, value token): A == B is {}, B == A is {}, mathematical answer {want_eq}", ct, cs, t.map == s.map, s.map == t.map));
    }
    n += 2;
    // normalise values so that equality depends on the key sets only, then perturb one value
    for (k, v) in t.map.iter_mut() {
        v.tok = 1000 + k.id as u32;
    }
    for (k, v) in s.map.iter_mut() {
        v.tok = 1000 + k.id as u32;
    }
    let ids_t: Vec<u8> = ct.iter().map(|e| e.0).collect();
    let ids_s: Vec<u8> = cs.iter().map(|e| e.0).collect();
    let want_eq = ids_t == ids_s;
    if (t.map == s.map) != want_eq || (s.map == t.map) != want_eq {
        return Err(format!("== with equal values: keys A = {:?}, keys B = {:?}: A == B is {}, B == A is {}, mathematical answer {want_eq}", ids_t, ids_s, t.map == s.map, s.map == t.map));
    }
    if let Some(&id) = ids_s.first() {
        s.map.get_mut(&KeyRef(id)).unwrap().tok = 5;
        if t.map == s.map || s.map == t.map {
            return Err(format!("==: maps with keys {:?} / {:?} compare equal although the value of key {id} differs", ids_t, ids_s));
        }
        s.map.get_mut(&KeyRef(id)).unwrap().tok = 1000 + id as u32;
    }
    n += 4;
    for e in t.model.iter_mut() {
        e.2 = 1000 + e.0 as u32;
    }
    for e in s.model.iter_mut() {
        e.2 = 1000 + e.0 as u32;
    }
    let cs = contents(&s);
    // (clone_from copies the hasher too: from here on the target hashes like the source)
    let _ = same_hasher;
    // clone_from(target <- source)
    let src_serials = serials(&s);
    t.map.clone_from(&s.map);
    if !(t.map == s.map && s.map == t.map) {
        return Err(format!("clone_from: target (was {:?}) does not compare equal to source {:?}", ct, cs));
    }
    if contents(&t) != cs {
        return Err(format!("clone_from: target holds {:?}, source {:?}", contents(&t), cs));
    }
    let ts = serials(&t);
    if ts.iter().any(|x| src_serials.contains(x)) {
        return Err("clone_from: target shares an element instance with the source (not an independently owned clone)".into());
    }
    t.model = s.model.clone();
    t.alt = s.alt;
    t.class_of = s.class_of.clone();
    t.check_all(universe, true, false).map_err(|m| format!("clone_from target (was {:?}, source {:?}): {m}", ct, cs))?;
    n += 1;
    // independence: change the target, the source must not move; then the other way round
    let absent = (0..universe).find(|&id| s.mpos(id).is_none());
    let present = (0..universe).find(|&id| s.mpos(id).is_some());
    if let Some(a) = absent {
        t.map.insert(TKey::make(a, 900), TVal::make(901));
        t.model.push((a, 900, 901));
    }
    if let Some(p) = present {
        t.map.remove(&KeyRef(p));
        let i = t.mpos(p).unwrap();
        t.model.swap_remove(i);
    }
    s.check_all(universe, true, false).map_err(|m| format!("source after mutating the clone: {m}"))?;
    t.check_all(universe, true, false).map_err(|m| format!("clone after mutating it: {m}"))?;
    if let Some(p) = present {
        s.map.get_mut(&KeyRef(p)).unwrap().tok = 77;
        let i = s.mpos(p).unwrap();
        s.model[i].2 = 77;
    }
    if let Some(a) = absent {
        s.map.insert(TKey::make(a, 800), TVal::make(801));
        s.model.push((a, 800, 801));
    }
    t.check_all(universe, true, false).map_err(|m| format!("clone after mutating the source: {m}"))?;
    s.check_all(universe, true, false).map_err(|m| format!("source after mutating it: {m}"))?;
    n += 2;
    // clone() of the source
    {
        let c = s.map.clone();
        if !(c == s.map) {
            return Err("clone() does not compare equal to its source".into());
        }
        let mut cc: Vec<_> = c.iter().map(|(k, v)| (k.id, k.tok, v.tok)).collect();
        cc.sort_unstable();
        if cc != contents(&s) {
            return Err("clone() holds different contents than its source".into());
        }
        n += 1;
    }
    // both collections are dropped, then the shared ledgers must balance
    let _ = s.dispose();
    let base = t.dispose();
    end_of_run_checks(&base).map_err(|m| format!("after dropping target and source (old elements of the target must be dropped exactly once): {m}"))?;
    Ok(n)
}

pub struct MapPairs {
    pub label: String,
    pub ha: H,
    pub hb: H,
    pub limits: Limits,
    pub max_states: usize,
    pub wall_cap: f64,
    /// scripted deep states (full load, tombstones) added to both state lists
    pub extra: Vec<Vec<MapOp>>,
}

impl MapPairs {
    fn pair(&self, a: &[MapOp], b: &[MapOp]) -> Result<u64, String> {
        let st = Stats::default();
        let same = !self.hb.cfg.alt_hasher;
        let mk_t = |first: bool| {
            if first {
                let s = explore::replay(&self.ha, a, &st).expect("replay target");
                env::with(|e| e.plan_b = self.hb.plan);
                s
            } else {
                explore::replay_nested(&self.ha, a, &st).expect("replay target")
            }
        };
        let mk_s = || explore::replay_nested(&self.hb, b, &st).expect("replay source");
        match env::catch(|| check_pair(&mk_t, &mk_s, self.ha.cfg.universe.max(self.hb.cfg.universe), same)) {
            Ok(r) => r,
            Err(m) => Err(format!("unexpected panic: {m}")),
        }
    }
}

impl Config for MapPairs {
    fn label(&self) -> String {
        self.label.clone()
    }
    fn run(&self) -> ConfigReport {
        crate::crumbs::set_config(&self.label);
        let t0 = std::time::Instant::now();
        let sa = Stats::default();
        let oa: Outcome<MapOp> = explore::bfs(&self.ha, vec![vec![]], &self.limits, &sa);
        if oa.violation.is_some() {
            return outcome_report(&self.label, "bfs(A)", &oa, &sa);
        }
        let sb = Stats::default();
        let same = self.ha.cfg.plan == self.hb.cfg.plan && !self.hb.cfg.alt_hasher;
        let ob = if same { None } else { Some(explore::bfs(&self.hb, vec![vec![]], &self.limits, &sb)) };
        if let Some(ob) = &ob {
            if ob.violation.is_some() {
                return outcome_report(&self.label, "bfs(B)", ob, &sb);
            }
        }
        let obr = ob.as_ref().unwrap_or(&oa);
        let na = oa.states.min(self.max_states);
        let nb = obr.states.min(self.max_states);
        let covered_all = na == oa.states && nb == obr.states;
        let mut ha: Vec<Vec<MapOp>> = (0..na).map(|i| oa.history(i)).collect();
        let mut hb: Vec<Vec<MapOp>> = (0..nb).map(|i| obr.history(i)).collect();
        ha.extend(self.extra.iter().cloned());
        hb.extend(self.extra.iter().cloned());
        let (na, nb) = (ha.len(), hb.len());
        let next = AtomicUsize::new(0);
        let stop = AtomicBool::new(false);
        let capped = AtomicBool::new(false);
        let checks = AtomicU64::new(0);
        let pairs = AtomicU64::new(0);
        let viol: Mutex<Option<(usize, Value, String)>> = Mutex::new(None);
        std::thread::scope(|sc| {
            for w in 0..explore::nthreads() {
                let (next, stop, capped, checks, pairs, viol, ha, hb) = (&next, &stop, &capped, &checks, &pairs, &viol, &ha, &hb);
                sc.spawn(move || {
                    env::WORKER.with(|c| c.set(w));
                    loop {
                        if stop.load(Ordering::Relaxed) {
                            break;
                        }
                        if t0.elapsed().as_secs_f64() > self.wall_cap {
                            capped.store(true, Ordering::Relaxed);
                            break;
                        }
                        let i = next.fetch_add(1, Ordering::Relaxed);
                        if i >= na {
                            break;
                        }
                        for j in 0..nb {
                            if j % 64 == 0 {
                                crate::crumbs::set_replay(&json!({"a": ha[i], "b": hb[j]}).to_string());
                            }
                            match self.pair(&ha[i], &hb[j]) {
                                Ok(n) => {
                                    checks.fetch_add(n, Ordering::Relaxed);
                                    pairs.fetch_add(1, Ordering::Relaxed);
                                }
                                Err(m) => {
                                    let mut v = viol.lock().unwrap();
                                    if v.as_ref().map_or(true, |x| i < x.0) {
                                        *v = Some((i, json!({"a": ha[i], "b": hb[j]}), m));
                                    }
                                    stop.store(true, Ordering::Relaxed);
                                    break;
                                }
                            }
                        }
                    }
                    crate::crumbs::clear();
                });
            }
        });
        let mut rep = ConfigReport {
            label: self.label.clone(),
            mode: "pairs".into(),
            states: (oa.states + ob.as_ref().map_or(0, |o| o.states)) as u64,
            transitions: oa.transitions + ob.as_ref().map_or(0, |o| o.transitions),
            probes: checks.load(Ordering::Relaxed),
            executions: pairs.load(Ordering::Relaxed),
            exhaustive: !capped.load(Ordering::Relaxed) && oa.exhaustive && obr.exhaustive && covered_all,
            cap: if capped.load(Ordering::Relaxed) { Some(format!("wall cap {}s", self.wall_cap)) } else if !covered_all { Some(format!("first {na} x {nb} states")) } else { None },
            wall_s: t0.elapsed().as_secs_f64(),
            ..Default::default()
        };
        rep.detail = json!({
            "states_target": oa.states, "states_source": obr.states, "scripted_deep_states_added": self.extra.len(), "ordered_pairs_checked": pairs.load(Ordering::Relaxed),
            "checks": checks.load(Ordering::Relaxed), "plan_target": self.ha.cfg.plan.name(), "plan_source": self.hb.cfg.plan.name(),
            "differently_seeded_hashers": self.hb.cfg.alt_hasher,
            "mechanisms_target_search": sa.mech_map(),
            "distinct_nontrivial": pairs.load(Ordering::Relaxed),
        });
        rep.samples.push(json!({"target": ha[na - 1], "source": hb[nb / 2]}));
        if let Some((_, rp, m)) = viol.into_inner().unwrap() {
            rep.violations.push(Viol { config: self.label.clone(), message: m, replay: rp });
        }
        rep
    }
    fn replay(&self, rp: &Value) -> Result<(), String> {
        if rp.get("history").is_some() {
            let b = crate::report::BfsConfig::new(self.label.clone(), MapHarness::<TKey, TVal>::new(self.ha.cfg.clone()), Limits::default());
            return b.replay(rp);
        }
        let a: Vec<MapOp> = serde_json::from_value(rp["a"].clone()).map_err(|e| format!("MACHINERY: bad replay: {e}"))?;
        let b: Vec<MapOp> = serde_json::from_value(rp["b"].clone()).map_err(|e| format!("MACHINERY: bad replay: {e}"))?;
        self.pair(&a, &b).map(|_| ())
    }
}
