//! Fault enumeration over model-checked states: for every visited state x
//! every operation x every callback class x every k, the k-th invocation of
//! that class inside the operation panics; after `catch_unwind` the
//! collection must be valid (C04).

use crate::env::{self, Class, ALL_PANIC_CLASSES, NCLASS};
use crate::explore::{self, Outcome, Stats};
use crate::inv;
use crate::keys::*;
use crate::mapsut::*;
use crate::report::{ConfigReport, Viol};
use serde_json::{json, Value};
use std::sync::atomic::{AtomicBool, AtomicU64, AtomicUsize, Ordering};
use std::sync::Mutex;
use std::time::Instant;

pub struct FaultStats {
    pub runs: AtomicU64,
    pub fired: AtomicU64,
    pub per_class: [AtomicU64; NCLASS],
    pub during_inplace_rehash: AtomicU64,
    pub during_growth: AtomicU64,
    pub count_runs: AtomicU64,
}
impl Default for FaultStats {
    fn default() -> Self {
        FaultStats {
            runs: AtomicU64::new(0),
            fired: AtomicU64::new(0),
            per_class: Default::default(),
            during_inplace_rehash: AtomicU64::new(0),
            during_growth: AtomicU64::new(0),
            count_runs: AtomicU64::new(0),
        }
    }
}

/// Run one faulted execution from the state reached by `hist`.
/// Returns Ok(fired) or Err(violation message).
pub fn one_fault<K: KeyT, V: ValT>(
    h: &MapHarness<K, V>,
    hist: &[MapOp],
    op: &MapOp,
    class: Class,
    k: u32,
    fstats: Option<&FaultStats>,
) -> Result<bool, String> {
    let stats = Stats::default();
    let mut sut = explore::replay(h, hist, &stats)?;
    let pre_model = sut.model.clone();
    let tok_base = sut.next_tok;
    let pre_dump = sut.map.verif_dump();
    // serials of the elements in the table before the operation (tracked flavours)
    let mut pre_serials: Vec<(u8, Option<u32>, Option<u32>)> = Vec::new();
    for (kk, vv) in sut.map.iter() {
        pre_serials.push((kk.id(), kk.serial(), vv.serial()));
    }
    let (allocs0, _) = env::alloc_calls();
    env::with(|e| {
        e.counts = [0; NCLASS];
        e.fault = Some((class, k));
        e.fault_fired = false;
    });
    env::set_armed(true);
    let r = env::catch(|| h.apply_op(&mut sut, op, false, &stats));
    env::set_armed(false);
    let fired = env::with(|e| {
        e.fault = None;
        e.fault_fired
    });
    let (allocs1, _) = env::alloc_calls();
    let new_alloc = allocs1 > allocs0;
    match &r {
        Ok(Ok(())) => {
            if fired {
                return Err(format!("injected {:?} fault #{k} was swallowed: the operation returned normally", class));
            }
            // fault index beyond the invocations of this run: nothing to check
            sut.finish().ok();
            env::take_errors();
            return Ok(false);
        }
        Ok(Err(m)) => return Err(format!("MACHINERY: unchecked apply returned an error: {m}")),
        Err(m) => {
            if !fired || !m.contains(env::FAULT_MSG) {
                return Err(format!("unexpected panic during {:?} with fault {:?}#{k}: {m}", op, class));
            }
        }
    }
    // ---- the fault fired and unwound out of the operation ----
    if let Some(fs) = fstats {
        fs.fired.fetch_add(1, Ordering::Relaxed);
        fs.per_class[class as usize].fetch_add(1, Ordering::Relaxed);
        if new_alloc {
            fs.during_growth.fetch_add(1, Ordering::Relaxed);
        }
    }
    let errs = env::take_errors();
    if !errs.is_empty() {
        return Err(errs.join("; "));
    }
    // auxiliary collection (clone target) must be a valid collection too
    if let Some(aux) = sut.aux.take() {
        let d = aux.verif_dump();
        inv::check_structure(&d, inv::Which { lawful_hash: true }, &|i| aux.verif_bucket(i).map(|(k, _)| plan_hash(k.id())))
            .map_err(|m| format!("clone target after the panic: {m}"))?;
        let n = aux.iter().count();
        if n != aux.len() {
            return Err(format!("clone target after the panic: len() = {} but iter() yields {}", aux.len(), n));
        }
        for (kk, vv) in aux.iter() {
            if let (Some(a), Some(b)) = (kk.serial(), vv.serial()) {
                if !env::reg_is_live(a) || !env::reg_is_live(b) {
                    return Err("clone target after the panic holds an element that is not live".into());
                }
            }
        }
        drop(aux);
    }
    let d = sut.map.verif_dump();
    {
        let map = &sut.map;
        inv::check_structure(&d, inv::Which { lawful_hash: true }, &|i| map.verif_bucket(i).map(|(k, _)| plan_hash(k.id())))?;
    }
    if let Some(fs) = fstats {
        // in-place rehash interrupted: same allocation, tombstones before, fewer elements or no tombstones after
        if !new_alloc
            && class == Class::Hash
            && d.ctrl_addr == pre_dump.ctrl_addr
            && inv::count_deleted(&pre_dump) > 0
            && inv::count_deleted(&d) == 0
            && pre_dump.items > 0
        {
            fs.during_inplace_rehash.fetch_add(1, Ordering::Relaxed);
        }
    }
    // contents: yields == len, each yielded element live, findable, explainable
    let mut post: Vec<ModelEntry> = Vec::new();
    let mut post_serials: Vec<u32> = Vec::new();
    let mut n = 0usize;
    for (kk, vv) in sut.map.iter() {
        n += 1;
        if n > pre_model.len() + 8 {
            return Err("after the panic iter() yields more elements than could exist".into());
        }
        for s in [kk.serial(), vv.serial()].into_iter().flatten() {
            if !env::reg_is_live(s) {
                return Err(format!("after the panic the collection holds element #{s} which has been dropped"));
            }
            post_serials.push(s);
        }
        post.push((kk.id(), kk.tok(), vv.tok()));
    }
    if n != sut.map.len() {
        return Err(format!("after the panic len() = {} but iter() yields {} elements", sut.map.len(), n));
    }
    for e in &post {
        if post.iter().filter(|x| x.0 == e.0).count() != 1 {
            return Err(format!("after the panic key {} is stored twice", e.0));
        }
        let is_new_k = e.1 >= tok_base || e.1 == FROM_REF_TOK;
        let is_new_v = e.2 >= tok_base || e.2 == DEFAULT_TOK;
        match pre_model.iter().find(|x| x.0 == e.0) {
            Some(p) => {
                if !(e.1 == p.1 || is_new_k) || !(e.2 == p.2 || is_new_v) {
                    return Err(format!("after the panic entry {:?} is neither the stored entry {:?} nor new", e, p));
                }
            }
            None => {
                if !is_new_k || !is_new_v {
                    return Err(format!("after the panic the collection holds an entry {:?} that was never inserted", e));
                }
            }
        }
        let g = sut.map.get(&KeyRef(e.0)).map(|v| v.tok());
        if g != Some(e.2) {
            return Err(format!("after the panic entry {:?} is yielded by iter() but get() returns {:?}", e, g));
        }
    }
    // every element that was in it is still present or has been dropped exactly once
    if K::TRACKED && class != Class::Drop {
        for (id, ks, vs) in &pre_serials {
            for s in [ks, vs].into_iter().flatten() {
                let present = post_serials.contains(s);
                let live = env::reg_is_live(*s);
                if !present && live {
                    // moved out to the harness and dropped by unwinding would not be live; so this is a leak
                    return Err(format!("after the panic element #{s} (key {id}) is neither in the collection nor dropped (leaked)"));
                }
            }
        }
    }
    // a hasher panic while growing into a new allocation leaves the contents unchanged
    if new_alloc && matches!(class, Class::Hash | Class::BuildHasher) && !matches!(op, MapOp::FromIterSelf | MapOp::CloneInto(_) | MapOp::CloneDrop) {
        for p in &pre_model {
            match post.iter().find(|x| x.0 == p.0) {
                Some(e) if e.1 == p.1 => {}
                _ => {
                    return Err(format!(
                        "hasher panic while growing into a new allocation lost or replaced entry {:?} (contents before {:?}, after {:?})",
                        p, pre_model, post
                    ))
                }
            }
        }
    }
    // resync the reference to what the collection now holds, then a follow-up script
    sut.model = post;
    sut.next_tok = tok_base + 100_000;
    let u = h.cfg.universe;
    sut.check_all(u, true, class != Class::Drop).map_err(|m| format!("after the panic: {m}"))?;
    let absent = (0..u).find(|&id| sut.mpos(id).is_none());
    let present = (0..u).find(|&id| sut.mpos(id).is_some());
    let mut script: Vec<MapOp> = Vec::new();
    if let Some(a) = absent {
        script.push(MapOp::Insert(a));
    }
    if let Some(p) = present {
        script.push(MapOp::Insert(p));
        script.push(MapOp::Remove(p));
    }
    script.push(MapOp::Reserve(Res::One));
    script.push(MapOp::Retain(Ret::EvenIds));
    script.push(MapOp::Clear);
    if let Some(a) = absent {
        script.push(MapOp::Insert(a));
    }
    for sop in &script {
        let r = env::catch(|| -> Result<(), String> {
            h.apply_op(&mut sut, sop, true, &stats)?;
            sut.check_all(u, true, class != Class::Drop)
        });
        match r {
            Ok(Ok(())) => {}
            Ok(Err(m)) => return Err(format!("follow-up {:?} after the panic: {m}", sop)),
            Err(m) => return Err(format!("follow-up {:?} after the panic panicked: {m}", sop)),
        }
    }
    // final drop and ledgers (leaks are permitted only for destructor panics)
    let MapSut { map, probe_keys, aux, base, .. } = sut;
    drop(aux);
    drop(map);
    drop(probe_keys);
    if class == Class::Drop {
        let errs = env::take_errors();
        if !errs.is_empty() {
            return Err(errs.join("; "));
        }
        env::alloc_check()?;
    } else {
        end_of_run_checks(&base).map_err(|m| format!("after the panic and final drop: {m}"))?;
    }
    Ok(true)
}

/// Count callback invocations of `op` in the state reached by `hist`.
pub fn count_run<K: KeyT, V: ValT>(h: &MapHarness<K, V>, hist: &[MapOp], op: &MapOp) -> Result<[u32; NCLASS], String> {
    let stats = Stats::default();
    let mut sut = explore::replay(h, hist, &stats)?;
    env::with(|e| {
        e.counts = [0; NCLASS];
        e.fault = None;
    });
    env::set_armed(true);
    let r = env::catch(|| h.apply_op(&mut sut, op, false, &stats));
    env::set_armed(false);
    let counts = env::with(|e| e.counts);
    match r {
        Ok(Ok(())) => {}
        Ok(Err(m)) => return Err(m),
        Err(m) => return Err(format!("unexpected panic in counting run: {m}")),
    }
    sut.finish()?;
    Ok(counts)
}

/// A harness whose operations can be run with one injected callback panic.
pub trait FaultHarness: crate::explore::Harness {
    /// element flavour, for the report
    fn flavour(&self) -> &'static str;
    /// callback invocations per class of `op` in the state reached by `hist`
    fn count_run(&self, hist: &[Self::Op], op: &Self::Op) -> Result<[u32; NCLASS], String>;
    /// one faulted execution; Ok(fired) or Err(violation)
    fn one_fault(&self, hist: &[Self::Op], op: &Self::Op, class: Class, k: u32, fs: Option<&FaultStats>) -> Result<bool, String>;
}
impl<K: KeyT, V: ValT> FaultHarness for MapHarness<K, V> {
    fn flavour(&self) -> &'static str {
        K::NAME
    }
    fn count_run(&self, hist: &[MapOp], op: &MapOp) -> Result<[u32; NCLASS], String> {
        count_run(self, hist, op)
    }
    fn one_fault(&self, hist: &[MapOp], op: &MapOp, class: Class, k: u32, fs: Option<&FaultStats>) -> Result<bool, String> {
        one_fault(self, hist, op, class, k, fs)
    }
}

/// Enumerate all single faults over all states of `out`.
pub fn enumerate<H: FaultHarness>(label: &str, h: &H, out: &Outcome<H::Op>, max_states: usize, wall_cap: f64) -> ConfigReport {
    let t0 = Instant::now();
    let fs = FaultStats::default();
    let next = AtomicUsize::new(0);
    let stop = AtomicBool::new(false);
    let capped = AtomicBool::new(false);
    let viol: Mutex<Option<(usize, Value, String)>> = Mutex::new(None);
    let nstates = out.states.min(max_states);
    let done_states = AtomicUsize::new(0);
    let distinct_points = AtomicU64::new(0);
    let samples: Mutex<Vec<Value>> = Mutex::new(Vec::new());
    std::thread::scope(|sc| {
        for w in 0..explore::nthreads() {
            let (fs, next, stop, viol, capped, done_states, distinct_points, samples) =
                (&fs, &next, &stop, &viol, &capped, &done_states, &distinct_points, &samples);
            sc.spawn(move || {
                env::WORKER.with(|c| c.set(w));
                loop {
                    if stop.load(Ordering::Relaxed) {
                        break;
                    }
                    if t0.elapsed().as_secs_f64() > wall_cap {
                        capped.store(true, Ordering::Relaxed);
                        break;
                    }
                    let i = next.fetch_add(1, Ordering::Relaxed);
                    if i >= nstates {
                        break;
                    }
                    let hist = out.history(i);
                    let ops = {
                        let stats = Stats::default();
                        match env::catch(|| {
                            let sut = explore::replay(h, &hist, &stats).expect("replay");
                            let ops = crate::explore::Harness::ops(h, &sut);
                            crate::explore::Harness::finish(h, sut).ok();
                            ops
                        }) {
                            Ok(o) => o,
                            Err(m) => {
                                *viol.lock().unwrap() = Some((i, json!({"history": hist}), format!("MACHINERY: {m}")));
                                stop.store(true, Ordering::Relaxed);
                                break;
                            }
                        }
                    };
                    'ops: for op in &ops {
                        crate::crumbs::set_replay(&json!({"history": hist, "op": op}).to_string());
                        let counts = match h.count_run(&hist, op) {
                            Ok(c) => c,
                            Err(m) => {
                                let mut v = viol.lock().unwrap();
                                if v.as_ref().map_or(true, |x| i < x.0) {
                                    *v = Some((i, json!({"history": hist, "op": op}), m));
                                }
                                stop.store(true, Ordering::Relaxed);
                                break 'ops;
                            }
                        };
                        fs.count_runs.fetch_add(1, Ordering::Relaxed);
                        for &class in ALL_PANIC_CLASSES.iter() {
                            for k in 0..counts[class as usize] {
                                let rp = json!({"history": hist, "op": op, "fault": [class, k]});
                                crate::crumbs::set_replay(&rp.to_string());
                                fs.runs.fetch_add(1, Ordering::Relaxed);
                                let r = env::catch(|| h.one_fault(&hist, op, class, k, Some(fs)));
                                let r = match r {
                                    Ok(r) => r,
                                    Err(m) => Err(format!("unexpected panic in the harness after the fault: {m}")),
                                };
                                match r {
                                    Ok(true) => {
                                        distinct_points.fetch_add(1, Ordering::Relaxed);
                                        if i % 997 == 3 && k == 1 {
                                            let mut s = samples.lock().unwrap();
                                            if s.len() < 6 {
                                                s.push(rp);
                                            }
                                        }
                                    }
                                    Ok(false) => {
                                        // Drop faults are not armed while unwinding; other classes must fire
                                        if class != Class::Drop {
                                            let mut v = viol.lock().unwrap();
                                            *v = Some((i, rp, format!("MACHINERY: fault {:?}#{k} did not fire although the counting run saw {} invocations", class, counts[class as usize])));
                                            stop.store(true, Ordering::Relaxed);
                                            break 'ops;
                                        }
                                    }
                                    Err(m) => {
                                        let mut v = viol.lock().unwrap();
                                        if v.as_ref().map_or(true, |x| i < x.0) {
                                            *v = Some((i, rp, m));
                                        }
                                        stop.store(true, Ordering::Relaxed);
                                        break 'ops;
                                    }
                                }
                            }
                        }
                    }
                    done_states.fetch_add(1, Ordering::Relaxed);
                }
                crate::crumbs::clear();
            });
        }
    });
    let mut rep = ConfigReport {
        label: label.to_string(),
        mode: "faults".into(),
        states: done_states.load(Ordering::Relaxed) as u64,
        transitions: fs.count_runs.load(Ordering::Relaxed),
        executions: fs.runs.load(Ordering::Relaxed),
        exhaustive: !capped.load(Ordering::Relaxed) && nstates == out.states && out.exhaustive,
        cap: if capped.load(Ordering::Relaxed) {
            Some(format!("wall cap {wall_cap}s"))
        } else if nstates < out.states {
            Some(format!("first {nstates} of {} states", out.states))
        } else {
            None
        },
        wall_s: t0.elapsed().as_secs_f64(),
        ..Default::default()
    };
    let mut per = serde_json::Map::new();
    for c in ALL_PANIC_CLASSES.iter() {
        per.insert(format!("{:?}", c), json!(fs.per_class[*c as usize].load(Ordering::Relaxed)));
    }
    rep.detail = json!({
        "states_of_underlying_search": out.states,
        "underlying_search_exhaustive": out.exhaustive,
        "state_op_pairs": fs.count_runs.load(Ordering::Relaxed),
        "faulted_runs": fs.runs.load(Ordering::Relaxed),
        "faults_fired_and_checked": fs.fired.load(Ordering::Relaxed),
        "distinct_nontrivial": distinct_points.load(Ordering::Relaxed),
        "fired_per_class": per,
        "fired_during_in_place_rehash": fs.during_inplace_rehash.load(Ordering::Relaxed),
        "fired_after_new_allocation": fs.during_growth.load(Ordering::Relaxed),
        "element_flavour": h.flavour(),
    });
    rep.samples = samples.into_inner().unwrap();
    if rep.samples.is_empty() {
        rep.samples.push(json!({"history": out.history(out.states - 1), "note": "deepest state; every op x class x k was faulted from it"}));
    }
    if let Some((_, rp, m)) = viol.into_inner().unwrap() {
        if m.starts_with("MACHINERY") {
            rep.machinery_error = Some(m);
        } else {
            rep.violations.push(Viol { config: label.to_string(), message: m, replay: rp });
        }
    }
    rep
}

/// Replay of a recorded fault counterexample.
pub fn replay_fault<H: FaultHarness>(h: &H, rp: &Value) -> Result<(), String> {
    let hist: Vec<H::Op> = serde_json::from_value(rp["history"].clone()).map_err(|e| format!("MACHINERY: bad replay: {e}"))?;
    let op: H::Op = serde_json::from_value(rp["op"].clone()).map_err(|e| format!("MACHINERY: bad replay: {e}"))?;
    if rp.get("fault").is_none() || rp["fault"].is_null() {
        return h.count_run(&hist, &op).map(|_| ());
    }
    let class: Class = serde_json::from_value(rp["fault"][0].clone()).map_err(|e| format!("MACHINERY: bad replay: {e}"))?;
    let k: u32 = serde_json::from_value(rp["fault"][1].clone()).map_err(|e| format!("MACHINERY: bad replay: {e}"))?;
    match env::catch(|| h.one_fault(&hist, &op, class, k, None)) {
        Ok(r) => r.map(|_| ()),
        Err(m) => Err(format!("unexpected panic in the harness after the fault: {m}")),
    }
}
