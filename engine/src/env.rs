//! Per-thread environment shared by the harness types that hashbrown calls
//! back into: hash plan, fault injection, choice enumeration, element
//! registry, checking allocator. One environment per worker thread; reset at
//! the start of every run.

use allocator_api2::alloc::{AllocError, Allocator};
use std::alloc::Layout;
use std::cell::{Cell, RefCell};
use std::ptr::NonNull;

// ---------------------------------------------------------------------------
// Callback classes (fault injection points)
// ---------------------------------------------------------------------------

#[derive(Clone, Copy, Debug, PartialEq, Eq, serde::Serialize, serde::Deserialize)]
#[repr(u8)]
pub enum Class {
    Hash = 0,
    Eq = 1,
    Clone = 2,
    Drop = 3,
    Closure = 4,
    Into = 5,
    IterNext = 6,
    Default = 7,
    BuildHasher = 8,
    Alloc = 9,
}
pub const NCLASS: usize = 10;
pub const ALL_PANIC_CLASSES: [Class; 10] = [
    Class::Alloc,
    Class::Hash,
    Class::Eq,
    Class::Clone,
    Class::Drop,
    Class::Closure,
    Class::Into,
    Class::IterNext,
    Class::Default,
    Class::BuildHasher,
];

pub const FAULT_MSG: &str = "verif-injected-fault";

/// How unlawful Hash/Eq answers are produced (C05).
#[derive(Clone, Debug, Default)]
pub struct Choices {
    pub enabled: bool,
    /// Prefix of choices to replay; afterwards choice 0 (lawful) is taken.
    pub prefix: Vec<u8>,
    /// Log of (arity) for each choice point encountered, and the choice taken.
    pub log: Vec<(u8, u8)>,
}

pub struct Block {
    pub base: *mut u8,
    pub user: *mut u8,
    pub size: usize,
    pub align: usize,
    pub rz: usize,
    /// offset of `user` from `base` (>= rz): blocks are deliberately aligned to exactly their requested
    /// alignment and no better, so that code relying on a stronger alignment than it asked for is exposed
    pub pre: usize,
    /// usable bytes granted beyond the requested size (over-returning allocator mode)
    pub extra: usize,
    pub live: bool,
}

pub struct Env {
    pub plan: [u64; 256],
    /// second plan, used by hasher instances built with `alt = true`
    pub plan_b: [u64; 256],
    /// menu of alternative hashes per key id for choice mode (C05)
    pub alt: [[u64; 3]; 256],
    pub armed: bool,
    pub fault: Option<(Class, u32)>,
    pub fault_fired: bool,
    pub counts: [u32; NCLASS],
    pub choices: Choices,
    // registry: per serial 0 = never, 1 = live, 2 = dropped
    pub reg: Vec<u8>,
    pub live_elems: usize,
    pub errors: Vec<String>,
    // allocator
    pub blocks: Vec<Block>,
    pub alloc_calls: u64,
    pub dealloc_calls: u64,
    pub live_bytes: usize,
    /// refuse the j-th allocation request from now (0 = next)
    /// grant more than requested (the returned slice is longer than `layout.size()`), as size-class allocators do
    pub over_return: bool,
    pub refuse_at: Option<u64>,
    /// refuse any request larger than this
    pub refuse_above: Option<usize>,
    pub refused: Vec<(usize, usize)>,
    pub requests: Vec<(usize, usize)>,
    pub log_requests: bool,
}

impl Env {
    const fn new() -> Self {
        Env {
            plan: [0; 256],
            plan_b: [0; 256],
            alt: [[0; 3]; 256],
            armed: false,
            fault: None,
            fault_fired: false,
            counts: [0; NCLASS],
            choices: Choices { enabled: false, prefix: Vec::new(), log: Vec::new() },
            reg: Vec::new(),
            live_elems: 0,
            errors: Vec::new(),
            blocks: Vec::new(),
            alloc_calls: 0,
            dealloc_calls: 0,
            live_bytes: 0,
            over_return: false,
            refuse_at: None,
            refuse_above: None,
            refused: Vec::new(),
            requests: Vec::new(),
            log_requests: false,
        }
    }
}

thread_local! {
    static ENV: RefCell<Env> = const { RefCell::new(Env::new()) };
    pub static WORKER: Cell<usize> = const { Cell::new(0) };
    /// fast-path flags mirrored from Env (const-initialised, no lazy init)
    static ARMED: Cell<bool> = const { Cell::new(false) };
    static CHOOSING: Cell<bool> = const { Cell::new(false) };
}

/// Arm / disarm fault counting (mirrors `Env::armed`).
pub fn set_armed(on: bool) {
    ARMED.with(|a| a.set(on));
    with(|e| e.armed = on);
}
/// Pause / resume choice mode without touching prefix or log.
pub fn set_choosing_flag(on: bool) {
    CHOOSING.with(|a| a.set(on));
    with(|e| e.choices.enabled = on);
}

/// Enable / disable choice mode (mirrors `Env::choices.enabled`).
pub fn set_choosing(on: bool, prefix: Vec<u8>) {
    CHOOSING.with(|a| a.set(on));
    with(|e| {
        e.choices.enabled = on;
        e.choices.prefix = prefix;
        e.choices.log.clear();
    });
}

pub fn with<R>(f: impl FnOnce(&mut Env) -> R) -> R {
    ENV.with(|e| f(&mut e.borrow_mut()))
}

/// Reset the environment for a new run (keeps the hash plan).
/// Frees quarantined blocks of the previous run.
pub fn reset() {
    with(|e| {
        for b in e.blocks.drain(..) {
            if b.base.is_null() {
                continue;
            }
            unsafe {
                if b.rz == 0 {
                    std::alloc::dealloc(b.base, Layout::from_size_align_unchecked(b.size, b.align));
                } else {
                    std::alloc::dealloc(b.base, Layout::from_size_align_unchecked(b.pre + b.size + b.extra + b.rz, 2 * b.rz));
                }
            }
        }
        ARMED.with(|a| a.set(false));
        CHOOSING.with(|a| a.set(false));
        e.armed = false;
        e.fault = None;
        e.fault_fired = false;
        e.counts = [0; NCLASS];
        e.choices = Choices::default();
        e.reg.clear();
        e.live_elems = 0;
        e.errors.clear();
        e.alloc_calls = 0;
        e.dealloc_calls = 0;
        e.live_bytes = 0;
        e.refuse_at = None;
        e.refuse_above = None;
        e.refused.clear();
        e.requests.clear();
        e.log_requests = false;
    });
}

pub fn set_plan(plan: &[u64; 256]) {
    with(|e| e.plan = *plan);
}

/// Called by every instrumented callback. Panics if this invocation is the
/// armed fault.
#[inline]
pub fn tick(class: Class) {
    if !ARMED.with(|a| a.get()) {
        return;
    }
    tick_slow(class)
}

#[cold]
fn tick_slow(class: Class) {
    let fire = with(|e| {
        if !e.armed {
            return false;
        }
        let c = e.counts[class as usize];
        e.counts[class as usize] = c + 1;
        if let Some((fc, k)) = e.fault {
            if fc == class && k == c {
                if class == Class::Drop && std::thread::panicking() {
                    return false;
                }
                e.fault = None;
                e.fault_fired = true;
                return true;
            }
        }
        false
    });
    if fire {
        panic!("{}", FAULT_MSG);
    }
}

/// Environment choice point with `arity` alternatives; 0 is the lawful answer.
#[inline]
pub fn choose(arity: u8) -> u8 {
    if !CHOOSING.with(|a| a.get()) {
        return 0;
    }
    choose_slow(arity)
}

#[cold]
fn choose_slow(arity: u8) -> u8 {
    with(|e| {
        if !e.choices.enabled {
            return 0;
        }
        let i = e.choices.log.len();
        let c = if i < e.choices.prefix.len() {
            let c = e.choices.prefix[i];
            assert!(c < arity, "choice replay diverged: choice {} arity {}", c, arity);
            c
        } else {
            0
        };
        e.choices.log.push((arity, c));
        c
    })
}

thread_local! {
    static CLONES: std::cell::Cell<u64> = const { std::cell::Cell::new(0) };
}
/// every user `Clone::clone` of an instrumented element type calls this (unconditionally)
#[inline]
pub fn note_clone() {
    CLONES.with(|c| c.set(c.get() + 1));
}
pub fn clone_count() -> u64 {
    CLONES.with(|c| c.get())
}

pub fn error(msg: String) {
    with(|e| {
        if e.errors.len() < 16 {
            e.errors.push(msg)
        }
    });
}

pub fn take_errors() -> Vec<String> {
    with(|e| std::mem::take(&mut e.errors))
}

// ---------------------------------------------------------------------------
// Element registry
// ---------------------------------------------------------------------------

pub fn reg_new() -> u32 {
    with(|e| {
        e.reg.push(1);
        e.live_elems += 1;
        (e.reg.len() - 1) as u32
    })
}

pub fn reg_drop(serial: u32) {
    with(|e| match e.reg.get_mut(serial as usize) {
        Some(s) if *s == 1 => {
            *s = 2;
            e.live_elems -= 1;
        }
        Some(s) => {
            let st = *s;
            if e.errors.len() < 16 {
                e.errors
                    .push(format!("registry: drop of element #{serial} in state {st} (double drop)"));
            }
        }
        None => {
            if e.errors.len() < 16 {
                e.errors.push(format!("registry: drop of unknown element #{serial} (garbage)"));
            }
        }
    });
}

pub fn reg_is_live(serial: u32) -> bool {
    with(|e| e.reg.get(serial as usize) == Some(&1))
}

/// Registry length (index of the next element to be constructed).
pub fn reg_len() -> usize {
    with(|e| e.reg.len())
}

/// Forgive intentional leaks (mem::forget probes): elements constructed at
/// registry index >= `reg_from` and blocks allocated at index >= `block_from`
/// that are still live are marked as leaked-on-purpose.
pub fn forgive_from(reg_from: usize, block_from: usize) {
    with(|e| {
        for s in e.reg.iter_mut().skip(reg_from) {
            if *s == 1 {
                *s = 3;
                e.live_elems -= 1;
            }
        }
        let mut bytes = 0;
        for b in e.blocks.iter_mut().skip(block_from) {
            if b.live {
                b.live = false;
                bytes += b.size;
                // keep the memory mapped and un-poisoned: leaked memory is never touched again,
                // so fill it with the free poison to detect later writes
                unsafe { std::ptr::write_bytes(b.user, 0xDD, b.size + b.extra) };
            }
        }
        e.live_bytes -= bytes;
    });
}

/// Number of live (constructed, not yet dropped) tracked elements.
pub fn reg_live_count() -> usize {
    with(|e| e.live_elems)
}

pub fn reg_live_list() -> Vec<u32> {
    with(|e| {
        e.reg
            .iter()
            .enumerate()
            .filter(|(_, &s)| s == 1)
            .map(|(i, _)| i as u32)
            .collect()
    })
}

// ---------------------------------------------------------------------------
// Checking allocator
// ---------------------------------------------------------------------------

/// Pass-through mode (sanitizer / Miri executors): blocks come straight from
/// the system allocator with the exact layout and are freed immediately, so
/// that the executor's own red zones and use-after-free detection apply.
pub static PASSTHROUGH: std::sync::atomic::AtomicBool = std::sync::atomic::AtomicBool::new(false);

const CANARY: u8 = 0xA5;
const POISON_NEW: u8 = 0xCD;
const POISON_FREE: u8 = 0xDD;

#[derive(Clone, Copy, Default, Debug)]
pub struct CheckAlloc;

unsafe impl Allocator for CheckAlloc {
    fn allocate(&self, layout: Layout) -> Result<NonNull<[u8]>, AllocError> {
        let size = layout.size();
        let align = layout.align();
        let refuse = with(|e| {
            e.alloc_calls += 1;
            if e.log_requests {
                e.requests.push((size, align));
            }
            if !align.is_power_of_two() || size > isize::MAX as usize - (align - 1) {
                if e.errors.len() < 16 {
                    e.errors.push(format!("allocator: invalid layout size={size} align={align}"));
                }
                return true;
            }
            if let Some(j) = e.refuse_at {
                if j == 0 {
                    e.refuse_at = None;
                    e.refused.push((size, align));
                    return true;
                }
                e.refuse_at = Some(j - 1);
            }
            if let Some(lim) = e.refuse_above {
                if size > lim {
                    e.refused.push((size, align));
                    return true;
                }
            }
            // hard safety cap of the harness: never actually obtain (and poison) more than 256 MiB
            if size > (256 << 20) {
                e.refused.push((size, align));
                return true;
            }
            false
        });
        if refuse {
            return Err(AllocError);
        }
        tick(Class::Alloc);
        if size == 0 {
            with(|e| {
                if e.errors.len() < 16 {
                    e.errors.push("allocator: zero-sized allocation request".into())
                }
            });
        }
        if PASSTHROUGH.load(std::sync::atomic::Ordering::Relaxed) {
            let base = unsafe { std::alloc::alloc(layout) };
            if base.is_null() {
                return Err(AllocError);
            }
            with(|e| {
                e.live_bytes += size;
                e.blocks.push(Block { base, user: base, size, align, rz: 0, pre: 0, extra: 0, live: true });
            });
            return Ok(NonNull::slice_from_raw_parts(NonNull::new(base).unwrap(), size));
        }
        let rz = align.max(32);
        // user address = align (mod 2 * align): aligned as requested, never better
        let pre = if rz % (2 * align) == 0 { rz + align } else { rz };
        let extra = if with(|e| e.over_return) { (64 - size % 64) % 64 + 64 } else { 0 };
        let total = pre + size + extra + rz;
        let base = unsafe { std::alloc::alloc(Layout::from_size_align(total, 2 * rz).unwrap()) };
        if base.is_null() {
            return Err(AllocError);
        }
        unsafe {
            std::ptr::write_bytes(base, CANARY, pre);
            std::ptr::write_bytes(base.add(pre), POISON_NEW, size + extra);
            std::ptr::write_bytes(base.add(pre + size + extra), CANARY, rz);
        }
        let user = unsafe { base.add(pre) };
        debug_assert!(user as usize % align == 0 && user as usize % (2 * align) != 0);
        with(|e| {
            e.live_bytes += size;
            e.blocks.push(Block { base, user, size, align, rz, pre, extra, live: true });
        });
        Ok(NonNull::slice_from_raw_parts(NonNull::new(user).unwrap(), size + extra))
    }

    unsafe fn deallocate(&self, ptr: NonNull<u8>, layout: Layout) {
        with(|e| {
            e.dealloc_calls += 1;
            let p = ptr.as_ptr();
            match e.blocks.iter_mut().rev().find(|b| b.user == p && b.live) {
                Some(b) => {
                    if b.size != layout.size() || b.align != layout.align() {
                        let m = format!(
                            "allocator: deallocate with layout ({}, {}) but block was allocated with ({}, {})",
                            layout.size(), layout.align(), b.size, b.align
                        );
                        if e.errors.len() < 16 {
                            e.errors.push(m);
                        }
                    }
                    let bad = check_canary(b);
                    b.live = false;
                    e.live_bytes -= b.size;
                    if b.rz == 0 {
                        // pass-through block: give it back right away
                        unsafe { std::alloc::dealloc(b.base, Layout::from_size_align_unchecked(b.size, b.align)) };
                        b.base = std::ptr::null_mut();
                    } else {
                        unsafe { std::ptr::write_bytes(b.user, POISON_FREE, b.size + b.extra) };
                    }
                    if let Some(m) = bad {
                        if e.errors.len() < 16 {
                            e.errors.push(m);
                        }
                    }
                }
                None => {
                    if e.errors.len() < 16 {
                        e.errors.push(format!(
                            "allocator: deallocate of a pointer that is not a live block ({:p}, size {})",
                            p,
                            layout.size()
                        ));
                    }
                }
            }
        });
    }
}

fn check_canary(b: &Block) -> Option<String> {
    if b.rz == 0 {
        return None;
    }
    unsafe {
        let before = std::slice::from_raw_parts(b.base, b.pre);
        let after = std::slice::from_raw_parts(b.base.add(b.pre + b.size + b.extra), b.rz);
        if let Some(i) = before.iter().position(|&x| x != CANARY) {
            return Some(format!(
                "allocator: write {} bytes BEFORE block of size {} (red zone damaged)",
                b.pre - i,
                b.size
            ));
        }
        if let Some(i) = after.iter().position(|&x| x != CANARY) {
            return Some(format!(
                "allocator: write {} bytes AFTER block of size {} (red zone damaged)",
                i, b.size
            ));
        }
    }
    None
}

/// Check red zones of live blocks and poison of quarantined blocks.
pub fn alloc_check() -> Result<(), String> {
    alloc_check_from(0)
}

/// Number of blocks ever allocated in this run (index for `alloc_check_from`).
pub fn block_count() -> usize {
    with(|e| e.blocks.len())
}

pub fn live_block_count() -> usize {
    with(|e| e.blocks.iter().filter(|b| b.live).count())
}

/// Like `alloc_check` but only for blocks allocated at index >= `from`.
pub fn alloc_check_from(from: usize) -> Result<(), String> {
    with(|e| {
        for b in e.blocks.iter().skip(from) {
            if let Some(m) = check_canary(b) {
                return Err(m);
            }
            if !b.live && !b.base.is_null() && b.rz != 0 {
                let body = unsafe { std::slice::from_raw_parts(b.user, b.size + b.extra) };
                if let Some(i) = body.iter().position(|&x| x != POISON_FREE) {
                    return Err(format!("allocator: write to freed block (size {}) at offset {}", b.size, i));
                }
            }
        }
        Ok(())
    })
}

pub fn live_blocks() -> Vec<(usize, usize, usize)> {
    with(|e| {
        e.blocks
            .iter()
            .filter(|b| b.live)
            .map(|b| (b.user as usize, b.size, b.align))
            .collect()
    })
}

pub fn live_bytes() -> usize {
    with(|e| e.live_bytes)
}

pub fn alloc_calls() -> (u64, u64) {
    with(|e| (e.alloc_calls, e.dealloc_calls))
}

// ---------------------------------------------------------------------------
// Panic capture
// ---------------------------------------------------------------------------

thread_local! {
    static LAST_PANIC: RefCell<String> = const { RefCell::new(String::new()) };
}

pub fn install_panic_hook() {
    std::panic::set_hook(Box::new(|info| {
        let msg = if let Some(s) = info.payload().downcast_ref::<&str>() {
            (*s).to_string()
        } else if let Some(s) = info.payload().downcast_ref::<String>() {
            s.clone()
        } else {
            "<non-string panic>".to_string()
        };
        let loc = info
            .location()
            .map(|l| format!(" at {}:{}", l.file(), l.line()))
            .unwrap_or_default();
        let _ = LAST_PANIC.try_with(|p| *p.borrow_mut() = format!("{msg}{loc}"));
    }));
}

pub fn last_panic() -> String {
    LAST_PANIC.with(|p| p.borrow().clone())
}

/// Run `f`, catching a panic. Returns Err(message) on panic.
pub fn catch<R>(f: impl FnOnce() -> R) -> Result<R, String> {
    let _ = LAST_PANIC.try_with(|p| p.borrow_mut().clear());
    match std::panic::catch_unwind(std::panic::AssertUnwindSafe(f)) {
        Ok(r) => Ok(r),
        Err(payload) => {
            let m = last_panic();
            if !m.is_empty() {
                return Err(m);
            }
            // the panic was raised on another thread (a pool worker) and re-thrown here: the hook stored its
            // message in that thread's slot, so take it from the payload
            let text = payload
                .downcast_ref::<&str>()
                .map(|s| s.to_string())
                .or_else(|| payload.downcast_ref::<String>().cloned())
                .unwrap_or_else(|| "panic with a non-string payload".into());
            Err(format!("{text} (raised on another thread)"))
        }
    }
}
