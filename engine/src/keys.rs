//! Harness vocabulary: keys, values, borrowed key form, plan hasher, hash plans.

use crate::env::{self, Class};
use hashbrown::Equivalent;
use std::hash::{BuildHasher, Hash, Hasher};

// ---------------------------------------------------------------------------
// Keys
// ---------------------------------------------------------------------------

/// Behaviour the harness needs from a key type. `Eq`/`Hash` look at `id` only;
/// `tok` distinguishes instances ("keeps the originally stored key").
pub trait KeyT: Clone + Eq + Hash + std::fmt::Debug + for<'x> From<&'x KeyRef> + 'static {
    const TRACKED: bool;
    const NAME: &'static str;
    /// `Clone` of this flavour is user code that reports itself (false for the `Copy` flavour)
    const CLONE_IS_USER_CODE: bool = true;
    fn make(id: u8, tok: u32) -> Self;
    fn id(&self) -> u8;
    fn tok(&self) -> u32;
    /// registry serial (tracked flavours); `None` for plain ones
    fn serial(&self) -> Option<u32>;
}

pub trait ValT: Clone + PartialEq + Default + std::fmt::Debug + 'static {
    const TRACKED: bool;
    fn make(tok: u32) -> Self;
    fn tok(&self) -> u32;
    fn set_tok(&mut self, tok: u32);
    fn serial(&self) -> Option<u32>;
}

// --- tracked key -----------------------------------------------------------

pub struct TKey {
    pub id: u8,
    pub tok: u32,
    pub serial: u32,
}
impl KeyT for TKey {
    const TRACKED: bool = true;
    const NAME: &'static str = "tracked";
    fn make(id: u8, tok: u32) -> Self {
        TKey { id, tok, serial: env::reg_new() }
    }
    fn id(&self) -> u8 {
        self.id
    }
    fn tok(&self) -> u32 {
        self.tok
    }
    fn serial(&self) -> Option<u32> {
        Some(self.serial)
    }
}
impl Clone for TKey {
    fn clone(&self) -> Self {
        env::note_clone();
        env::tick(Class::Clone);
        TKey { id: self.id, tok: self.tok, serial: env::reg_new() }
    }
}
impl Drop for TKey {
    fn drop(&mut self) {
        env::reg_drop(self.serial);
        env::tick(Class::Drop);
    }
}
impl PartialEq for TKey {
    fn eq(&self, o: &Self) -> bool {
        eq_ids(self.id, o.id)
    }
}
impl Eq for TKey {}
impl Hash for TKey {
    fn hash<H: Hasher>(&self, h: &mut H) {
        env::tick(Class::Hash);
        h.write_u8(self.id);
    }
}

// --- plain key (Copy, no drop glue) -----------------------------------------

#[derive(Clone, Copy)]
pub struct PKey {
    pub id: u8,
    pub tok: u32,
}
impl KeyT for PKey {
    const TRACKED: bool = false;
    const NAME: &'static str = "plain";
    const CLONE_IS_USER_CODE: bool = false;
    fn make(id: u8, tok: u32) -> Self {
        PKey { id, tok }
    }
    fn id(&self) -> u8 {
        self.id
    }
    fn tok(&self) -> u32 {
        self.tok
    }
    fn serial(&self) -> Option<u32> {
        None
    }
}
impl PartialEq for PKey {
    fn eq(&self, o: &Self) -> bool {
        eq_ids(self.id, o.id)
    }
}
impl Eq for PKey {}
impl Hash for PKey {
    fn hash<H: Hasher>(&self, h: &mut H) {
        env::tick(Class::Hash);
        h.write_u8(self.id);
    }
}

// --- plain key with a user Clone (no drop glue, not Copy) ---------------------

pub struct CKey {
    pub id: u8,
    pub tok: u32,
}
impl Clone for CKey {
    fn clone(&self) -> Self {
        env::note_clone();
        env::tick(Class::Clone);
        CKey { id: self.id, tok: self.tok }
    }
}
impl KeyT for CKey {
    const TRACKED: bool = false;
    const NAME: &'static str = "plainclone";
    fn make(id: u8, tok: u32) -> Self {
        CKey { id, tok }
    }
    fn id(&self) -> u8 {
        self.id
    }
    fn tok(&self) -> u32 {
        self.tok
    }
    fn serial(&self) -> Option<u32> {
        None
    }
}
impl PartialEq for CKey {
    fn eq(&self, o: &Self) -> bool {
        eq_ids(self.id, o.id)
    }
}
impl Eq for CKey {}
impl Hash for CKey {
    fn hash<H: Hasher>(&self, h: &mut H) {
        env::tick(Class::Hash);
        h.write_u8(self.id);
    }
}
impl From<&KeyRef> for CKey {
    fn from(r: &KeyRef) -> Self {
        env::tick(Class::Into);
        CKey::make(r.0, FROM_REF_TOK)
    }
}
#[derive(PartialEq)]
pub struct CVal(pub u32);
impl Clone for CVal {
    fn clone(&self) -> Self {
        env::note_clone();
        env::tick(Class::Clone);
        CVal(self.0)
    }
}
impl ValT for CVal {
    const TRACKED: bool = false;
    fn make(tok: u32) -> Self {
        CVal(tok)
    }
    fn tok(&self) -> u32 {
        self.0
    }
    fn set_tok(&mut self, tok: u32) {
        self.0 = tok
    }
    fn serial(&self) -> Option<u32> {
        None
    }
}
impl Default for CVal {
    fn default() -> Self {
        env::tick(Class::Default);
        CVal(DEFAULT_TOK)
    }
}

#[inline]
fn eq_ids(a: u8, b: u8) -> bool {
    env::tick(Class::Eq);
    let lawful = a == b;
    if env::choose(2) == 1 {
        !lawful
    } else {
        lawful
    }
}

// --- borrowed form -----------------------------------------------------------

/// A different type that is `Equivalent` to the keys (borrowed-form lookups).
#[derive(Clone, Copy, Debug)]
pub struct KeyRef(pub u8);
impl Hash for KeyRef {
    fn hash<H: Hasher>(&self, h: &mut H) {
        env::tick(Class::Hash);
        h.write_u8(self.0);
    }
}
impl<K: KeyT> Equivalent<K> for KeyRef {
    fn equivalent(&self, k: &K) -> bool {
        eq_ids(self.0, k.id())
    }
}
impl From<&KeyRef> for TKey {
    fn from(r: &KeyRef) -> Self {
        env::tick(Class::Into);
        TKey::make(r.0, FROM_REF_TOK)
    }
}
impl From<&KeyRef> for PKey {
    fn from(r: &KeyRef) -> Self {
        env::tick(Class::Into);
        PKey::make(r.0, FROM_REF_TOK)
    }
}
/// token of keys created by `EntryRef` through `From<&KeyRef>`
pub const FROM_REF_TOK: u32 = 0xFFFF_FF00;

// ---------------------------------------------------------------------------
// Values
// ---------------------------------------------------------------------------

pub struct TVal {
    pub tok: u32,
    pub serial: u32,
}
impl ValT for TVal {
    const TRACKED: bool = true;
    fn make(tok: u32) -> Self {
        TVal { tok, serial: env::reg_new() }
    }
    fn tok(&self) -> u32 {
        self.tok
    }
    fn set_tok(&mut self, tok: u32) {
        self.tok = tok
    }
    fn serial(&self) -> Option<u32> {
        Some(self.serial)
    }
}
impl Default for TVal {
    fn default() -> Self {
        env::tick(Class::Default);
        TVal::make(DEFAULT_TOK)
    }
}
pub const DEFAULT_TOK: u32 = 0xFFFF_FF01;
impl Clone for TVal {
    fn clone(&self) -> Self {
        env::note_clone();
        env::tick(Class::Clone);
        TVal { tok: self.tok, serial: env::reg_new() }
    }
}
impl Drop for TVal {
    fn drop(&mut self) {
        env::reg_drop(self.serial);
        env::tick(Class::Drop);
    }
}
impl PartialEq for TVal {
    fn eq(&self, o: &Self) -> bool {
        self.tok == o.tok
    }
}

#[derive(Clone, Copy, PartialEq)]
pub struct PVal(pub u32);
impl ValT for PVal {
    const TRACKED: bool = false;
    fn make(tok: u32) -> Self {
        PVal(tok)
    }
    fn tok(&self) -> u32 {
        self.0
    }
    fn set_tok(&mut self, tok: u32) {
        self.0 = tok
    }
    fn serial(&self) -> Option<u32> {
        None
    }
}
impl Default for PVal {
    fn default() -> Self {
        env::tick(Class::Default);
        PVal(DEFAULT_TOK)
    }
}

/// bulky plain value (136-byte entries): size-dependent heuristics of the table
#[derive(Clone, Copy)]
pub struct BVal(pub u32, pub [u64; 15]);
impl PartialEq for BVal {
    fn eq(&self, o: &Self) -> bool {
        self.0 == o.0
    }
}
impl ValT for BVal {
    const TRACKED: bool = false;
    fn make(tok: u32) -> Self {
        BVal(tok, [tok as u64; 15])
    }
    fn tok(&self) -> u32 {
        self.0
    }
    fn set_tok(&mut self, tok: u32) {
        self.0 = tok
    }
    fn serial(&self) -> Option<u32> {
        None
    }
}
impl Default for BVal {
    fn default() -> Self {
        env::tick(Class::Default);
        BVal::make(DEFAULT_TOK)
    }
}
impl std::fmt::Debug for BVal {
    fn fmt(&self, f: &mut std::fmt::Formatter<'_>) -> std::fmt::Result {
        write!(f, "V#{}", self.0)
    }
}

// ---------------------------------------------------------------------------
// Plan hasher
// ---------------------------------------------------------------------------

/// `BuildHasher` whose hashers map the single byte written by a key's `Hash`
/// impl to `plan[id]` (thread environment). In choice mode (C05) each `finish`
/// is an environment choice among the lawful hash and three alternatives.
#[derive(Clone, Copy, Default, Debug)]
pub struct PlanBuild {
    /// use the environment's second plan (differently "seeded" hasher instance)
    pub alt: bool,
}

pub struct PlanHasher {
    id: u8,
    alt: bool,
}
impl BuildHasher for PlanBuild {
    type Hasher = PlanHasher;
    fn build_hasher(&self) -> PlanHasher {
        env::tick(Class::BuildHasher);
        PlanHasher { id: 0, alt: self.alt }
    }
}
impl Hasher for PlanHasher {
    fn write(&mut self, bytes: &[u8]) {
        if let Some(&b) = bytes.last() {
            self.id = b;
        }
    }
    fn write_u8(&mut self, b: u8) {
        self.id = b;
    }
    fn finish(&self) -> u64 {
        let c = env::choose(4);
        env::with(|e| {
            if self.alt {
                e.plan_b[self.id as usize]
            } else if c == 0 {
                e.plan[self.id as usize]
            } else {
                e.alt[self.id as usize][c as usize - 1]
            }
        })
    }
}

/// Hash of key `id` under the current plan (the lawful answer).
pub fn plan_hash(id: u8) -> u64 {
    env::with(|e| e.plan[id as usize])
}

// ---------------------------------------------------------------------------
// Hash plans
// ---------------------------------------------------------------------------

#[derive(Clone, Copy, Debug, PartialEq, Eq, serde::Serialize, serde::Deserialize)]
pub enum Plan {
    /// all hashes 0
    Zero,
    /// all hashes u64::MAX
    Max,
    /// id * golden ratio (well mixed)
    Mix,
    /// position = id, tag fixed
    Seq,
    /// position fixed (0), tag = id
    Tag,
    /// c classes (position = 5*class, tag = class+1)
    Cluster(u8),
    /// one home 17 buckets before the end of the table, whatever its size: the first probe window fits, the
    /// next one wraps around the end of the control bytes
    Back,
    /// positions 2^k-3.. (wrap-around region): position = !0 - (id % 3), tag fixed
    Last,
    /// positions spread over the last 15 buckets (runs that wrap around the end): position = !0 - (id % 15)
    Tail,
    /// same position and tag for every key, but pairwise different 64-bit hashes (middle bits = id)
    Mid,
    /// explicit (position, tag) per class: id % n selects entry
    Adv(u8),
}

pub fn mk_hash(pos: u64, tag: u8) -> u64 {
    // position bits: low bits (below 57); tag: top 7 bits
    (pos & ((1u64 << 57) - 1)) | ((tag as u64 & 0x7f) << 57)
}

/// A small grid of adversarial (position, tag) assignments.
pub const ADV_GRID: &[&[(u64, u8)]] = &[
    // 0: same position, tags differing in bit 0 only (portable false positives)
    &[(0, 2), (0, 3)],
    // 1: adjacent positions straddling a group boundary (7/8 and 15/16), same tag
    &[(7, 1), (8, 1), (15, 1), (16, 1)],
    // 2: tag 0 and tag 0x7f at the last bucket
    &[(u64::MAX >> 7, 0), (u64::MAX >> 7, 0x7f)],
    // 3: two positions one group apart, same tag
    &[(0, 5), (16, 5), (8, 5)],
    // 4: tags 0x00/0x01 at position 1, 0x7e/0x7f at position 3
    &[(1, 0), (1, 1), (3, 0x7e), (3, 0x7f)],
];

impl Plan {
    pub fn table(&self) -> [u64; 256] {
        let mut t = [0u64; 256];
        for id in 0..256usize {
            t[id] = self.hash_of(id as u8);
        }
        t
    }
    pub fn hash_of(&self, id: u8) -> u64 {
        let id = id as usize;
        {
            let i = id as u64;
            match *self {
                Plan::Zero => 0,
                Plan::Max => u64::MAX,
                Plan::Mix => i.wrapping_add(1).wrapping_mul(0x9E37_79B9_7F4A_7C15),
                Plan::Seq => mk_hash(i, 0x11),
                Plan::Tag => mk_hash(0, (i & 0x7f) as u8),
                Plan::Cluster(c) => {
                    let cl = i % c as u64;
                    mk_hash(5 * cl, cl as u8 + 1)
                }
                Plan::Back => mk_hash((u64::MAX >> 7) - 16, 0x2b),
                Plan::Last => mk_hash((u64::MAX >> 7) - (i % 3), 0x2a),
                Plan::Tail => mk_hash((u64::MAX >> 7) - (i % 15), 0x2a),
                Plan::Mid => mk_hash(3 | ((i + 1) << 24), 0x09),
                Plan::Adv(g) => {
                    let grid = ADV_GRID[g as usize];
                    let (p, tg) = grid[id % grid.len()];
                    mk_hash(p, tg)
                }
            }
        }
    }
    pub fn name(&self) -> String {
        format!("{:?}", self)
    }
    /// true when every key has its own hash (no symmetry)
    pub fn all_distinct(&self) -> bool {
        matches!(self, Plan::Mix | Plan::Seq | Plan::Tag)
    }
}

/// Alternative hashes for choice mode: same position other tag, other
/// position same tag, other group & tag.
pub fn alt_table(plan: &[u64; 256]) -> [[u64; 3]; 256] {
    let mut a = [[0u64; 3]; 256];
    for id in 0..256 {
        let h = plan[id];
        a[id] = [
            h ^ (1u64 << 57),             // same position, tag differs (bit 0 of tag)
            h ^ 1,                        // neighbouring position, same tag
            h ^ 0x10 ^ (0x55u64 << 57),   // other group, other tag
        ];
    }
    a
}

// ---------------------------------------------------------------------------
// serde (C20): keys and values travel as u64 = id << 32 | token
// ---------------------------------------------------------------------------

impl serde::Serialize for TKey {
    fn serialize<S: serde::Serializer>(&self, s: S) -> Result<S::Ok, S::Error> {
        s.serialize_u64((self.id as u64) << 32 | self.tok as u64)
    }
}
impl<'de> serde::Deserialize<'de> for TKey {
    fn deserialize<D: serde::Deserializer<'de>>(d: D) -> Result<Self, D::Error> {
        let v = u64::deserialize(d)?;
        Ok(TKey::make((v >> 32) as u8, v as u32))
    }
}
impl serde::Serialize for TVal {
    fn serialize<S: serde::Serializer>(&self, s: S) -> Result<S::Ok, S::Error> {
        s.serialize_u64(self.tok as u64)
    }
}
impl<'de> serde::Deserialize<'de> for TVal {
    fn deserialize<D: serde::Deserializer<'de>>(d: D) -> Result<Self, D::Error> {
        let v = u64::deserialize(d)?;
        Ok(TVal::make(v as u32))
    }
}

// ---------------------------------------------------------------------------
// Debug: every element prints one marker ("K#" / "V#"), tracked elements check that they are live -
// a Debug impl of a collection or iterator that walks moved-out or dropped slots is caught here.
// ---------------------------------------------------------------------------

fn dbg_live(what: &str, serial: u32) {
    if !env::reg_is_live(serial) {
        env::error(format!("Debug formatting reached {what} #{serial} which is not live (moved out or dropped)"));
    }
}
impl std::fmt::Debug for TKey {
    fn fmt(&self, f: &mut std::fmt::Formatter<'_>) -> std::fmt::Result {
        dbg_live("key", self.serial);
        write!(f, "K#{}", self.id)
    }
}
impl std::fmt::Debug for TVal {
    fn fmt(&self, f: &mut std::fmt::Formatter<'_>) -> std::fmt::Result {
        dbg_live("value", self.serial);
        write!(f, "V#{}", self.tok)
    }
}
impl std::fmt::Debug for PKey {
    fn fmt(&self, f: &mut std::fmt::Formatter<'_>) -> std::fmt::Result {
        write!(f, "K#{}", self.id)
    }
}
impl std::fmt::Debug for PVal {
    fn fmt(&self, f: &mut std::fmt::Formatter<'_>) -> std::fmt::Result {
        write!(f, "V#{}", self.0)
    }
}
impl std::fmt::Debug for CKey {
    fn fmt(&self, f: &mut std::fmt::Formatter<'_>) -> std::fmt::Result {
        write!(f, "K#{}", self.id)
    }
}
impl std::fmt::Debug for CVal {
    fn fmt(&self, f: &mut std::fmt::Formatter<'_>) -> std::fmt::Result {
        write!(f, "V#{}", self.0)
    }
}
