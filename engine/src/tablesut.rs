//! HashTable (explicit-hash API) system under test, against a multiset model.

use crate::env::{self, CheckAlloc, Class};
use crate::explore::{Harness, Stats};
use crate::inv;
use crate::keys::*;
use crate::mapsut::{canon_of, classify, end_of_run_checks, Baseline, Res, Ret, Shr};
use hashbrown::hash_table::Entry;
use hashbrown::HashTable;
use serde::{Deserialize, Serialize};

pub type Table = HashTable<TEl, CheckAlloc>;

/// Tracked table element; its hash is `plan[id]`, supplied by the caller.
pub struct TEl {
    pub id: u8,
    pub tok: u32,
    pub serial: u32,
}
impl TEl {
    pub fn make(id: u8, tok: u32) -> Self {
        TEl { id, tok, serial: env::reg_new() }
    }
}
impl Clone for TEl {
    fn clone(&self) -> Self {
        env::note_clone();
        env::tick(Class::Clone);
        TEl { id: self.id, tok: self.tok, serial: env::reg_new() }
    }
}
impl Drop for TEl {
    fn drop(&mut self) {
        env::reg_drop(self.serial);
        env::tick(Class::Drop);
    }
}

impl std::fmt::Debug for TEl {
    fn fmt(&self, f: &mut std::fmt::Formatter<'_>) -> std::fmt::Result {
        if !env::reg_is_live(self.serial) {
            env::error(format!("Debug formatting reached table element #{} which is not live", self.serial));
        }
        write!(f, "E#{}", self.id)
    }
}

pub fn hasher(e: &TEl) -> u64 {
    env::tick(Class::Hash);
    plan_hash(e.id)
}
fn eq_id(id: u8) -> impl FnMut(&TEl) -> bool {
    move |e| {
        env::tick(Class::Eq);
        e.id == id
    }
}

#[derive(Clone, Copy, Debug, PartialEq, Eq, Hash, Serialize, Deserialize)]
pub enum TAct {
    Insert,
    OrInsert,
    OrInsertWith,
    AndModifyOrInsert,
    Remove,
    IntoTable,
}
pub const TACTS: &[TAct] = &[TAct::Insert, TAct::OrInsert, TAct::OrInsertWith, TAct::AndModifyOrInsert, TAct::Remove, TAct::IntoTable];

#[derive(Clone, Copy, Debug, PartialEq, Eq, Hash, Serialize, Deserialize)]
pub enum TabOp {
    InsertUnique(u8),
    Remove(u8),
    RemoveReinsert(u8),
    Entry(u8, TAct),
    FindMut(u8),
    /// find_entry -> OccupiedEntry::{get, get_mut, into_mut} writes
    EntryAccessors(u8),
    /// try_reserve(n) with a serving allocator: 0 = 1 more than the spare room, 1 = twice the capacity
    TryReserve(u8),
    Retain(Ret),
    /// extract_if with predicate kind, dropped after this many yielded items (255 = run to the end)
    ExtractIf(Ret, u8),
    /// drain dropped after this many items (255 = all)
    Drain(u8),
    Clear,
    Reserve(Res),
    ShrinkToFit,
    ShrinkTo(Shr),
    CloneSwap,
}

#[derive(Clone, Debug)]
pub struct TabCfg {
    pub plan: Plan,
    pub universe: u8,
    pub reduce: bool,
    pub max_len: usize,
    pub max_dup: usize,
    pub max_buckets: usize,
    pub full_alphabet: bool,
    pub probes: Vec<TProbe>,
}
#[derive(Clone, Copy, Debug, PartialEq, Eq)]
pub enum TProbe {
    ManyMut,
    Iterators,
}
impl TabCfg {
    pub fn new(plan: Plan, universe: u8) -> Self {
        TabCfg { plan, universe, reduce: true, max_len: universe as usize + 2, max_dup: 2, max_buckets: 64, full_alphabet: true, probes: vec![] }
    }
    pub fn label(&self) -> String {
        format!("table-{}-u{}-len{}{}", self.plan.name(), self.universe, self.max_len, if self.reduce { "-sym" } else { "-nosym" })
    }
    pub fn class_of(&self) -> Vec<u8> {
        let mut distinct: Vec<u64> = Vec::new();
        (0..self.universe)
            .map(|id| {
                let h = self.plan.hash_of(id);
                match distinct.iter().position(|&x| x == h) {
                    Some(c) => c as u8,
                    None => {
                        distinct.push(h);
                        (distinct.len() - 1) as u8
                    }
                }
            })
            .collect()
    }
}

pub struct TabSut {
    pub table: Table,
    /// (id, token); tokens are unique
    pub model: Vec<(u8, u32)>,
    pub next_tok: u32,
    pub class_of: Vec<u8>,
    pub base: Baseline,
    /// set after a destructor panic (the only situation in which leaks are permitted)
    pub leaks_allowed: bool,
}

impl TabSut {
    pub fn new(cfg: &TabCfg) -> Self {
        let base = Baseline::take();
        TabSut { table: Table::default(), model: Vec::new(), next_tok: 1, class_of: cfg.class_of(), base, leaks_allowed: false }
    }
    fn tok(&mut self) -> u32 {
        let t = self.next_tok;
        self.next_tok += 1;
        t
    }
    pub fn count(&self, id: u8) -> usize {
        self.model.iter().filter(|e| e.0 == id).count()
    }
    fn remove_tok(&mut self, tok: u32) -> bool {
        match self.model.iter().position(|e| e.1 == tok) {
            Some(p) => {
                self.model.swap_remove(p);
                true
            }
            None => false,
        }
    }

    pub fn check_all(&mut self, universe: u8) -> Result<(), String> {
        let d = self.table.verif_dump();
        let t = &self.table;
        inv::check_structure(&d, inv::Which { lawful_hash: true }, &|i| t.verif_bucket(i).map(|e| plan_hash(e.id)))?;
        let _: &CheckAlloc = self.table.allocator();
        if self.table.len() != self.model.len() || self.table.is_empty() != self.model.is_empty() {
            return Err(format!("len() = {} but the reference multiset holds {}", self.table.len(), self.model.len()));
        }
        if self.table.capacity() < self.table.len() {
            return Err("capacity() < len()".into());
        }
        let mut got: Vec<(u8, u32)> = Vec::new();
        for e in self.table.iter() {
            if !env::reg_is_live(e.serial) {
                return Err(format!("iter() yielded element #{} which is not live", e.serial));
            }
            got.push((e.id, e.tok));
            if got.len() > self.model.len() + 4 {
                return Err("iter() yields more than the reference holds".into());
            }
        }
        got.sort_unstable();
        let mut want = self.model.clone();
        want.sort_unstable();
        if got != want {
            return Err(format!("contents differ: iter() = {:?}, reference multiset = {:?}", got, want));
        }
        for id in 0..universe {
            let h = plan_hash(id);
            let f = self.table.find(h, eq_id(id)).map(|e| (e.id, e.tok));
            let n = self.count(id);
            match f {
                Some(e) => {
                    if !self.model.contains(&e) {
                        return Err(format!("find({id}) returned {:?} which is not stored (removed or never inserted)", e));
                    }
                }
                None => {
                    if n > 0 {
                        return Err(format!("find({id}) = None but {n} such element(s) are stored"));
                    }
                }
            }
            let fm = self.table.find_mut(h, eq_id(id)).map(|e| (e.id, e.tok));
            if fm.is_some() != (n > 0) {
                return Err(format!("find_mut({id}) disagrees with the reference"));
            }
        }
        // iter_hash(h): every stored element inserted with h, none twice
        let mut hashes: Vec<u64> = (0..universe).map(plan_hash).collect();
        hashes.sort_unstable();
        hashes.dedup();
        hashes.push(0x1234_5678_9abc_def0); // a hash nothing was inserted with
        for h in hashes {
            let mut seen: Vec<u32> = Vec::new();
            let mut n = 0;
            for e in self.table.iter_hash(h) {
                n += 1;
                if n > self.model.len() + 4 {
                    return Err(format!("iter_hash({h:#x}) yields more than the table holds"));
                }
                if seen.contains(&e.tok) {
                    return Err(format!("iter_hash({h:#x}) yielded element {:?} twice", (e.id, e.tok)));
                }
                if !self.model.contains(&(e.id, e.tok)) {
                    return Err(format!("iter_hash({h:#x}) yielded {:?} which is not stored", (e.id, e.tok)));
                }
                seen.push(e.tok);
            }
            for m in &self.model {
                if plan_hash(m.0) == h && !seen.contains(&m.1) {
                    return Err(format!("iter_hash({h:#x}) did not yield stored element {:?} that was inserted with this hash", m));
                }
            }
            // size_hint must bracket what is actually still yielded, at every position
            {
                let total = seen.len();
                let mut it = self.table.iter_hash(h);
                for step in 0..=total {
                    let (lo, hi) = it.size_hint();
                    let left = total - step;
                    if lo > left || hi.map_or(false, |x| x < left) {
                        return Err(format!("iter_hash({h:#x}): size_hint() = {:?} after {step} items but {left} more are yielded", (lo, hi)));
                    }
                    if it.next().is_none() {
                        break;
                    }
                }
                let mut it = self.table.iter_hash_mut(h);
                for step in 0..=total {
                    let (lo, hi) = it.size_hint();
                    let left = total - step;
                    if lo > left || hi.map_or(false, |x| x < left) {
                        return Err(format!("iter_hash_mut({h:#x}): size_hint() = {:?} after {step} items but {left} more are yielded", (lo, hi)));
                    }
                    if it.next().is_none() {
                        break;
                    }
                }
            }
            // a clone taken after j items continues from the same position (so does what Debug prints)
            for j in 0..=seen.len() {
                let mut it = self.table.iter_hash(h);
                for _ in 0..j {
                    it.next();
                }
                let cl = it.clone();
                let text = format!("{:?}", it);
                let mut a: Vec<u32> = it.map(|e| e.tok).collect();
                let mut b: Vec<u32> = cl.map(|e| e.tok).collect();
                a.sort_unstable();
                b.sort_unstable();
                if a != b || a.len() != seen.len() - j {
                    return Err(format!("iter_hash({h:#x}): after {j} of {} items the iterator yields {} more, its clone {}", seen.len(), a.len(), b.len()));
                }
                if text.matches("E#").count() > seen.len() - j {
                    return Err(format!("iter_hash({h:#x}): Debug after {j} of {} items lists {} elements: {text}", seen.len(), text.matches("E#").count()));
                }
            }
            // internal iteration must visit the same elements
            let folded = self.table.iter_hash(h).fold(0usize, |a, e| a + (seen.contains(&e.tok) as usize));
            if folded != seen.len() || self.table.iter_hash(h).count() != seen.len() {
                return Err(format!("iter_hash({h:#x}).fold visits {} of the {} elements next() yields", folded, seen.len()));
            }
            // iter_hash_mut must agree
            let mut seen2: Vec<u32> = self.table.iter_hash_mut(h).map(|e| e.tok).collect();
            seen2.sort_unstable();
            seen.sort_unstable();
            if seen != seen2 {
                return Err(format!("iter_hash_mut({h:#x}) differs from iter_hash"));
            }
        }
        let a = self.table.allocation_size();
        let l = env::live_bytes() - self.base.live_bytes;
        if a != l && !self.leaks_allowed {
            return Err(format!("allocation_size() = {a} but the allocator ledger holds {l} bytes"));
        }
        Ok(())
    }

    pub fn finish(self) -> Result<(), String> {
        let TabSut { table, base, .. } = self;
        drop(table);
        end_of_run_checks(&base)
    }
}

macro_rules! chk {
    ($checked:expr, $cond:expr, $($fmt:tt)*) => {
        let ok: bool = $cond;
        if $checked && !ok {
            return Err(format!($($fmt)*));
        }
    };
}

pub struct TabHarness {
    pub cfg: TabCfg,
    pub plan: [u64; 256],
}
impl TabHarness {
    pub fn new(cfg: TabCfg) -> Self {
        let plan = cfg.plan.table();
        TabHarness { cfg, plan }
    }

    fn apply_inner(&self, s: &mut TabSut, op: &TabOp, c: bool) -> Result<(), String> {
        match *op {
            TabOp::InsertUnique(id) => {
                let t = s.tok();
                let o = s.table.insert_unique(plan_hash(id), TEl::make(id, t), hasher);
                chk!(c, o.get().tok == t && o.get().id == id, "insert_unique({id}) returned an entry for another element");
                s.model.push((id, t));
            }
            TabOp::Remove(id) => match s.table.find_entry(plan_hash(id), eq_id(id)) {
                Ok(o) => {
                    let (e, vac) = o.remove();
                    drop(vac);
                    chk!(c, e.id == id, "find_entry({id}).remove() returned an element with id {}", e.id);
                    chk!(c, s.remove_tok(e.tok), "find_entry({id}).remove() returned element {:?} which is not stored", (e.id, e.tok));
                }
                Err(_) => {
                    chk!(c, s.count(id) == 0, "find_entry({id}) is absent but the element is stored");
                }
            },
            TabOp::RemoveReinsert(id) => match s.table.find_entry(plan_hash(id), eq_id(id)) {
                Ok(o) => {
                    let t = s.next_tok;
                    s.next_tok += 1;
                    let (e, vac) = o.remove();
                    let o2 = vac.insert(TEl::make(id, t));
                    chk!(c, o2.get().tok == t, "VacantEntry::insert after remove returned the wrong entry");
                    chk!(c, e.id == id, "remove() returned an element with id {}", e.id);
                    let etok = e.tok;
                    drop(e);
                    chk!(c, s.remove_tok(etok), "remove() returned an element that is not stored");
                    s.model.push((id, t));
                }
                Err(a) => {
                    let _ = a.into_table();
                    chk!(c, s.count(id) == 0, "find_entry({id}) is absent but the element is stored");
                }
            },
            TabOp::Entry(id, act) => {
                let h = plan_hash(id);
                let present = s.count(id) > 0;
                let t = s.next_tok;
                s.next_tok += 2;
                let e = s.table.entry(h, eq_id(id), hasher);
                let occ = matches!(e, Entry::Occupied(_));
                chk!(c, occ == present, "entry({id}) is {} but reference says present = {present}", if occ { "Occupied" } else { "Vacant" });
                match act {
                    TAct::Insert => {
                        let old = match &e {
                            Entry::Occupied(o) => Some(o.get().tok),
                            _ => None,
                        };
                        let o = e.insert(TEl::make(id, t));
                        chk!(c, o.get().tok == t, "entry({id}).insert holds the wrong element");
                        if let Some(old) = old {
                            chk!(c, s.remove_tok(old), "entry({id}).insert replaced an element that is not stored");
                        }
                        s.model.push((id, t));
                    }
                    TAct::OrInsert | TAct::OrInsertWith => {
                        let o = if act == TAct::OrInsert {
                            e.or_insert(TEl::make(id, t))
                        } else {
                            e.or_insert_with(|| {
                                env::tick(Class::Closure);
                                TEl::make(id, t)
                            })
                        };
                        if present {
                            chk!(c, s.model.contains(&(id, o.get().tok)), "entry({id}).or_insert returned an element that is not stored");
                        } else {
                            chk!(c, o.get().tok == t, "entry({id}).or_insert did not insert the default");
                            s.model.push((id, t));
                        }
                    }
                    TAct::AndModifyOrInsert => {
                        let mut modified = None;
                        let o = e
                            .and_modify(|x| {
                                env::tick(Class::Closure);
                                modified = Some(x.tok);
                                x.tok = t + 1;
                            })
                            .or_insert(TEl::make(id, t));
                        let otok = o.get().tok;
                        match modified {
                            Some(old) => {
                                chk!(c, present, "and_modify ran on a vacant entry");
                                chk!(c, otok == t + 1, "and_modify's change is not visible");
                                chk!(c, s.remove_tok(old), "and_modify ran on an element that is not stored");
                                s.model.push((id, t + 1));
                            }
                            None => {
                                chk!(c, !present, "and_modify did not run on an occupied entry");
                                s.model.push((id, t));
                            }
                        }
                    }
                    TAct::Remove => {
                        if let Entry::Occupied(o) = e {
                            let (x, v) = o.remove();
                            let _ = v.into_table();
                            chk!(c, s.remove_tok(x.tok), "occupied.remove() returned an element that is not stored");
                        }
                    }
                    TAct::IntoTable => match e {
                        Entry::Occupied(o) => {
                            let _ = o.into_table();
                        }
                        Entry::Vacant(v) => {
                            let _ = v.into_table();
                        }
                    },
                }
            }
            TabOp::FindMut(id) => {
                let t = s.tok();
                if let Some(e) = s.table.find_mut(plan_hash(id), eq_id(id)) {
                    let old = e.tok;
                    e.tok = t;
                    chk!(c, s.remove_tok(old), "find_mut({id}) returned an element that is not stored");
                    s.model.push((id, t));
                } else {
                    chk!(c, s.count(id) == 0, "find_mut({id}) = None but the element is stored");
                }
            }
            TabOp::EntryAccessors(id) => match s.table.find_entry(plan_hash(id), eq_id(id)) {
                Ok(mut o) => {
                    let old = o.get().tok;
                    chk!(c, o.get().id == id && s.model.contains(&(id, old)), "find_entry({id}).get() returned an element that is not stored");
                    let t1 = s.next_tok;
                    s.next_tok += 2;
                    o.get_mut().tok = t1;
                    let r = o.into_mut();
                    chk!(c, r.tok == t1, "OccupiedEntry::into_mut does not see the write made through get_mut");
                    r.tok = t1 + 1;
                    chk!(c, s.remove_tok(old), "find_entry({id}) returned an element that is not stored");
                    s.model.push((id, t1 + 1));
                }
                Err(a) => {
                    let _ = a.into_table();
                    chk!(c, s.count(id) == 0, "find_entry({id}) is absent but the element is stored");
                }
            },
            TabOp::TryReserve(k) => {
                let len = s.table.len();
                let add = if k == 0 { s.table.capacity() - len + 1 } else { 2 * s.table.capacity() + 1 };
                let r = s.table.try_reserve(add, hasher);
                chk!(c, r.is_ok(), "try_reserve({add}) failed with a serving allocator: {:?}", r);
                chk!(c, s.table.capacity() >= len + add, "try_reserve({add}) = Ok but capacity() = {} < len {len} + {add}", s.table.capacity());
            }
            TabOp::Retain(kind) => {
                let mut seen = Vec::new();
                let mut kept = Vec::new();
                let mut visit = 0u32;
                s.table.retain(|e| {
                    env::tick(Class::Closure);
                    seen.push((e.id, e.tok));
                    let keep = match kind {
                        Ret::All => true,
                        Ret::None => false,
                        Ret::EvenIds => e.id % 2 == 0,
                        Ret::Alternate => visit % 2 == 0,
                        Ret::KeepHigh => e.id as usize >= hashbrown::verif::GROUP_WIDTH,
                    };
                    visit += 1;
                    if keep {
                        e.tok ^= 0x4000_0000;
                        kept.push((e.id, e.tok));
                    }
                    keep
                });
                seen.sort_unstable();
                let mut want = s.model.clone();
                want.sort_unstable();
                chk!(c, seen == want, "retain: predicate saw {:?}, reference {:?}", seen, want);
                s.model = kept;
            }
            TabOp::ExtractIf(kind, cut) => {
                let mut visited: Vec<(u8, u32)> = Vec::new();
                let mut yielded: Vec<(u8, u32)> = Vec::new();
                let mut visit = 0u32;
                let sel = |id: u8, visit: u32| match kind {
                    Ret::All => true,
                    Ret::None => false,
                    Ret::EvenIds => id % 2 == 0,
                    Ret::Alternate => visit % 2 == 0,
                    // (extract_if selects what is removed: the low ids)
                    Ret::KeepHigh => (id as usize) < hashbrown::verif::GROUP_WIDTH,
                };
                let mut selected: Vec<u32> = Vec::new();
                let mut rest = 0usize;
                // (lower, upper) size hints taken before each next()
                let mut hints: Vec<(usize, usize)> = Vec::new();
                {
                    let mut it = s.table.extract_if(|e| {
                        env::tick(Class::Closure);
                        visited.push((e.id, e.tok));
                        let r = sel(e.id, visit);
                        visit += 1;
                        if r {
                            selected.push(e.tok);
                        }
                        r
                    });
                    let mut n = 0u8;
                    while cut == 255 || n < cut.min(1) || (cut < 254 && n < cut) {
                        let (lo, hi) = it.size_hint();
                        hints.push((lo, hi.unwrap_or(usize::MAX)));
                        match it.next() {
                            Some(e) => yielded.push((e.id, e.tok)),
                            None => break,
                        }
                        n += 1;
                    }
                    if cut == 254 {
                        // one external step, then internal iteration (count -> fold)
                        rest = it.count();
                    }
                }
                chk!(c, cut != 254 || visited.len() == s.model.len(), "extract_if: next() then count() visited {} of {} elements", visited.len(), s.model.len());
                chk!(c, cut != 254 || yielded.len() + rest == selected.len(), "extract_if: next() then count() = {} + {rest}, but the predicate selected {}", yielded.len(), selected.len());
                if cut == 254 {
                    s.model.retain(|e| !selected.contains(&e.1));
                    return Ok(());
                }
                if cut == 255 {
                    // run to the end: the hint taken before the i-th next() must bracket the yielded.len() - i items that followed
                    for (i, &(lo, hi)) in hints.iter().enumerate() {
                        let left = yielded.len().saturating_sub(i);
                        chk!(c, lo <= left && left <= hi, "extract_if: size_hint() = ({lo}, {hi}) before item {i}, but {left} more elements were yielded");
                    }
                }
                let mut v2 = visited.clone();
                v2.sort_unstable();
                v2.dedup();
                chk!(c, v2.len() == visited.len(), "extract_if visited an element twice");
                for v in &visited {
                    chk!(c, s.model.contains(v), "extract_if visited {:?} which is not stored", v);
                }
                chk!(c, cut != 255 || visited.len() == s.model.len(), "extract_if exhausted without visiting every element");
                let mut ys: Vec<u32> = yielded.iter().map(|e| e.1).collect();
                ys.sort_unstable();
                selected.sort_unstable();
                chk!(c, ys == selected, "extract_if yielded {:?} but the predicate selected {:?}", ys, selected);
                s.model.retain(|e| !selected.contains(&e.1));
            }
            TabOp::Drain(cut) => {
                let mut got = Vec::new();
                {
                    let mut d = s.table.drain();
                    let mut n = 0u8;
                    while cut == 255 || n < cut {
                        match d.next() {
                            Some(e) => got.push((e.id, e.tok)),
                            None => break,
                        }
                        n += 1;
                    }
                }
                for g in &got {
                    chk!(c, s.model.contains(g), "drain yielded {:?} which is not stored", g);
                }
                chk!(c, cut != 255 || got.len() == s.model.len(), "drain yielded {} of {} elements", got.len(), s.model.len());
                s.model.clear();
            }
            TabOp::Clear => {
                s.table.clear();
                s.model.clear();
            }
            TabOp::Reserve(r) => {
                let d = s.table.verif_dump();
                let full_cap = hashbrown::verif::bucket_mask_to_capacity(d.bucket_mask);
                let len = s.table.len();
                let add = match r {
                    Res::One => s.table.capacity() - len + 1,
                    Res::Half => {
                        if full_cap / 2 > len {
                            full_cap / 2 - len
                        } else {
                            1
                        }
                    }
                    Res::Double => 2 * s.table.capacity() + 1,
                };
                s.table.reserve(add, hasher);
                chk!(c, s.table.capacity() >= len + add, "reserve({add}) left capacity {}", s.table.capacity());
            }
            TabOp::ShrinkToFit => s.table.shrink_to_fit(hasher),
            TabOp::ShrinkTo(k) => {
                let len = s.table.len();
                let cap = s.table.capacity();
                let m = match k {
                    Shr::Zero => 0,
                    Shr::Len => len,
                    Shr::LenPlus1 => len + 1,
                    Shr::CapMinus1 => cap.saturating_sub(1),
                    Shr::CapPlus1 => cap + 1,
                };
                s.table.shrink_to(m, hasher);
                chk!(c, s.table.capacity() >= len.max(m.min(cap)), "shrink_to({m}) left capacity {}", s.table.capacity());
            }
            TabOp::CloneSwap => {
                let c0 = env::clone_count();
                let cl = s.table.clone();
                chk!(c, env::clone_count() - c0 == s.model.len() as u64, "clone() of {} elements called Clone::clone {} times", s.model.len(), env::clone_count() - c0);
                let mut got: Vec<(u8, u32)> = cl.iter().map(|e| (e.id, e.tok)).collect();
                got.sort_unstable();
                let mut want = s.model.clone();
                want.sort_unstable();
                chk!(c, got == want, "clone() holds {:?}, reference {:?}", got, want);
                let old = std::mem::replace(&mut s.table, cl);
                drop(old);
            }
        }
        Ok(())
    }

    pub fn apply_op(&self, s: &mut TabSut, op: &TabOp, checked: bool, stats: &Stats) -> Result<(), String> {
        let pre = if checked { Some(s.table.verif_dump()) } else { None };
        self.apply_inner(s, op, checked)?;
        if let Some(pre) = pre {
            classify(&pre, &s.table.verif_dump(), stats);
        }
        Ok(())
    }
}

impl Harness for TabHarness {
    type Op = TabOp;
    type Sut = TabSut;
    fn init(&self) -> TabSut {
        env::reset();
        env::set_plan(&self.plan);
        TabSut::new(&self.cfg)
    }
    fn init_nested(&self) -> TabSut {
        TabSut::new(&self.cfg)
    }
    fn ops(&self, s: &TabSut) -> Vec<TabOp> {
        let mut v = Vec::new();
        let mut seen_class = [false; 256];
        let mut keys = Vec::new();
        for id in 0..self.cfg.universe {
            if s.count(id) > 0 {
                keys.push(id);
            } else if self.cfg.reduce {
                let cl = s.class_of[id as usize] as usize;
                if !seen_class[cl] {
                    seen_class[cl] = true;
                    keys.push(id);
                }
            } else {
                keys.push(id);
            }
        }
        let room = s.model.len() < self.cfg.max_len;
        for &id in &keys {
            if room && s.count(id) < self.cfg.max_dup {
                v.push(TabOp::InsertUnique(id));
            }
            v.push(TabOp::Remove(id));
            if self.cfg.full_alphabet {
                v.push(TabOp::RemoveReinsert(id));
                v.push(TabOp::FindMut(id));
                v.push(TabOp::EntryAccessors(id));
                for &a in TACTS {
                    if !room && s.count(id) == 0 && !matches!(a, TAct::Remove | TAct::IntoTable) {
                        continue;
                    }
                    v.push(TabOp::Entry(id, a));
                }
            }
        }
        v.push(TabOp::Clear);
        if self.cfg.full_alphabet {
            for k in [Ret::All, Ret::None, Ret::EvenIds, Ret::Alternate, Ret::KeepHigh] {
                v.push(TabOp::Retain(k));
                v.push(TabOp::ExtractIf(k, 255));
                v.push(TabOp::ExtractIf(k, 254));
                v.push(TabOp::ExtractIf(k, 1));
                v.push(TabOp::ExtractIf(k, 0));
            }
            v.push(TabOp::Drain(255));
            v.push(TabOp::Drain(0));
            v.push(TabOp::Drain(1));
            v.push(TabOp::CloneSwap);
        }
        let d = s.table.verif_dump();
        let nb = if d.is_singleton { 0 } else { d.bucket_mask + 1 };
        for r in [Res::One, Res::Half, Res::Double] {
            if matches!(r, Res::Double | Res::One) && nb >= self.cfg.max_buckets {
                continue;
            }
            if r == Res::Double && !self.cfg.full_alphabet {
                continue;
            }
            v.push(TabOp::Reserve(r));
        }
        if self.cfg.full_alphabet && nb < self.cfg.max_buckets {
            v.push(TabOp::TryReserve(0));
            v.push(TabOp::TryReserve(1));
        }
        v.push(TabOp::ShrinkToFit);
        v.push(TabOp::ShrinkTo(Shr::LenPlus1));
        if self.cfg.full_alphabet {
            v.push(TabOp::ShrinkTo(Shr::Zero));
            v.push(TabOp::ShrinkTo(Shr::CapMinus1));
            v.push(TabOp::ShrinkTo(Shr::CapPlus1));
        }
        v
    }
    fn apply(&self, s: &mut TabSut, op: &TabOp, checked: bool, stats: &Stats) -> Result<(), String> {
        self.apply_op(s, op, checked, stats)
    }
    fn check(&self, s: &mut TabSut) -> Result<(), String> {
        s.check_all(self.cfg.universe)
    }
    fn canon(&self, s: &TabSut) -> Vec<u8> {
        let d = s.table.verif_dump();
        let mut c = canon_of(&d, &|i| s.table.verif_bucket(i).map(|e| if self.cfg.reduce { s.class_of[e.id as usize] } else { e.id }));
        // duplicates: number the distinct ids in slot order, so that {A, A} and
        // {A, B} (same class) are different canonical states
        if self.cfg.reduce && !d.is_singleton {
            let mut order: Vec<u8> = Vec::new();
            for i in 0..=d.bucket_mask {
                if let Some(e) = s.table.verif_bucket(i) {
                    let idx = match order.iter().position(|&x| x == e.id) {
                        Some(p) => p,
                        None => {
                            order.push(e.id);
                            order.len() - 1
                        }
                    };
                    c.push(idx as u8);
                }
            }
        }
        c
    }
    fn finish(&self, s: TabSut) -> Result<(), String> {
        s.finish()
    }
    fn probes(&self, rebuild: &dyn Fn() -> TabSut, s: &mut TabSut, stats: &Stats) -> Result<(), String> {
        for p in &self.cfg.probes {
            match p {
                TProbe::ManyMut => crate::tableprobes::probe_many_mut(rebuild, s, self.cfg.universe, stats)?,
                TProbe::Iterators => crate::tableprobes::probe_iterators(rebuild, s, stats)?,
            }
        }
        Ok(())
    }
}
