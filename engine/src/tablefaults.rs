//! Single-fault enumeration for HashTable operations (C04 on the explicit-hash API): the caller's hasher,
//! equality and entry closures, `Clone` and `Drop` of the elements can each panic at their k-th invocation.

use crate::env::{self, Class, NCLASS};
use crate::explore::{self, Stats};
use crate::faults::{FaultHarness, FaultStats};
use crate::inv;
use crate::keys::*;
use crate::mapsut::{end_of_run_checks, Res, Ret};
use crate::tablesut::*;
use std::sync::atomic::Ordering;

impl FaultHarness for TabHarness {
    fn flavour(&self) -> &'static str {
        "tracked table element"
    }

    fn count_run(&self, hist: &[TabOp], op: &TabOp) -> Result<[u32; NCLASS], String> {
        let stats = Stats::default();
        let mut sut = explore::replay(self, hist, &stats)?;
        env::with(|e| {
            e.counts = [0; NCLASS];
            e.fault = None;
        });
        env::set_armed(true);
        let r = env::catch(|| self.apply_op(&mut sut, op, false, &stats));
        env::set_armed(false);
        let counts = env::with(|e| e.counts);
        match r {
            Ok(Ok(())) => {}
            Ok(Err(m)) => return Err(m),
            Err(m) => return Err(format!("unexpected panic in counting run: {m}")),
        }
        sut.finish()?;
        Ok(counts)
    }

    fn one_fault(&self, hist: &[TabOp], op: &TabOp, class: Class, k: u32, fstats: Option<&FaultStats>) -> Result<bool, String> {
        let stats = Stats::default();
        let mut sut = explore::replay(self, hist, &stats)?;
        let pre_model = sut.model.clone();
        let tok_base = sut.next_tok;
        let pre_serials: Vec<(u8, u32)> = sut.table.iter().map(|e| (e.id, e.serial)).collect();
        let (allocs0, _) = env::alloc_calls();
        env::with(|e| {
            e.counts = [0; NCLASS];
            e.fault = Some((class, k));
            e.fault_fired = false;
        });
        env::set_armed(true);
        let r = env::catch(|| self.apply_op(&mut sut, op, false, &stats));
        env::set_armed(false);
        let fired = env::with(|e| {
            e.fault = None;
            e.fault_fired
        });
        let (allocs1, _) = env::alloc_calls();
        match &r {
            Ok(Ok(())) => {
                if fired {
                    return Err(format!("injected {:?} fault #{k} was swallowed: the operation returned normally", class));
                }
                sut.finish().ok();
                env::take_errors();
                return Ok(false);
            }
            Ok(Err(m)) => return Err(format!("MACHINERY: unchecked apply returned an error: {m}")),
            Err(m) => {
                if !fired || !m.contains(env::FAULT_MSG) {
                    return Err(format!("unexpected panic during {:?} with fault {:?}#{k}: {m}", op, class));
                }
            }
        }
        if let Some(fs) = fstats {
            fs.fired.fetch_add(1, Ordering::Relaxed);
            fs.per_class[class as usize].fetch_add(1, Ordering::Relaxed);
            if allocs1 > allocs0 {
                fs.during_growth.fetch_add(1, Ordering::Relaxed);
            }
        }
        let errs = env::take_errors();
        if !errs.is_empty() {
            return Err(errs.join("; "));
        }
        // a valid table: structure, len == yields, every yielded element live, findable, explainable
        let d = sut.table.verif_dump();
        {
            let t = &sut.table;
            inv::check_structure(&d, inv::Which { lawful_hash: true }, &|i| t.verif_bucket(i).map(|e| plan_hash(e.id)))?;
        }
        let mut post: Vec<(u8, u32)> = Vec::new();
        let mut post_serials: Vec<u32> = Vec::new();
        for e in sut.table.iter() {
            if post.len() > pre_model.len() + 8 {
                return Err("after the panic iter() yields more elements than could exist".into());
            }
            if !env::reg_is_live(e.serial) {
                return Err(format!("after the panic the table holds element #{} which has been dropped", e.serial));
            }
            post.push((e.id, e.tok));
            post_serials.push(e.serial);
        }
        if post.len() != sut.table.len() {
            return Err(format!("after the panic len() = {} but iter() yields {} elements", sut.table.len(), post.len()));
        }
        for e in &post {
            if post.iter().filter(|x| x.1 == e.1).count() != 1 {
                return Err(format!("after the panic element {:?} is stored twice", e));
            }
            if !(pre_model.contains(e) || e.1 >= tok_base) {
                return Err(format!("after the panic the table holds {:?} which is neither a stored element nor new", e));
            }
            let tok = e.1;
            if sut.table.find(plan_hash(e.0), |x| x.tok == tok).is_none() {
                return Err(format!("after the panic element {:?} is yielded by iter() but find() does not reach it", e));
            }
        }
        if class != Class::Drop {
            for (id, s) in &pre_serials {
                if !post_serials.contains(s) && env::reg_is_live(*s) {
                    return Err(format!("after the panic element #{s} (id {id}) is neither in the table nor dropped (leaked)"));
                }
            }
        }
        // resync the reference, then a follow-up script on the surviving table
        sut.model = post;
        sut.leaks_allowed = class == Class::Drop;
        sut.next_tok = tok_base + 100_000;
        let u = self.cfg.universe;
        sut.check_all(u).map_err(|m| format!("after the panic: {m}"))?;
        let absent = (0..u).find(|&id| sut.count(id) == 0);
        let present = (0..u).find(|&id| sut.count(id) > 0);
        let mut script: Vec<TabOp> = Vec::new();
        if let Some(a) = absent {
            script.push(TabOp::InsertUnique(a));
        }
        if let Some(p) = present {
            script.push(TabOp::Remove(p));
        }
        script.push(TabOp::Reserve(Res::One));
        script.push(TabOp::Retain(Ret::EvenIds));
        script.push(TabOp::Clear);
        if let Some(a) = absent {
            script.push(TabOp::InsertUnique(a));
        }
        for sop in &script {
            let r = env::catch(|| -> Result<(), String> {
                self.apply_op(&mut sut, sop, true, &stats)?;
                sut.check_all(u)
            });
            match r {
                Ok(Ok(())) => {}
                Ok(Err(m)) => return Err(format!("follow-up {:?} after the panic: {m}", sop)),
                Err(m) => return Err(format!("follow-up {:?} after the panic panicked: {m}", sop)),
            }
        }
        let TabSut { table, base, .. } = sut;
        drop(table);
        if class == Class::Drop {
            let errs = env::take_errors();
            if !errs.is_empty() {
                return Err(errs.join("; "));
            }
            env::alloc_check()?;
        } else {
            end_of_run_checks(&base).map_err(|m| format!("after the panic and final drop: {m}"))?;
        }
        Ok(true)
    }
}
