//! Breadcrumbs: each worker records the history it is about to execute in a
//! static buffer. A fatal-signal handler and the watchdog dump all buffers so
//! the supervisor can re-execute the candidates in a fresh process.

use std::cell::UnsafeCell;
use std::sync::atomic::{AtomicI32, AtomicU64, AtomicUsize, Ordering};

const NW: usize = 64;
const CAP: usize = 16384;

struct Slot {
    len: AtomicUsize,
    op: std::sync::atomic::AtomicI64,
    started_ms: AtomicU64,
    buf: UnsafeCell<[u8; CAP]>,
}
unsafe impl Sync for Slot {}

#[allow(clippy::declare_interior_mutable_const)]
const SLOT_INIT: Slot = Slot { len: AtomicUsize::new(0), op: std::sync::atomic::AtomicI64::new(-1), started_ms: AtomicU64::new(0), buf: UnsafeCell::new([0; CAP]) };
static SLOTS: [Slot; NW] = [SLOT_INIT; NW];
static CRUMB_FD: AtomicI32 = AtomicI32::new(-1);
static T0: std::sync::OnceLock<std::time::Instant> = std::sync::OnceLock::new();
/// per-transition watchdog limit in ms (0 = off)
pub static WATCHDOG_MS: AtomicU64 = AtomicU64::new(0);

fn now_ms() -> u64 {
    T0.get_or_init(std::time::Instant::now).elapsed().as_millis() as u64 + 1
}

static CONFIG: std::sync::Mutex<String> = std::sync::Mutex::new(String::new());
static CONFIG_BUF: Slot = SLOT_INIT;

/// Label of the configuration being explored (global).
pub fn set_config(label: &str) {
    *CONFIG.lock().unwrap() = label.to_string();
    let b = label.as_bytes();
    let n = b.len().min(CAP);
    CONFIG_BUF.len.store(0, Ordering::Release);
    unsafe { (&mut *CONFIG_BUF.buf.get())[..n].copy_from_slice(&b[..n]) };
    CONFIG_BUF.len.store(n, Ordering::Release);
}
pub fn config() -> String {
    CONFIG.lock().unwrap().clone()
}

/// Record the state a worker is about to work on: JSON of its history and
/// JSON of the operations enabled in it.
pub fn set_state<Op: serde::Serialize>(hist: &[Op], ops: &[Op]) {
    let w = crate::env::WORKER.with(|c| c.get()) % NW;
    let slot = &SLOTS[w];
    let mut s = String::with_capacity(512);
    s.push_str("\"hist\":");
    s.push_str(&serde_json::to_string(hist).unwrap_or_default());
    s.push_str(",\"ops\":");
    s.push_str(&serde_json::to_string(ops).unwrap_or_default());
    let b = s.as_bytes();
    slot.len.store(0, Ordering::Release);
    if b.len() <= CAP {
        unsafe { (&mut *slot.buf.get())[..b.len()].copy_from_slice(b) };
        slot.len.store(b.len(), Ordering::Release);
    }
    slot.op.store(-1, Ordering::Release);
    slot.started_ms.store(now_ms(), Ordering::Release);
}

/// Record a ready-made replay object (JSON text) for modes other than BFS.
pub fn set_replay(json_text: &str) {
    let w = crate::env::WORKER.with(|c| c.get()) % NW;
    let slot = &SLOTS[w];
    let b = json_text.as_bytes();
    slot.len.store(0, Ordering::Release);
    let pre = b"\"replay\":";
    if b.len() + pre.len() <= CAP {
        unsafe {
            (&mut *slot.buf.get())[..pre.len()].copy_from_slice(pre);
            (&mut *slot.buf.get())[pre.len()..pre.len() + b.len()].copy_from_slice(b);
        }
        slot.len.store(pre.len() + b.len(), Ordering::Release);
    }
    slot.op.store(-1, Ordering::Release);
    slot.started_ms.store(now_ms(), Ordering::Release);
}

/// Like `set_replay`, but the per-transition watchdog ignores this slot (long enumerations
/// that only need crash attribution).
pub fn set_replay_unwatched(json_text: &str) {
    set_replay(json_text);
    let w = crate::env::WORKER.with(|c| c.get()) % NW;
    SLOTS[w].started_ms.store(0, Ordering::Release);
}

/// Restart the watchdog clock of this worker's slot (one more unit of work started).
pub fn touch() {
    let w = crate::env::WORKER.with(|c| c.get()) % NW;
    if SLOTS[w].started_ms.load(Ordering::Acquire) != 0 {
        SLOTS[w].started_ms.store(now_ms(), Ordering::Release);
    }
}

/// Record which operation (index into the state's ops; -1 = state probes) is
/// being executed, and restart the watchdog clock.
#[inline]
pub fn set_op(i: i64) {
    let w = crate::env::WORKER.with(|c| c.get()) % NW;
    SLOTS[w].op.store(i, Ordering::Release);
    SLOTS[w].started_ms.store(now_ms(), Ordering::Release);
}

pub fn clear() {
    let w = crate::env::WORKER.with(|c| c.get()) % NW;
    SLOTS[w].len.store(0, Ordering::Release);
    SLOTS[w].started_ms.store(0, Ordering::Release);
}

fn write_num(fd: i32, mut v: i64) {
    let mut buf = [0u8; 24];
    let mut i = buf.len();
    let neg = v < 0;
    if neg {
        v = -v;
    }
    if v == 0 {
        i -= 1;
        buf[i] = b'0';
    }
    while v > 0 {
        i -= 1;
        buf[i] = b'0' + (v % 10) as u8;
        v /= 10;
    }
    if neg {
        i -= 1;
        buf[i] = b'-';
    }
    unsafe { libc::write(fd, buf[i..].as_ptr().cast(), buf.len() - i) };
}

fn dump_slot(fd: i32, kind: &[u8], slot: &Slot) {
    let n = slot.len.load(Ordering::Acquire);
    if n == 0 {
        return;
    }
    let w = |b: &[u8]| unsafe {
        libc::write(fd, b.as_ptr().cast(), b.len());
    };
    w(b"{\"kind\":\"");
    w(kind);
    w(b"\",\"config\":\"");
    let cn = CONFIG_BUF.len.load(Ordering::Acquire);
    unsafe { w(&(&mut *CONFIG_BUF.buf.get())[..cn]) };
    w(b"\",");
    unsafe { w(&(&mut *slot.buf.get())[..n]) };
    w(b",\"op\":");
    write_num(fd, slot.op.load(Ordering::Acquire));
    w(b"}\n");
}

fn dump_all(fd: i32, kind: &[u8]) {
    for slot in SLOTS.iter() {
        dump_slot(fd, kind, slot);
    }
}

extern "C" fn on_signal(sig: i32) {
    let fd = CRUMB_FD.load(Ordering::Relaxed);
    let fd = if fd >= 0 { fd } else { 2 };
    let tag: &[u8] = match sig {
        libc::SIGSEGV => b"CRASH SIGSEGV",
        libc::SIGBUS => b"CRASH SIGBUS",
        libc::SIGABRT => b"CRASH SIGABRT",
        libc::SIGILL => b"CRASH SIGILL",
        libc::SIGFPE => b"CRASH SIGFPE",
        _ => b"CRASH SIGNAL",
    };
    dump_all(fd, tag);
    unsafe { libc::_exit(70) };
}

/// Install the crash handler; breadcrumbs go to `path` (or stderr).
pub fn install(path: Option<&str>) {
    if cfg!(miri) {
        // no signal handlers / raw fds under the interpreter; it reports UB itself
        return;
    }
    if let Some(p) = path {
        let c = std::ffi::CString::new(p).unwrap();
        let fd = unsafe { libc::open(c.as_ptr(), libc::O_WRONLY | libc::O_CREAT | libc::O_TRUNC, 0o644) };
        CRUMB_FD.store(fd, Ordering::Relaxed);
    }
    unsafe {
        // alternate stack so that stack overflows are reported too
        let sz = 1 << 16;
        let stack = libc::mmap(
            std::ptr::null_mut(),
            sz,
            libc::PROT_READ | libc::PROT_WRITE,
            libc::MAP_PRIVATE | libc::MAP_ANONYMOUS,
            -1,
            0,
        );
        let ss = libc::stack_t { ss_sp: stack, ss_flags: 0, ss_size: sz };
        libc::sigaltstack(&ss, std::ptr::null_mut());
        for sig in [libc::SIGSEGV, libc::SIGBUS, libc::SIGABRT, libc::SIGILL, libc::SIGFPE] {
            let mut sa: libc::sigaction = std::mem::zeroed();
            sa.sa_sigaction = on_signal as usize;
            sa.sa_flags = libc::SA_ONSTACK;
            libc::sigaction(sig, &sa, std::ptr::null_mut());
        }
    }
    // watchdog thread
    std::thread::spawn(|| loop {
        std::thread::sleep(std::time::Duration::from_millis(500));
        let lim = WATCHDOG_MS.load(Ordering::Relaxed);
        if lim == 0 {
            continue;
        }
        let now = now_ms();
        for slot in SLOTS.iter() {
            let st = slot.started_ms.load(Ordering::Acquire);
            if st != 0 && slot.len.load(Ordering::Acquire) != 0 && now > st + lim {
                let fd = CRUMB_FD.load(Ordering::Relaxed);
                let fd = if fd >= 0 { fd } else { 2 };
                dump_slot(fd, b"HANG", slot);
                unsafe { libc::_exit(71) };
            }
        }
    });
}
