//! raw_entry_mut / raw_entry / rustc_entry operations of the HashMap system (C14).

use crate::env::{self, CheckAlloc, Class};
use crate::keys::*;
use crate::mapsut::*;
use hashbrown::hash_map::{RawEntryMut, RustcEntry};
use serde::{Deserialize, Serialize};

#[derive(Clone, Copy, Debug, PartialEq, Eq, Hash, Serialize, Deserialize)]
pub enum RBuild {
    FromKey,
    FromKeyHashed,
    FromHash,
}
pub const RBUILDS: &[RBuild] = &[RBuild::FromKey, RBuild::FromKeyHashed, RBuild::FromHash];

#[derive(Clone, Copy, Debug, PartialEq, Eq, Hash, Serialize, Deserialize)]
pub enum RAct {
    Insert,
    OrInsert,
    OrInsertWith,
    AndModifyOrInsert,
    AndReplaceSome,
    AndReplaceNone,
    OccRemove,
    OccRemoveEntry,
    OccInsertKey,
    OccInsert,
    OccReplaceSome,
    OccReplaceNone,
    VacInsert,
    VacInsertHashed,
    VacInsertWithHasher,
    DropUnused,
}
pub const RACTS: &[RAct] = &[
    RAct::Insert,
    RAct::OrInsert,
    RAct::OrInsertWith,
    RAct::AndModifyOrInsert,
    RAct::AndReplaceSome,
    RAct::AndReplaceNone,
    RAct::OccRemove,
    RAct::OccRemoveEntry,
    RAct::OccInsertKey,
    RAct::OccInsert,
    RAct::OccReplaceSome,
    RAct::OccReplaceNone,
    RAct::VacInsert,
    RAct::VacInsertHashed,
    RAct::VacInsertWithHasher,
    RAct::DropUnused,
];

#[derive(Clone, Copy, Debug, PartialEq, Eq, Hash, Serialize, Deserialize)]
pub enum RuAct {
    Insert,
    OrInsert,
    OrInsertWith,
    OrDefault,
    AndModifyOrInsert,
    OccRemove,
    OccRemoveEntry,
    OccInsert,
    VacInsert,
    VacInsertEntry,
    VacIntoKey,
    DropUnused,
}
pub const RUACTS: &[RuAct] = &[
    RuAct::Insert,
    RuAct::OrInsert,
    RuAct::OrInsertWith,
    RuAct::OrDefault,
    RuAct::AndModifyOrInsert,
    RuAct::OccRemove,
    RuAct::OccRemoveEntry,
    RuAct::OccInsert,
    RuAct::VacInsert,
    RuAct::VacInsertEntry,
    RuAct::VacIntoKey,
    RuAct::DropUnused,
];

macro_rules! chk {
    ($checked:expr, $cond:expr, $($fmt:tt)*) => {
        let ok: bool = $cond;
        if $checked && !ok {
            return Err(format!($($fmt)*));
        }
    };
}

fn hash_key(id: u8) -> u64 {
    env::tick(Class::Hash);
    plan_hash(id)
}

pub fn raw_entry_op<K: KeyT, V: ValT>(sut: &mut MapSut<K, V>, id: u8, b: RBuild, act: RAct, c: bool) -> Result<(), String> {
    let t1 = sut.next_tok;
    let t2 = sut.next_tok + 1;
    let t3 = sut.next_tok + 2;
    sut.next_tok += 3;
    let p = sut.mpos(id);
    let model = &mut sut.model;
    let h = plan_hash(id);
    let pk = &sut.probe_keys[id as usize];
    let e: RawEntryMut<'_, K, V, PlanBuild, CheckAlloc> = match b {
        RBuild::FromKey => sut.map.raw_entry_mut().from_key(pk),
        RBuild::FromKeyHashed => sut.map.raw_entry_mut().from_key_hashed_nocheck(h, &KeyRef(id)),
        RBuild::FromHash => sut.map.raw_entry_mut().from_hash(h, |k| {
            env::tick(Class::Eq);
            k.id() == id
        }),
    };
    let occ = matches!(e, RawEntryMut::Occupied(_));
    chk!(c, occ == p.is_some(), "raw_entry_mut().{:?}({id}) is {} but reference says present = {}", b, if occ { "Occupied" } else { "Vacant" }, p.is_some());
    let m = p.map(|p| model[p]);
    match act {
        RAct::Insert => {
            let o = e.insert(K::make(id, t1), V::make(t2));
            let want = match p {
                Some(p) => {
                    model[p].2 = t2;
                    (model[p].1, t2)
                }
                None => {
                    model.push((id, t1, t2));
                    (t1, t2)
                }
            };
            chk!(c, (o.key().tok(), o.get().tok()) == want, "raw entry insert({id}) holds ({}, {}), reference {:?}", o.key().tok(), o.get().tok(), want);
        }
        RAct::OrInsert | RAct::OrInsertWith => {
            let (k, v) = if act == RAct::OrInsert {
                e.or_insert(K::make(id, t1), V::make(t2))
            } else {
                e.or_insert_with(|| {
                    env::tick(Class::Closure);
                    (K::make(id, t1), V::make(t2))
                })
            };
            let want = match m {
                Some(m) => (m.1, m.2),
                None => {
                    model.push((id, t1, t2));
                    (t1, t2)
                }
            };
            chk!(c, (k.tok(), v.tok()) == want, "raw entry or_insert({id}) returned ({}, {}), reference {:?}", k.tok(), v.tok(), want);
        }
        RAct::AndModifyOrInsert => {
            let (k, v) = e
                .and_modify(|_k, v| {
                    env::tick(Class::Closure);
                    v.set_tok(t3)
                })
                .or_insert(K::make(id, t1), V::make(t2));
            let want = match p {
                Some(p) => {
                    model[p].2 = t3;
                    (model[p].1, t3)
                }
                None => {
                    model.push((id, t1, t2));
                    (t1, t2)
                }
            };
            chk!(c, (k.tok(), v.tok()) == want, "raw entry and_modify.or_insert({id}) returned ({}, {}), reference {:?}", k.tok(), v.tok(), want);
        }
        RAct::AndReplaceSome | RAct::AndReplaceNone => {
            let some = act == RAct::AndReplaceSome;
            let r = e.and_replace_entry_with(|_k, _v| {
                env::tick(Class::Closure);
                if some {
                    Some(V::make(t2))
                } else {
                    None
                }
            });
            chk!(c, matches!(r, RawEntryMut::Occupied(_)) == (p.is_some() && some), "raw and_replace_entry_with({id}) returned the wrong entry kind");
            if let Some(p) = p {
                if some {
                    model[p].2 = t2;
                } else {
                    model.swap_remove(p);
                }
            }
            if let RawEntryMut::Occupied(mut o2) = r {
                chk!(c, o2.key().id() == id && o2.get().tok() == t2, "raw and_replace_entry_with({id}): the returned entry shows ({}, {}), expected the new value {t2}", o2.key().id(), o2.get().tok());
                o2.get_mut().set_tok(t2 ^ 0x0800_0000);
                if let Some(p) = p {
                    model[p].2 = t2 ^ 0x0800_0000;
                }
            }
        }
        RAct::OccRemove => {
            if let RawEntryMut::Occupied(o) = e {
                let v = o.remove().tok();
                let want = p.map(|p| model.swap_remove(p).2);
                chk!(c, Some(v) == want, "raw occupied.remove({id}) returned {v}, reference {:?}", want);
            }
        }
        RAct::OccRemoveEntry => {
            if let RawEntryMut::Occupied(o) = e {
                let (k, v) = o.remove_entry();
                let want = p.map(|p| model.swap_remove(p));
                chk!(c, Some((k.id(), k.tok(), v.tok())) == want, "raw occupied.remove_entry({id}) returned ({}, {}), reference {:?}", k.tok(), v.tok(), want);
            }
        }
        RAct::OccInsertKey => {
            if let RawEntryMut::Occupied(mut o) = e {
                let old = o.insert_key(K::make(id, t1));
                let want = p.map(|p| {
                    let old = model[p].1;
                    model[p].1 = t1;
                    old
                });
                chk!(c, Some(old.tok()) == want, "raw occupied.insert_key({id}) returned key {}, reference {:?}", old.tok(), want);
                chk!(c, o.key().tok() == t1, "raw occupied.insert_key({id}) did not store the new key");
            }
        }
        RAct::OccInsert => {
            if let RawEntryMut::Occupied(mut o) = e {
                let old = o.insert(V::make(t2)).tok();
                let want = p.map(|p| {
                    let old = model[p].2;
                    model[p].2 = t2;
                    old
                });
                chk!(c, Some(old) == want, "raw occupied.insert({id}) returned {old}, reference {:?}", want);
                let (k, v) = o.get_key_value();
                chk!(c, m.map(|m| m.1) == Some(k.tok()) && v.tok() == t2, "raw occupied.get_key_value({id}) wrong after insert");
                // key_mut: overwrite the stored key in place with an equal key
                *o.key_mut() = K::make(id, t1);
                if let Some(p) = p {
                    model[p].1 = t1;
                }
                chk!(c, o.key().tok() == t1 && o.get_key_value().0.tok() == t1, "raw occupied.key_mut({id}) did not write the stored key");
                chk!(c, o.into_key().tok() == t1, "raw occupied.into_key({id}) is not the stored key");
            }
        }
        RAct::OccReplaceSome | RAct::OccReplaceNone => {
            if let RawEntryMut::Occupied(o) = e {
                let some = act == RAct::OccReplaceSome;
                let mut seen = None;
                let r = o.replace_entry_with(|k, v| {
                    env::tick(Class::Closure);
                    seen = Some((k.id(), k.tok(), v.tok()));
                    if some {
                        Some(V::make(t2))
                    } else {
                        None
                    }
                });
                chk!(c, seen == m, "raw replace_entry_with({id}) passed {:?}, reference {:?}", seen, m);
                chk!(c, matches!(r, RawEntryMut::Occupied(_)) == some, "raw replace_entry_with({id}) returned the wrong entry kind");
                if let Some(p) = p {
                    if some {
                        model[p].2 = t2;
                    } else {
                        model.swap_remove(p);
                    }
                }
                if let RawEntryMut::Occupied(mut o2) = r {
                    chk!(c, o2.key().id() == id && o2.get().tok() == t2, "raw replace_entry_with({id}): the returned entry shows ({}, {}), expected the new value {t2}", o2.key().id(), o2.get().tok());
                    o2.get_mut().set_tok(t2 ^ 0x0800_0000);
                    if let Some(p) = p {
                        model[p].2 = t2 ^ 0x0800_0000;
                    }
                }
            }
        }
        RAct::VacInsert | RAct::VacInsertHashed | RAct::VacInsertWithHasher => {
            if let RawEntryMut::Vacant(v) = e {
                let (k, val) = match act {
                    RAct::VacInsert => v.insert(K::make(id, t1), V::make(t2)),
                    RAct::VacInsertHashed => v.insert_hashed_nocheck(h, K::make(id, t1), V::make(t2)),
                    _ => v.insert_with_hasher(h, K::make(id, t1), V::make(t2), |k| hash_key(k.id())),
                };
                chk!(c, (k.tok(), val.tok()) == (t1, t2), "raw vacant insert({id}) returned the wrong pair");
                model.push((id, t1, t2));
            }
        }
        RAct::DropUnused => drop(e),
    }
    Ok(())
}

/// Read-only raw entry builder: must agree with get_key_value.
pub fn raw_entry_lookup<K: KeyT, V: ValT>(sut: &MapSut<K, V>, id: u8) -> Result<(), String> {
    let want = sut.mpos(id).map(|p| sut.model[p]);
    let h = plan_hash(id);
    let f = |r: Option<(&K, &V)>| r.map(|(k, v)| (k.id(), k.tok(), v.tok()));
    let a = f(sut.map.raw_entry().from_key(&sut.probe_keys[id as usize]));
    let b = f(sut.map.raw_entry().from_key_hashed_nocheck(h, &KeyRef(id)));
    let c = f(sut.map.raw_entry().from_hash(h, |k| k.id() == id));
    if a != want || b != want || c != want {
        return Err(format!("raw_entry() lookups of {id}: from_key {:?}, from_key_hashed_nocheck {:?}, from_hash {:?}; reference {:?}", a, b, c, want));
    }
    Ok(())
}

pub fn rustc_entry_op<K: KeyT, V: ValT>(sut: &mut MapSut<K, V>, id: u8, act: RuAct, c: bool) -> Result<(), String> {
    let t1 = sut.next_tok;
    let t2 = sut.next_tok + 1;
    let t3 = sut.next_tok + 2;
    sut.next_tok += 3;
    let p = sut.mpos(id);
    let model = &mut sut.model;
    let e = sut.map.rustc_entry(K::make(id, t1));
    let occ = matches!(e, RustcEntry::Occupied(_));
    chk!(c, occ == p.is_some(), "rustc_entry({id}) is {} but reference says present = {}", if occ { "Occupied" } else { "Vacant" }, p.is_some());
    chk!(c, e.key().id() == id, "rustc_entry({id}).key() has another id");
    match act {
        RuAct::Insert => {
            let o = e.insert(V::make(t2));
            let want = match p {
                Some(p) => {
                    model[p].2 = t2;
                    (model[p].1, t2)
                }
                None => {
                    model.push((id, t1, t2));
                    (t1, t2)
                }
            };
            chk!(c, (o.key().tok(), o.get().tok()) == want, "rustc_entry({id}).insert holds ({}, {}), reference {:?}", o.key().tok(), o.get().tok(), want);
        }
        RuAct::OrInsert | RuAct::OrInsertWith | RuAct::OrDefault => {
            let v = match act {
                RuAct::OrInsert => e.or_insert(V::make(t2)),
                RuAct::OrInsertWith => e.or_insert_with(|| {
                    env::tick(Class::Closure);
                    V::make(t2)
                }),
                _ => e.or_default(),
            };
            let nt = if act == RuAct::OrDefault { DEFAULT_TOK } else { t2 };
            let want = match p {
                Some(p) => model[p].2,
                None => {
                    model.push((id, t1, nt));
                    nt
                }
            };
            chk!(c, v.tok() == want, "rustc_entry({id}).{:?} returned {}, reference {want}", act, v.tok());
        }
        RuAct::AndModifyOrInsert => {
            let v = e
                .and_modify(|v| {
                    env::tick(Class::Closure);
                    v.set_tok(t3)
                })
                .or_insert(V::make(t2));
            let want = match p {
                Some(p) => {
                    model[p].2 = t3;
                    t3
                }
                None => {
                    model.push((id, t1, t2));
                    t2
                }
            };
            chk!(c, v.tok() == want, "rustc_entry({id}).and_modify.or_insert returned {}, reference {want}", v.tok());
        }
        RuAct::OccRemove => {
            if let RustcEntry::Occupied(o) = e {
                let v = o.remove().tok();
                let want = p.map(|p| model.swap_remove(p).2);
                chk!(c, Some(v) == want, "rustc occupied.remove({id}) returned {v}, reference {:?}", want);
            }
        }
        RuAct::OccRemoveEntry => {
            if let RustcEntry::Occupied(o) = e {
                let (k, v) = o.remove_entry();
                let want = p.map(|p| model.swap_remove(p));
                chk!(c, Some((k.id(), k.tok(), v.tok())) == want, "rustc occupied.remove_entry({id}) returned ({}, {}), reference {:?}", k.tok(), v.tok(), want);
            }
        }
        RuAct::OccInsert => {
            if let RustcEntry::Occupied(mut o) = e {
                let old = o.insert(V::make(t2)).tok();
                let want = p.map(|p| {
                    let old = model[p].2;
                    model[p].2 = t2;
                    old
                });
                chk!(c, Some(old) == want, "rustc occupied.insert({id}) returned {old}, reference {:?}", want);
            }
        }
        RuAct::VacInsert => {
            if let RustcEntry::Vacant(v) = e {
                let r = v.insert(V::make(t2));
                chk!(c, r.tok() == t2, "rustc vacant.insert({id}) returned a reference to another value");
                model.push((id, t1, t2));
            }
        }
        RuAct::VacInsertEntry => {
            if let RustcEntry::Vacant(v) = e {
                let o = v.insert_entry(V::make(t2));
                chk!(c, (o.key().tok(), o.get().tok()) == (t1, t2), "rustc vacant.insert_entry({id}) holds the wrong pair");
                model.push((id, t1, t2));
            }
        }
        RuAct::VacIntoKey => {
            if let RustcEntry::Vacant(v) = e {
                let k = v.into_key();
                chk!(c, (k.id(), k.tok()) == (id, t1), "rustc vacant.into_key({id}) returned another key");
            }
        }
        RuAct::DropUnused => drop(e),
    }
    Ok(())
}
