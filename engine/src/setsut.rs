//! HashSet system under test (set semantics + all-pairs set algebra, C07).

use crate::env::{self, CheckAlloc, Class};
use crate::explore::{self, Harness, Limits, Outcome, Stats};
use crate::inv;
use crate::keys::*;
use crate::mapsut::{canon_of, classify, end_of_run_checks, Baseline, Res, Ret};
use crate::report::{outcome_report, Config, ConfigReport, Viol};
use hashbrown::hash_set::Entry;
use hashbrown::HashSet;
use serde::{Deserialize, Serialize};
use serde_json::{json, Value};
use std::collections::BTreeSet;
use std::sync::atomic::{AtomicBool, AtomicU64, AtomicUsize, Ordering};
use std::sync::Mutex;

pub type Set = HashSet<TKey, PlanBuild, CheckAlloc>;

#[derive(Clone, Copy, Debug, PartialEq, Eq, Hash, Serialize, Deserialize)]
pub enum SAct {
    Insert,
    OrInsert,
    Remove,
    IntoValue,
    Get,
}
pub const SACTS: &[SAct] = &[SAct::Insert, SAct::OrInsert, SAct::Remove, SAct::IntoValue, SAct::Get];

#[derive(Clone, Copy, Debug, PartialEq, Eq, Hash, Serialize, Deserialize)]
pub enum SetOp {
    /// set algebra against the two-element set {id, id + 1}: kinds 0..=3 are `|=`, `&=`, `^=`, `-=` (clone elements
    /// into / remove elements from the set), 4..=7 the forms `&a | &b` ... that build a new set
    Algebra(u8, u8),
    /// unsafe insert_unique_unchecked - offered only for absent elements (its contract)
    InsertUniqueUnchecked(u8),
    Insert(u8),
    Replace(u8),
    Take(u8),
    Remove(u8),
    GetOrInsert(u8),
    GetOrInsertWith(u8),
    GetOrInsertWithBad(u8),
    Entry(u8, SAct),
    Extend2(u8),
    Clear,
    Reserve(Res),
    TryReserveOne,
    ShrinkToFit,
    ShrinkToLen,
    Retain(Ret),
}

#[derive(Clone, Debug)]
pub struct SetCfg {
    pub plan: Plan,
    pub universe: u8,
    pub reduce: bool,
    pub full_alphabet: bool,
    pub max_buckets: usize,
    /// use the alternative hasher instance (second plan of the environment)
    pub alt_hasher: bool,
    /// offer per-key operations only for ids below this
    pub ops_universe: Option<u8>,
    /// run the iterator / removal probes in every visited state (C09, C10 counterparts for sets)
    pub iter_probes: bool,
}
impl SetCfg {
    pub fn new(plan: Plan, universe: u8) -> Self {
        SetCfg { plan, universe, reduce: true, full_alphabet: true, max_buckets: 64, alt_hasher: false, ops_universe: None, iter_probes: false }
    }
    pub fn label(&self) -> String {
        format!("set-{}-u{}{}", self.plan.name(), self.universe, if self.reduce { "-sym" } else { "-nosym" })
    }
    pub fn class_of(&self) -> Vec<u8> {
        let mut distinct: Vec<u64> = Vec::new();
        (0..self.universe)
            .map(|id| {
                let h = self.plan.hash_of(id);
                match distinct.iter().position(|&x| x == h) {
                    Some(c) => c as u8,
                    None => {
                        distinct.push(h);
                        (distinct.len() - 1) as u8
                    }
                }
            })
            .collect()
    }
}

pub struct SetSut {
    pub set: Set,
    pub model: Vec<(u8, u32)>,
    pub next_tok: u32,
    pub class_of: Vec<u8>,
    pub base: Baseline,
    pub alt: bool,
}

impl SetSut {
    pub fn new(cfg: &SetCfg) -> Self {
        let base = Baseline::take();
        let set = Set::with_hasher_in(PlanBuild { alt: cfg.alt_hasher }, CheckAlloc);
        SetSut { set, model: Vec::new(), next_tok: 1, class_of: cfg.class_of(), base, alt: cfg.alt_hasher }
    }
    fn tok(&mut self) -> u32 {
        let t = self.next_tok;
        self.next_tok += 1;
        t
    }
    pub fn mpos(&self, id: u8) -> Option<usize> {
        self.model.iter().position(|e| e.0 == id)
    }
    fn hash_of(&self, id: u8) -> u64 {
        if self.alt {
            env::with(|e| e.plan_b[id as usize])
        } else {
            plan_hash(id)
        }
    }
    pub fn check_all(&mut self, universe: u8, check_alloc: bool) -> Result<(), String> {
        let d = self.set.verif_dump();
        let set = &self.set;
        let alt = self.alt;
        inv::check_structure(&d, inv::Which { lawful_hash: true }, &|i| {
            set.verif_bucket(i).map(|k| if alt { env::with(|e| e.plan_b[k.id as usize]) } else { plan_hash(k.id) })
        })?;
        if self.set.hasher().alt != self.alt {
            return Err(format!("hasher() returns hasher state {} but the set was built with (or cloned from a set with) state {}", self.set.hasher().alt, self.alt));
        }
        let _: &CheckAlloc = self.set.allocator();
        if self.set.len() != self.model.len() || self.set.is_empty() != self.model.is_empty() {
            return Err(format!("len() = {} but the reference set holds {}", self.set.len(), self.model.len()));
        }
        let mut got: Vec<(u8, u32)> = Vec::new();
        for k in self.set.iter() {
            if !env::reg_is_live(k.serial) {
                return Err("iter() yielded an element that is not live".into());
            }
            got.push((k.id, k.tok));
            if got.len() > self.model.len() + 4 {
                return Err("iter() yields more than the reference holds".into());
            }
        }
        got.sort_unstable();
        let mut want = self.model.clone();
        want.sort_unstable();
        if got != want {
            return Err(format!("contents differ: iter() = {:?}, reference = {:?}", got, want));
        }
        for id in 0..universe {
            let want = self.mpos(id).map(|p| self.model[p]);
            let g = self.set.get(&KeyRef(id)).map(|k| (k.id, k.tok));
            let c = self.set.contains(&KeyRef(id));
            if g != want || c != want.is_some() {
                return Err(format!("get/contains({id}) = {:?}/{c}, reference {:?}", g, want));
            }
        }
        if check_alloc {
            let a = self.set.allocation_size();
            let l = env::live_bytes() - self.base.live_bytes;
            if a != l {
                return Err(format!("allocation_size() = {a} but the allocator ledger holds {l} bytes"));
            }
        }
        let _ = self.hash_of(0);
        Ok(())
    }
    pub fn finish(self) -> Result<(), String> {
        let SetSut { set, base, .. } = self;
        drop(set);
        end_of_run_checks(&base)
    }
    pub fn ids(&self) -> BTreeSet<u8> {
        self.model.iter().map(|e| e.0).collect()
    }
}

macro_rules! chk {
    ($checked:expr, $cond:expr, $($fmt:tt)*) => {
        let ok: bool = $cond;
        if $checked && !ok {
            return Err(format!($($fmt)*));
        }
    };
}

pub struct SetHarness {
    pub cfg: SetCfg,
    pub plan: [u64; 256],
}
impl SetHarness {
    pub fn new(cfg: SetCfg) -> Self {
        let plan = cfg.plan.table();
        SetHarness { cfg, plan }
    }
    fn apply_inner(&self, s: &mut SetSut, op: &SetOp, c: bool, stats: &Stats) -> Result<(), String> {
        match *op {
            SetOp::Insert(id) => {
                let t = s.tok();
                let r = s.set.insert(TKey::make(id, t));
                let present = s.mpos(id).is_some();
                chk!(c, r == !present, "insert({id}) returned {r}, reference {}", !present);
                if !present {
                    s.model.push((id, t));
                }
            }
            SetOp::Replace(id) => {
                let t = s.tok();
                let r = s.set.replace(TKey::make(id, t)).map(|k| (k.id, k.tok));
                let want = s.mpos(id).map(|p| {
                    let old = s.model[p];
                    s.model[p].1 = t;
                    old
                });
                if want.is_none() {
                    s.model.push((id, t));
                }
                chk!(c, r == want, "replace({id}) returned {:?}, reference {:?}", r, want);
            }
            SetOp::Take(id) => {
                let r = s.set.take(&KeyRef(id)).map(|k| (k.id, k.tok));
                let want = s.mpos(id).map(|p| s.model.swap_remove(p));
                chk!(c, r == want, "take({id}) returned {:?}, reference {:?}", r, want);
            }
            SetOp::Remove(id) => {
                let r = s.set.remove(&KeyRef(id));
                let want = s.mpos(id).map(|p| s.model.swap_remove(p)).is_some();
                chk!(c, r == want, "remove({id}) returned {r}, reference {want}");
            }
            SetOp::InsertUniqueUnchecked(id) => {
                let t = s.tok();
                debug_assert!(s.mpos(id).is_none());
                // SAFETY (contract of the method): the element is not in the set
                let r = unsafe { s.set.insert_unique_unchecked(TKey::make(id, t)) };
                chk!(c, r.id == id && r.tok == t, "insert_unique_unchecked({id}) returned a reference to another element");
                s.model.push((id, t));
            }
            SetOp::GetOrInsert(id) => {
                let t = s.tok();
                let r = s.set.get_or_insert(TKey::make(id, t));
                let got = (r.id, r.tok);
                let want = match s.mpos(id) {
                    Some(p) => s.model[p],
                    None => {
                        s.model.push((id, t));
                        (id, t)
                    }
                };
                chk!(c, got == want, "get_or_insert({id}) returned {:?}, reference {:?} (must keep the stored value)", got, want);
            }
            SetOp::GetOrInsertWith(id) => {
                let t = s.tok();
                let mut called = false;
                let r = s.set.get_or_insert_with(&KeyRef(id), |q| {
                    env::tick(Class::Closure);
                    called = true;
                    TKey::make(q.0, t)
                });
                let got = (r.id, r.tok);
                let present = s.mpos(id);
                let want = match present {
                    Some(p) => s.model[p],
                    None => {
                        s.model.push((id, t));
                        (id, t)
                    }
                };
                chk!(c, got == want, "get_or_insert_with({id}) returned {:?}, reference {:?}", got, want);
                chk!(c, called == present.is_none(), "get_or_insert_with({id}) called the constructor {called}, key present {}", present.is_some());
            }
            SetOp::GetOrInsertWithBad(id) => {
                // the closure produces a value that is NOT equivalent to the probe
                let t = s.tok();
                let other = (id + 1) % self.cfg.universe.max(2);
                let present = s.mpos(id);
                let set = &mut s.set;
                let r = env::catch(|| {
                    let r = set.get_or_insert_with(&KeyRef(id), |_q| {
                        env::tick(Class::Closure);
                        TKey::make(other, t)
                    });
                    (r.id, r.tok)
                });
                match (r, present) {
                    (Ok(got), Some(p)) => {
                        chk!(c, got == s.model[p], "get_or_insert_with({id}) returned {:?}, reference {:?}", got, s.model[p]);
                    }
                    (Ok(got), None) => {
                        if c {
                            return Err(format!("get_or_insert_with({id}) stored {:?}, a value that is not equivalent to the probe, instead of panicking", got));
                        }
                    }
                    (Err(m), None) => {
                        if env::with(|e| e.fault_fired) || m.contains(env::FAULT_MSG) {
                            std::panic::resume_unwind(Box::new(m));
                        }
                        stats.hit(explore::Mech::ExpectedPanic);
                    }
                    (Err(m), Some(_)) => {
                        if m.contains(env::FAULT_MSG) {
                            std::panic::resume_unwind(Box::new(m));
                        }
                        if c {
                            return Err(format!("get_or_insert_with({id}) panicked although the key is present: {m}"));
                        }
                    }
                }
            }
            SetOp::Entry(id, act) => {
                let t = s.tok();
                let present = s.mpos(id);
                let e = s.set.entry(TKey::make(id, t));
                let occ = matches!(e, Entry::Occupied(_));
                chk!(c, occ == present.is_some(), "set.entry({id}) is {} but reference says present = {}", if occ { "Occupied" } else { "Vacant" }, present.is_some());
                let g = (e.get().id, e.get().tok);
                let wantg = present.map(|p| s.model[p]).unwrap_or((id, t));
                chk!(c, g == wantg, "set.entry({id}).get() = {:?}, reference {:?}", g, wantg);
                match act {
                    SAct::Insert => {
                        let o = e.insert();
                        let got = (o.get().id, o.get().tok);
                        chk!(c, got == wantg, "set.entry({id}).insert() holds {:?}, reference {:?}", got, wantg);
                        if present.is_none() {
                            s.model.push((id, t));
                        }
                    }
                    SAct::OrInsert => {
                        e.or_insert();
                        if present.is_none() {
                            s.model.push((id, t));
                        }
                    }
                    SAct::Remove => {
                        if let Entry::Occupied(o) = e {
                            let k = o.remove();
                            let want = present.map(|p| s.model.swap_remove(p));
                            chk!(c, Some((k.id, k.tok)) == want, "occupied.remove() returned {:?}, reference {:?}", (k.id, k.tok), want);
                        }
                    }
                    SAct::IntoValue => {
                        if let Entry::Vacant(v) = e {
                            let k = v.into_value();
                            chk!(c, (k.id, k.tok) == (id, t), "vacant.into_value() returned another value");
                        }
                    }
                    SAct::Get => drop(e),
                }
            }
            SetOp::Algebra(kind, id) => {
                let id2 = (id + 1) % self.cfg.universe.max(1);
                let mut other = Set::with_hasher_in(PlanBuild { alt: s.alt }, CheckAlloc);
                let (t1, t2) = (s.tok(), s.tok());
                other.insert(TKey::make(id, t1));
                other.insert(TKey::make(id2, t2));
                let o: Vec<(u8, u32)> = other.iter().map(|k| (k.id, k.tok)).collect();
                let in_o = |x: u8| o.iter().any(|e| e.0 == x);
                let in_s = |m: &Vec<(u8, u32)>, x: u8| m.iter().any(|e| e.0 == x);
                // mathematical result as ids
                let mut want: Vec<u8> = match kind % 4 {
                    0 => s.model.iter().map(|e| e.0).chain(o.iter().map(|e| e.0).filter(|&x| !in_s(&s.model, x))).collect(),
                    1 => s.model.iter().map(|e| e.0).filter(|&x| in_o(x)).collect(),
                    2 => s.model.iter().map(|e| e.0).filter(|&x| !in_o(x)).chain(o.iter().map(|e| e.0).filter(|&x| !in_s(&s.model, x))).collect(),
                    _ => s.model.iter().map(|e| e.0).filter(|&x| !in_o(x)).collect(),
                };
                want.sort_unstable();
                if kind < 4 {
                    match kind {
                        0 => s.set |= &other,
                        1 => s.set &= &other,
                        2 => s.set ^= &other,
                        _ => s.set -= &other,
                    }
                    let mut got: Vec<u8> = s.set.iter().map(|k| k.id).collect();
                    got.sort_unstable();
                    chk!(c, got == want, "assigning set operator {kind} with {{{id}, {id2}}}: left {:?}, mathematical result {:?}", got, want);
                    // elements kept from the left operand are the stored ones; new ones are clones of the right operand's
                    let old = std::mem::take(&mut s.model);
                    s.model = s.set.iter().map(|k| (k.id, k.tok)).collect();
                    for e in &s.model {
                        let from_old = old.contains(e);
                        let from_other = o.contains(e);
                        chk!(c, from_old || from_other, "assigning set operator {kind}: element {:?} is neither a stored element nor a clone of the right operand's", e);
                        chk!(c, !in_s(&old, e.0) || from_old, "assigning set operator {kind}: stored element with id {} was replaced", e.0);
                    }
                } else {
                    let r: Set = match kind {
                        4 => &s.set | &other,
                        5 => &s.set & &other,
                        6 => &s.set ^ &other,
                        _ => &s.set - &other,
                    };
                    let mut got: Vec<u8> = r.iter().map(|k| k.id).collect();
                    got.sort_unstable();
                    chk!(c, got == want && r.len() == want.len(), "set operator {kind} with {{{id}, {id2}}}: result {:?}, mathematical result {:?}", got, want);
                    drop(r);
                }
                drop(other);
            }
            SetOp::Extend2(id) => {
                let id2 = (id + 1) % self.cfg.universe.max(1);
                let mut items = Vec::new();
                for i in [id, id2, id] {
                    let t = s.tok();
                    items.push(TKey::make(i, t));
                    if s.mpos(i).is_none() {
                        s.model.push((i, t));
                    }
                }
                s.set.extend(items);
            }
            SetOp::Clear => {
                s.set.clear();
                s.model.clear();
            }
            SetOp::Reserve(r) => {
                let d = s.set.verif_dump();
                let full_cap = hashbrown::verif::bucket_mask_to_capacity(d.bucket_mask);
                let len = s.set.len();
                let add = match r {
                    Res::One => s.set.capacity() - len + 1,
                    Res::Half => {
                        if full_cap / 2 > len {
                            full_cap / 2 - len
                        } else {
                            1
                        }
                    }
                    Res::Double => 2 * s.set.capacity() + 1,
                };
                s.set.reserve(add);
                chk!(c, s.set.capacity() >= len + add, "reserve({add}) left capacity {}", s.set.capacity());
            }
            SetOp::TryReserveOne => {
                let len = s.set.len();
                let add = s.set.capacity() - len + 1;
                let r = s.set.try_reserve(add);
                chk!(c, r.is_ok() && s.set.capacity() >= len + add, "set.try_reserve({add}) = {:?}, capacity {}", r, s.set.capacity());
            }
            SetOp::ShrinkToLen => {
                let len = s.set.len();
                s.set.shrink_to(len);
                chk!(c, s.set.capacity() >= len, "set.shrink_to(len) left capacity {} < len {len}", s.set.capacity());
            }
            SetOp::ShrinkToFit => s.set.shrink_to_fit(),
            SetOp::Retain(kind) => {
                let mut seen = Vec::new();
                let mut kept = Vec::new();
                let mut visit = 0u32;
                s.set.retain(|k| {
                    env::tick(Class::Closure);
                    seen.push((k.id, k.tok));
                    let keep = match kind {
                        Ret::All => true,
                        Ret::None => false,
                        Ret::EvenIds => k.id % 2 == 0,
                        Ret::Alternate => visit % 2 == 0,
                        Ret::KeepHigh => k.id as usize >= hashbrown::verif::GROUP_WIDTH,
                    };
                    visit += 1;
                    if keep {
                        kept.push(k.id);
                    }
                    keep
                });
                seen.sort_unstable();
                let mut want = s.model.clone();
                want.sort_unstable();
                chk!(c, seen == want, "retain: predicate saw {:?}, reference {:?}", seen, want);
                s.model.retain(|e| kept.contains(&e.0));
            }
        }
        Ok(())
    }
}

impl Harness for SetHarness {
    type Op = SetOp;
    type Sut = SetSut;
    fn init(&self) -> SetSut {
        env::reset();
        if self.cfg.alt_hasher {
            env::with(|e| e.plan_b = self.plan);
        } else {
            env::set_plan(&self.plan);
        }
        SetSut::new(&self.cfg)
    }
    fn init_nested(&self) -> SetSut {
        if self.cfg.alt_hasher {
            env::with(|e| e.plan_b = self.plan);
        }
        SetSut::new(&self.cfg)
    }
    fn ops(&self, s: &SetSut) -> Vec<SetOp> {
        let mut v = Vec::new();
        let mut seen_class = [false; 256];
        let mut keys = Vec::new();
        for id in 0..self.cfg.ops_universe.unwrap_or(self.cfg.universe).min(self.cfg.universe) {
            if s.mpos(id).is_some() {
                keys.push(id);
            } else if self.cfg.reduce {
                let cl = s.class_of[id as usize] as usize;
                if !seen_class[cl] {
                    seen_class[cl] = true;
                    keys.push(id);
                }
            } else {
                keys.push(id);
            }
        }
        for &id in &keys {
            v.push(SetOp::Insert(id));
            v.push(SetOp::Remove(id));
            if self.cfg.full_alphabet {
                v.push(SetOp::Replace(id));
                v.push(SetOp::Take(id));
                if s.mpos(id).is_none() {
                    v.push(SetOp::InsertUniqueUnchecked(id));
                }
                v.push(SetOp::GetOrInsert(id));
                v.push(SetOp::GetOrInsertWith(id));
                v.push(SetOp::GetOrInsertWithBad(id));
                for &a in SACTS {
                    v.push(SetOp::Entry(id, a));
                }
                v.push(SetOp::Extend2(id));
                for kind in 0..8u8 {
                    v.push(SetOp::Algebra(kind, id));
                }
            }
        }
        v.push(SetOp::Clear);
        let d = s.set.verif_dump();
        let nb = if d.is_singleton { 0 } else { d.bucket_mask + 1 };
        for r in [Res::One, Res::Half] {
            if r == Res::One && nb >= self.cfg.max_buckets {
                continue;
            }
            v.push(SetOp::Reserve(r));
        }
        v.push(SetOp::ShrinkToFit);
        if self.cfg.full_alphabet {
            if nb < self.cfg.max_buckets {
                v.push(SetOp::TryReserveOne);
            }
            v.push(SetOp::ShrinkToLen);
            for k in [Ret::All, Ret::None, Ret::EvenIds, Ret::Alternate, Ret::KeepHigh] {
                v.push(SetOp::Retain(k));
            }
        }
        v
    }
    fn apply(&self, s: &mut SetSut, op: &SetOp, checked: bool, stats: &Stats) -> Result<(), String> {
        let pre = if checked { Some(s.set.verif_dump()) } else { None };
        self.apply_inner(s, op, checked, stats)?;
        if let Some(pre) = pre {
            classify(&pre, &s.set.verif_dump(), stats);
        }
        Ok(())
    }
    fn check(&self, s: &mut SetSut) -> Result<(), String> {
        s.check_all(self.cfg.universe, true)
    }
    fn canon(&self, s: &SetSut) -> Vec<u8> {
        canon_of(&s.set.verif_dump(), &|i| s.set.verif_bucket(i).map(|k| if self.cfg.reduce { s.class_of[k.id as usize] } else { k.id }))
    }
    fn finish(&self, s: SetSut) -> Result<(), String> {
        s.finish()
    }
    fn probes(&self, rebuild: &dyn Fn() -> SetSut, s: &mut SetSut, stats: &Stats) -> Result<(), String> {
        if self.cfg.iter_probes {
            probe_set_iterators(rebuild, s, self.cfg.universe, stats)?;
        }
        Ok(())
    }
}

/// Set counterparts of C09 / C10: every iterator kind x prefix x tail, drain and
/// extract_if at every cut and for every predicate subset, conversions.
pub fn probe_set_iterators(rebuild: &dyn Fn() -> SetSut, s: &mut SetSut, universe: u8, stats: &Stats) -> Result<(), String> {
    use crate::mapprobes::{drive, Tail};
    use hashbrown::hash_set;
    let n = s.model.len();
    let mut full: Vec<(u8, u32, u32)> = s.model.iter().map(|e| (e.0, e.1, 0)).collect();
    full.sort_unstable();
    let cv = |k: &TKey| (k.id, k.tok, 0u32);
    let co = |k: TKey| (k.id, k.tok, 0u32);
    let expect = |what: &str, mut got: Vec<(u8, u32, u32)>| -> Result<(), String> {
        got.sort_unstable();
        if got != full {
            return Err(format!("{what}: yielded {:?}, reference {:?}", got, full));
        }
        Ok(())
    };
    let mut count = 0u64;
    for j in 0..=n + 2 {
        for tail in [Tail::Next, Tail::Fold, Tail::ForEach] {
            expect("set.iter()", drive(s.set.iter(), n, j, tail, "set.iter()", &cv)?)?;
            expect("(&set).into_iter()", drive((&s.set).into_iter(), n, j, tail, "(&set).into_iter()", &cv)?)?;
            count += 2;
        }
        if j <= n {
            let mut a = s.set.iter();
            for _ in 0..j {
                a.next();
            }
            let b = a.clone();
            let mut ra = drive(a, n - j, 0, Tail::Next, "set.iter() after clone", &cv)?;
            let mut rb = drive(b, n - j, 0, Tail::Fold, "set.iter().clone()", &cv)?;
            ra.sort_unstable();
            rb.sort_unstable();
            if ra != rb {
                return Err("set.iter().clone() does not continue from the same position".into());
            }
        }
        if j <= n {
            let r = n - j;
            for k in [0usize, 1, r.saturating_sub(1), r, r + 3] {
                crate::mapprobes::drive_nth(s.set.iter(), n, j, k, "set.iter()", &cv, &full)?;
                let mut t = rebuild();
                let set = std::mem::take(&mut t.set);
                crate::mapprobes::drive_nth(set.into_iter(), n, j, k, "set.into_iter()", &co, &full)?;
                t.finish().map_err(|m| format!("after set.into_iter() with nth({k}): {m}"))?;
                let mut t = rebuild();
                crate::mapprobes::drive_nth(t.set.drain(), n, j, k, "set.drain()", &co, &full)?;
                t.model.clear();
                t.finish().map_err(|m| format!("after set.drain() with nth({k}): {m}"))?;
                count += 3;
            }
        }
        for tail in [Tail::Next, Tail::Fold, Tail::DropNow] {
            {
                let mut t = rebuild();
                let set = std::mem::take(&mut t.set);
                let got = drive(set.into_iter(), n, j, tail, "set.into_iter()", &co)?;
                if tail != Tail::DropNow {
                    expect("set.into_iter()", got)?;
                }
                t.finish().map_err(|m| format!("after set.into_iter() ({:?} after {j}): {m}", tail))?;
            }
            {
                let mut t = rebuild();
                let asize = t.set.allocation_size();
                let got = drive(t.set.drain(), n, j, tail, "set.drain()", &co)?;
                if tail != Tail::DropNow {
                    expect("set.drain()", got)?;
                }
                if !t.set.is_empty() || t.set.allocation_size() != asize {
                    return Err("set.drain(): the set must be empty and keep its allocation afterwards".into());
                }
                t.model.clear();
                t.check_all(universe, true).map_err(|m| format!("after set.drain() ({:?} after {j}): {m}", tail))?;
                t.finish().map_err(|m| format!("after set.drain(): {m}"))?;
            }
            count += 2;
        }
    }
    // extract_if / retain: every subset of the stored elements (small sets), every early-drop point
    if n <= 6 {
        let ids: Vec<u8> = full.iter().map(|e| e.0).collect();
        for mask in 0..(1u32 << n) {
            crate::crumbs::touch();
            let sel = |id: u8| ids.iter().position(|&x| x == id).map_or(false, |p| mask >> p & 1 == 1);
            let total = (0..n).filter(|p| mask >> p & 1 == 1).count();
            for (cut, fin) in (0..=total).flat_map(|c| [(c, 0u8), (c, 1u8)]) {
                let mut t = rebuild();
                let mut visited = Vec::new();
                let mut yielded = Vec::new();
                let mut rest = 0usize;
                {
                    let mut it = t.set.extract_if(|k| {
                        visited.push(k.id);
                        sel(k.id)
                    });
                    for step in 0..=cut {
                        let (lo, hi) = it.size_hint();
                        let left = total - step;
                        if lo > left || hi.map_or(false, |h| h < left) {
                            return Err(format!("set.extract_if: size_hint() = {:?} but exactly {left} more elements are yielded", (lo, hi)));
                        }
                        if step == cut {
                            break;
                        }
                        match it.next() {
                            Some(k) => yielded.push(k.id),
                            None => return Err("set.extract_if ended early".into()),
                        }
                    }
                    if fin == 1 {
                        rest = it.count();
                        if cut + rest != total {
                            return Err(format!("set.extract_if(mask {mask:#b}): {cut} next() calls then count() = {rest}, predicate selects {total}"));
                        }
                    } else if cut == total && it.next().is_some() {
                        return Err("set.extract_if yielded an element the predicate did not select".into());
                    }
                }
                if fin == 1 && visited.len() != n {
                    return Err(format!("set.extract_if: next() x {cut} then count() visited {} of {n} elements", visited.len()));
                }
                let removed: Vec<u8> = visited.iter().copied().filter(|&id| sel(id)).collect();
                if removed.len() != yielded.len() + rest || yielded.iter().any(|y| !sel(*y)) {
                    return Err(format!("set.extract_if(mask {mask:#b}, cut {cut}): yielded {:?}, selected among visited {:?}", yielded, removed));
                }
                t.model.retain(|e| !removed.contains(&e.0));
                t.check_all(universe, true).map_err(|m| format!("after set.extract_if(mask {mask:#b}, cut {cut}): {m}"))?;
                t.finish()?;
                count += 1;
            }
            let mut t = rebuild();
            t.set.retain(|k| sel(k.id));
            t.model.retain(|e| sel(e.0));
            t.check_all(universe, true).map_err(|m| format!("after set.retain(mask {mask:#b}): {m}"))?;
            t.finish()?;
            count += 1;
        }
    }
    // conversions
    {
        let t = rebuild();
        let from_iter: Set = t.set.iter().map(|k| TKey::make(k.id, k.tok)).collect();
        if from_iter != t.set || t.set != from_iter {
            return Err("HashSet::from_iter of the set's own elements is not equal to it".into());
        }
        let mut m: hashbrown::HashMap<TKey, (), PlanBuild, CheckAlloc> = Default::default();
        for k in t.set.iter() {
            m.insert(TKey::make(k.id, k.tok), ());
        }
        let from_map: Set = Set::from(m);
        if from_map != t.set {
            return Err("HashSet::from(HashMap<T, ()>) is not equal to the set".into());
        }
        drop((from_iter, from_map));
        t.finish()?;
        count += 2;
    }
    fn empty<I: Iterator + ExactSizeIterator>(mut it: I, what: &str) -> Result<(), String> {
        if it.len() != 0 || it.size_hint() != (0, Some(0)) || it.next().is_some() {
            return Err(format!("{what}::default() is not an empty iterator"));
        }
        Ok(())
    }
    empty(hash_set::Iter::<TKey>::default(), "hash_set::Iter")?;
    empty(hash_set::IntoIter::<TKey, CheckAlloc>::default(), "hash_set::IntoIter")?;
    stats.probe(count + 2);
    Ok(())
}

// ---------------------------------------------------------------------------
// All ordered pairs of visited states: set algebra
// ---------------------------------------------------------------------------

fn collect_checked<'a, I: Iterator<Item = &'a TKey> + Clone>(it: I, what: &str, true_len: usize) -> Result<Vec<u8>, String> {
    // via next(), checking size_hint against the true remaining count
    let mut a = it.clone();
    let mut out = Vec::new();
    let mut remaining = true_len;
    loop {
        let (lo, hi) = a.size_hint();
        if lo > remaining || hi.map_or(false, |h| h < remaining) {
            return Err(format!("{what}: size_hint() = ({lo}, {:?}) but {remaining} items remain", hi));
        }
        match a.next() {
            Some(k) => {
                if remaining == 0 {
                    return Err(format!("{what}: yields more than the mathematical result ({true_len} elements)"));
                }
                remaining -= 1;
                out.push(k.id);
            }
            None => break,
        }
    }
    if remaining != 0 {
        return Err(format!("{what}: stopped {remaining} short of the mathematical result"));
    }
    if a.next().is_some() {
        return Err(format!("{what}: yields after None"));
    }
    // a clone taken mid-way continues from the same position; next() followed by fold sees every remaining element once
    for j in [1usize, true_len / 2, true_len] {
        if j > true_len {
            continue;
        }
        let mut x = it.clone();
        let mut head: Vec<u8> = Vec::new();
        for _ in 0..j {
            match x.next() {
                Some(k) => head.push(k.id),
                None => return Err(format!("{what}: ended after fewer than {j} of {true_len} items")),
            }
        }
        let y = x.clone();
        let mut rest_next: Vec<u8> = Vec::new();
        while let Some(k) = x.next() {
            rest_next.push(k.id);
            if rest_next.len() > true_len + 2 {
                return Err(format!("{what}: does not terminate"));
            }
        }
        let mut rest_fold: Vec<u8> = y.fold(Vec::new(), |mut acc, k| {
            acc.push(k.id);
            acc
        });
        rest_next.sort_unstable();
        rest_fold.sort_unstable();
        if rest_next != rest_fold || head.len() + rest_next.len() != true_len {
            return Err(format!("{what}: after {j} items next() yields {:?}, a clone's fold {:?} (mathematical result has {true_len} elements)", rest_next, rest_fold));
        }
    }
    // via fold
    let f: Vec<u8> = it.fold(Vec::new(), |mut acc, k| {
        acc.push(k.id);
        acc
    });
    let mut s1 = out.clone();
    s1.sort_unstable();
    let mut s2 = f;
    s2.sort_unstable();
    if s1 != s2 {
        return Err(format!("{what}: fold visits {:?} but next() yields {:?}", s2, s1));
    }
    Ok(out)
}

fn as_set(v: &[u8], what: &str) -> Result<BTreeSet<u8>, String> {
    let s: BTreeSet<u8> = v.iter().copied().collect();
    if s.len() != v.len() {
        return Err(format!("{what}: an element was yielded twice: {:?}", v));
    }
    Ok(s)
}

/// All algebra checks for one ordered pair. `mk_a` rebuilds A (the first call
/// resets the environment), `mk_b` rebuilds B next to it.
pub fn check_pair(mk_a: &dyn Fn(bool) -> SetSut, mk_b: &dyn Fn() -> SetSut, universe: u8) -> Result<u64, String> {
    let a = mk_a(true);
    let b = mk_b();
    let (ia, ib) = (a.ids(), b.ids());
    let mut n = 0u64;
    macro_rules! algebra {
        ($name:literal, $call:expr, $math:expr) => {{
            let want: BTreeSet<u8> = $math;
            let got = collect_checked($call, $name, want.len())?;
            let got = as_set(&got, $name)?;
            if got != want {
                return Err(format!("{}: A = {:?}, B = {:?}: yielded {:?}, mathematical result {:?}", $name, ia, ib, got, want));
            }
            n += 1;
        }};
    }
    algebra!("union", a.set.union(&b.set), ia.union(&ib).copied().collect());
    algebra!("intersection", a.set.intersection(&b.set), ia.intersection(&ib).copied().collect());
    algebra!("difference", a.set.difference(&b.set), ia.difference(&ib).copied().collect());
    algebra!("symmetric_difference", a.set.symmetric_difference(&b.set), ia.symmetric_difference(&ib).copied().collect());
    // predicates
    let preds = [
        ("is_subset", a.set.is_subset(&b.set), ia.is_subset(&ib)),
        ("is_superset", a.set.is_superset(&b.set), ia.is_superset(&ib)),
        ("is_disjoint", a.set.is_disjoint(&b.set), ia.is_disjoint(&ib)),
        ("==", a.set == b.set, ia == ib),
        ("== (reversed)", b.set == a.set, ia == ib),
    ];
    // the same object on both sides (every set is a subset and superset of itself and equal to itself;
    // it is disjoint from itself only when empty)
    let selfp = [
        ("A.is_subset(&A)", a.set.is_subset(&a.set), true),
        ("A.is_superset(&A)", a.set.is_superset(&a.set), true),
        ("A.is_disjoint(&A)", a.set.is_disjoint(&a.set), ia.is_empty()),
        ("A == A", a.set == a.set, true),
        ("A.intersection(&A).count()", a.set.intersection(&a.set).count() == ia.len(), true),
        ("A.difference(&A).count()", a.set.difference(&a.set).count() == 0, true),
        ("A.symmetric_difference(&A).count()", a.set.symmetric_difference(&a.set).count() == 0, true),
        ("A.union(&A).count()", a.set.union(&a.set).count() == ia.len(), true),
    ];
    for (name, got, want) in selfp {
        if got != want {
            return Err(format!("{name}: A = {:?}: returned {got}, mathematical answer {want}", ia));
        }
        n += 1;
    }
    for (name, got, want) in preds {
        if got != want {
            return Err(format!("{name}: A = {:?}, B = {:?}: returned {got}, mathematical answer {want}", ia, ib));
        }
        n += 1;
    }
    // operator forms producing new sets
    {
        let check_new = |name: &str, r: Set, want: BTreeSet<u8>| -> Result<(), String> {
            let got: Vec<u8> = r.iter().map(|k| k.id).collect();
            let gs = as_set(&got, name)?;
            if gs != want || r.len() != want.len() {
                return Err(format!("{name}: A = {:?}, B = {:?}: result {:?}, mathematical result {:?}", ia, ib, gs, want));
            }
            let d = r.verif_dump();
            inv::check_structure(&d, inv::Which { lawful_hash: true }, &|i| r.verif_bucket(i).map(|k| plan_hash(k.id))).map_err(|m| format!("{name} result: {m}"))?;
            Ok(())
        };
        check_new("&A | &B", &a.set | &b.set, ia.union(&ib).copied().collect())?;
        check_new("&A & &B", &a.set & &b.set, ia.intersection(&ib).copied().collect())?;
        check_new("&A ^ &B", &a.set ^ &b.set, ia.symmetric_difference(&ib).copied().collect())?;
        check_new("&A - &B", &a.set - &b.set, ia.difference(&ib).copied().collect())?;
        n += 4;
    }
    // assigning forms mutate A: fresh A each time
    for which in 0..4 {
        let mut a2 = mk_a(false);
        let (name, want): (&str, BTreeSet<u8>) = match which {
            0 => {
                a2.set |= &b.set;
                ("A |= &B", ia.union(&ib).copied().collect())
            }
            1 => {
                a2.set &= &b.set;
                ("A &= &B", ia.intersection(&ib).copied().collect())
            }
            2 => {
                a2.set ^= &b.set;
                ("A ^= &B", ia.symmetric_difference(&ib).copied().collect())
            }
            _ => {
                a2.set -= &b.set;
                ("A -= &B", ia.difference(&ib).copied().collect())
            }
        };
        let got: Vec<u8> = a2.set.iter().map(|k| k.id).collect();
        let gs = as_set(&got, name)?;
        if gs != want {
            return Err(format!("{name}: A = {:?}, B = {:?}: left {:?}, mathematical result {:?}", ia, ib, gs, want));
        }
        // resync the reference (clones have the source's tokens) and run the full state check
        a2.model = a2.set.iter().map(|k| (k.id, k.tok)).collect();
        a2.check_all(universe, false).map_err(|m| format!("after {name} (A = {:?}, B = {:?}): {m}", ia, ib))?;
        a2.finish().map_err(|m| format!("after {name}: {m}"))?;
        n += 1;
    }
    // clone_from(A <- B) and clone(): equal to the source, independently owned, hashing like the source
    {
        let mut a3 = mk_a(false);
        let b_serials: Vec<u32> = b.set.iter().map(|k| k.serial).collect();
        a3.set.clone_from(&b.set);
        if !(a3.set == b.set && b.set == a3.set) {
            return Err(format!("clone_from: target (was {:?}) does not compare equal to its source {:?}", ia, ib));
        }
        if a3.set.iter().any(|k| b_serials.contains(&k.serial)) {
            return Err("clone_from: target shares an element instance with the source".into());
        }
        a3.alt = b.alt;
        a3.model = b.model.clone();
        a3.check_all(universe, false).map_err(|m| format!("clone_from target (was {:?}, source {:?}): {m}", ia, ib))?;
        // independence, both directions
        let absent = (0..universe).find(|id| !ib.contains(id));
        let present = ib.iter().next().copied();
        if let Some(x) = absent {
            a3.set.insert(TKey::make(x, 900));
            a3.model.push((x, 900));
        }
        if let Some(p) = present {
            a3.set.remove(&KeyRef(p));
            let i = a3.mpos(p).unwrap();
            a3.model.swap_remove(i);
        }
        a3.check_all(universe, false).map_err(|m| format!("clone_from target after mutating it: {m}"))?;
        let c = b.set.clone();
        if !(c == b.set && b.set == c) || c.len() != ib.len() {
            return Err(format!("clone() of {:?} does not compare equal to it", ib));
        }
        let mut cs = SetSut { set: c, model: b.model.clone(), next_tok: 5000, class_of: b.class_of.clone(), base: Baseline::take(), alt: b.alt };
        cs.check_all(universe, false).map_err(|m| format!("clone() of {:?}: {m}", ib))?;
        if let Some(x) = absent {
            cs.set.insert(TKey::make(x, 901));
            cs.model.push((x, 901));
            cs.check_all(universe, false).map_err(|m| format!("clone() after an insertion: {m}"))?;
        }
        drop(cs.set);
        a3.finish().map_err(|m| format!("after clone_from: {m}"))?;
        n += 3;
    }
    // B must be untouched
    let mut b = b;
    b.check_all(universe, false).map_err(|m| format!("right-hand set after the operations: {m}"))?;
    b.finish().map_err(|m| format!("right-hand set: {m}"))?;
    let mut a = a;
    a.check_all(universe, false).map_err(|m| format!("left-hand set after the read-only operations: {m}"))?;
    a.finish().map_err(|m| format!("after read-only algebra: {m}"))?;
    Ok(n)
}

pub struct SetPairs {
    pub label: String,
    pub ha: SetHarness,
    pub hb: SetHarness,
    pub limits: Limits,
    pub max_states: usize,
    pub wall_cap: f64,
    /// scripted deep states (full load, tombstones) added to both state lists
    pub extra: Vec<Vec<SetOp>>,
}

impl SetPairs {
    fn explore(&self, h: &SetHarness, stats: &Stats) -> Outcome<SetOp> {
        explore::bfs(h, vec![vec![]], &self.limits, stats)
    }
    fn pair(&self, ha_hist: &[SetOp], hb_hist: &[SetOp]) -> Result<u64, String> {
        let st = Stats::default();
        let mk_a = |first: bool| {
            if first {
                let s = explore::replay(&self.ha, ha_hist, &st).expect("replay A");
                // plan_b must survive the reset done by A's init
                env::with(|e| e.plan_b = self.hb.plan);
                s
            } else {
                explore::replay_nested(&self.ha, ha_hist, &st).expect("replay A")
            }
        };
        let mk_b = || explore::replay_nested(&self.hb, hb_hist, &st).expect("replay B");
        match env::catch(|| check_pair(&mk_a, &mk_b, self.ha.cfg.universe.max(self.hb.cfg.universe))) {
            Ok(r) => r,
            Err(m) => Err(format!("unexpected panic: {m}")),
        }
    }
}

impl Config for SetPairs {
    fn label(&self) -> String {
        self.label.clone()
    }
    fn run(&self) -> ConfigReport {
        crate::crumbs::set_config(&self.label);
        let t0 = std::time::Instant::now();
        let sa = Stats::default();
        let oa = self.explore(&self.ha, &sa);
        if oa.violation.is_some() {
            return outcome_report(&self.label, "bfs(A)", &oa, &sa);
        }
        let sb = Stats::default();
        let same = self.ha.cfg.plan == self.hb.cfg.plan && !self.hb.cfg.alt_hasher;
        let ob = if same { None } else { Some(self.explore(&self.hb, &sb)) };
        if let Some(ob) = &ob {
            if ob.violation.is_some() {
                return outcome_report(&self.label, "bfs(B)", ob, &sb);
            }
        }
        let obr = ob.as_ref().unwrap_or(&oa);
        let na = oa.states.min(self.max_states);
        let nb = obr.states.min(self.max_states);
        let covered_all = na == oa.states && nb == obr.states;
        let mut hists_a: Vec<Vec<SetOp>> = (0..na).map(|i| oa.history(i)).collect();
        let mut hists_b: Vec<Vec<SetOp>> = (0..nb).map(|i| obr.history(i)).collect();
        hists_a.extend(self.extra.iter().cloned());
        hists_b.extend(self.extra.iter().cloned());
        let (na, nb) = (hists_a.len(), hists_b.len());
        let next = AtomicUsize::new(0);
        let stop = AtomicBool::new(false);
        let capped = AtomicBool::new(false);
        let checks = AtomicU64::new(0);
        let pairs = AtomicU64::new(0);
        let orderings = [AtomicU64::new(0), AtomicU64::new(0), AtomicU64::new(0)];
        let viol: Mutex<Option<(usize, Value, String)>> = Mutex::new(None);
        std::thread::scope(|sc| {
            for w in 0..explore::nthreads() {
                let (next, stop, capped, checks, pairs, viol, orderings, hists_a, hists_b) = (&next, &stop, &capped, &checks, &pairs, &viol, &orderings, &hists_a, &hists_b);
                sc.spawn(move || {
                    env::WORKER.with(|c| c.set(w));
                    loop {
                        if stop.load(Ordering::Relaxed) {
                            break;
                        }
                        if t0.elapsed().as_secs_f64() > self.wall_cap {
                            capped.store(true, Ordering::Relaxed);
                            break;
                        }
                        let i = next.fetch_add(1, Ordering::Relaxed);
                        if i >= na {
                            break;
                        }
                        for j in 0..nb {
                            let rp = json!({"a": hists_a[i], "b": hists_b[j]});
                            if j % 64 == 0 {
                                crate::crumbs::set_replay(&rp.to_string());
                            }
                            match self.pair(&hists_a[i], &hists_b[j]) {
                                Ok(n) => {
                                    checks.fetch_add(n, Ordering::Relaxed);
                                    pairs.fetch_add(1, Ordering::Relaxed);
                                    let (la, lb) = (hists_a[i].len(), hists_b[j].len());
                                    let _ = (la, lb);
                                }
                                Err(m) => {
                                    let mut v = viol.lock().unwrap();
                                    if v.as_ref().map_or(true, |x| i < x.0) {
                                        *v = Some((i, rp, m));
                                    }
                                    stop.store(true, Ordering::Relaxed);
                                    break;
                                }
                            }
                        }
                        let _ = orderings;
                    }
                    crate::crumbs::clear();
                });
            }
        });
        let mut rep = ConfigReport {
            label: self.label.clone(),
            mode: "pairs".into(),
            states: (oa.states + ob.as_ref().map_or(0, |o| o.states)) as u64,
            transitions: oa.transitions + ob.as_ref().map_or(0, |o| o.transitions),
            probes: checks.load(Ordering::Relaxed),
            executions: pairs.load(Ordering::Relaxed),
            exhaustive: !capped.load(Ordering::Relaxed) && oa.exhaustive && obr.exhaustive && covered_all,
            cap: if capped.load(Ordering::Relaxed) { Some(format!("wall cap {}s", self.wall_cap)) } else if !covered_all { Some(format!("first {na} x {nb} states")) } else { None },
            wall_s: t0.elapsed().as_secs_f64(),
            ..Default::default()
        };
        rep.detail = json!({
            "states_A": oa.states, "states_B": obr.states, "ordered_pairs_checked": pairs.load(Ordering::Relaxed),
            "algebra_checks": checks.load(Ordering::Relaxed),
            "plan_A": self.ha.cfg.plan.name(), "plan_B": self.hb.cfg.plan.name(),
            "mechanisms_A": sa.mech_map(),
            "distinct_nontrivial": pairs.load(Ordering::Relaxed),
        });
        if na > 1 && nb > 1 {
            rep.samples.push(json!({"a": hists_a[na - 1], "b": hists_b[nb / 2]}));
        }
        rep.samples.push(json!({"a": hists_a[na / 2], "b": hists_b[nb - 1]}));
        if let Some((_, rp, m)) = viol.into_inner().unwrap() {
            rep.violations.push(Viol { config: self.label.clone(), message: m, replay: rp });
        }
        rep
    }
    fn replay(&self, rp: &Value) -> Result<(), String> {
        if rp.get("history").is_some() {
            // violation of the single-set search
            let b = crate::report::BfsConfig::new(self.label.clone(), SetHarness::new(self.ha.cfg.clone()), Limits::default());
            return b.replay(rp);
        }
        let a: Vec<SetOp> = serde_json::from_value(rp["a"].clone()).map_err(|e| format!("MACHINERY: bad replay: {e}"))?;
        let b: Vec<SetOp> = serde_json::from_value(rp["b"].clone()).map_err(|e| format!("MACHINERY: bad replay: {e}"))?;
        self.pair(&a, &b).map(|_| ())
    }
}
