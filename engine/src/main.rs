#![allow(dead_code, unexpected_cfgs, clippy::all)]
mod crumbs;
mod env;
mod explore;
mod faults;
mod inv;
mod keys;
mod laysut;
mod mapentry;
mod mappairs;
mod mapprobes;
mod mapsut;
mod props;
mod report;
mod setsut;
mod setfaults;
mod tableprobes;
mod tablesut;
mod tablefaults;

use report::Tier;
use serde_json::{json, Value};
use std::time::Instant;

fn usage() -> ! {
    eprintln!("usage: hbmc run <Cxx> <quick|thorough> --out <part.json> [--crumbs <file>] [--only <label>]\n       hbmc replay <file>\n       hbmc list <Cxx> <tier>");
    std::process::exit(2)
}

fn main() {
    let args: Vec<String> = std::env::args().collect();
    if args.len() < 2 {
        usage();
    }
    env::install_panic_hook();
    if std::env::var("HBMC_ALLOC_PASSTHROUGH").is_ok() {
        env::PASSTHROUGH.store(true, std::sync::atomic::Ordering::Relaxed);
    }
    match args[1].as_str() {
        "run" => cmd_run(&args[2..]),
        "replay" => cmd_replay(&args[2..]),
        "list" => {
            let tier = if args.get(3).map(|s| s.as_str()) == Some("thorough") { Tier::Thorough } else { Tier::Quick };
            match props::configs(&args[2], tier) {
                Some(cs) => {
                    for c in cs {
                        println!("{}", c.label());
                    }
                }
                None => usage(),
            }
        }
        "backend" => println!("{}", props::backend()),
        "selftest" => selftest(),
        _ => usage(),
    }
}

fn opt(args: &[String], name: &str) -> Option<String> {
    args.iter().position(|a| a == name).and_then(|i| args.get(i + 1).cloned())
}

fn cmd_run(args: &[String]) {
    if args.len() < 2 {
        usage();
    }
    let prop = args[0].clone();
    let tier = match args[1].as_str() {
        "quick" => Tier::Quick,
        "thorough" => Tier::Thorough,
        _ => usage(),
    };
    let out = opt(args, "--out");
    let only = opt(args, "--only");
    crumbs::install(opt(args, "--crumbs").as_deref());
    let wd: u64 = std::env::var("VERIF_WATCHDOG_MS").ok().and_then(|s| s.parse().ok()).unwrap_or(90_000);
    crumbs::WATCHDOG_MS.store(wd, std::sync::atomic::Ordering::Relaxed);
    let cfgs = match props::configs(&prop, tier) {
        Some(c) => c,
        None => {
            eprintln!("unknown property {prop}");
            std::process::exit(2)
        }
    };
    let t0 = Instant::now();
    let mut reports = Vec::new();
    let mut nviol = 0usize;
    let mut machinery: Vec<String> = Vec::new();
    for c in cfgs {
        if let Some(o) = &only {
            if &c.label() != o {
                continue;
            }
        }
        let r = c.run();
        eprintln!(
            "[{} {} {}] {} mode={} states={} transitions={} probes={} exec={} exhaustive={} cap={:?} {:.1}s{}",
            prop,
            props::backend(),
            args[1],
            r.label,
            r.mode,
            r.states,
            r.transitions,
            r.probes,
            r.executions,
            r.exhaustive,
            r.cap,
            r.wall_s,
            if r.violations.is_empty() { String::new() } else { format!("  VIOLATIONS={}", r.violations.len()) }
        );
        nviol += r.violations.len();
        if let Some(m) = &r.machinery_error {
            machinery.push(format!("{}: {}", r.label, m));
        }
        let stop = !r.violations.is_empty();
        reports.push(r);
        if stop {
            break;
        }
    }
    let part = json!({
        "property_id": prop,
        "backend": props::backend(),
        "group_width": props::width(),
        "tier": args[1],
        "level": props::level_of(&prop),
        "wall_s": t0.elapsed().as_secs_f64(),
        "configs": reports.iter().map(|r| r.to_json()).collect::<Vec<Value>>(),
        "machinery_errors": machinery,
    });
    if let Some(o) = out {
        std::fs::write(&o, serde_json::to_string_pretty(&part).unwrap()).expect("cannot write evidence part");
    } else {
        println!("{}", serde_json::to_string_pretty(&part).unwrap());
    }
    for r in &reports {
        for v in &r.violations {
            println!("FOUND property={} backend={} config={} message={}", prop, props::backend(), v.config, v.message);
        }
    }
    if !machinery.is_empty() {
        for m in &machinery {
            eprintln!("MACHINERY ERROR: {m}");
        }
        std::process::exit(2);
    }
    std::process::exit(if nviol > 0 { 1 } else { 0 });
}

fn cmd_replay(args: &[String]) {
    if args.is_empty() {
        usage();
    }
    crumbs::install(None);
    crumbs::WATCHDOG_MS.store(90_000, std::sync::atomic::Ordering::Relaxed);
    let text = std::fs::read_to_string(&args[0]).expect("cannot read replay file");
    let v: Value = serde_json::from_str(&text).expect("replay file is not JSON");
    let prop = v["property"].as_str().expect("replay: no property").to_string();
    let label = v["config"].as_str().expect("replay: no config").to_string();
    if let Some(b) = v["backend"].as_str() {
        if b != props::backend() {
            eprintln!("replay file is for backend {b}, this binary is {}", props::backend());
            std::process::exit(2);
        }
    }
    for tier in [Tier::Quick, Tier::Thorough] {
        if let Some(cs) = props::configs(&prop, tier) {
            for c in cs {
                if c.label() == label {
                    crumbs::set_config(&label);
                    match c.replay(&v["replay"]) {
                        Ok(()) => {
                            println!("NOT-REPRODUCED property={prop} config={label}");
                            std::process::exit(0);
                        }
                        Err(m) if m.starts_with("MACHINERY") => {
                            println!("{m}");
                            std::process::exit(2);
                        }
                        Err(m) => {
                            println!("REPRODUCED property={prop} config={label} message={m}");
                            std::process::exit(1);
                        }
                    }
                }
            }
        }
    }
    eprintln!("no configuration labelled {label} for {prop}");
    std::process::exit(2);
}


/// Executable check of the symmetry argument (DESIGN 3.7): the canonical
/// states of the reduced search must equal the image of the unreduced search.
fn selftest() {
    use explore::{Harness, Limits, Stats};
    use keys::*;
    use mapsut::*;
    use std::collections::BTreeSet;
    let mut ok = true;
    for (plan, u) in [(Plan::Zero, 5u8), (Plan::Cluster(2), 5), (Plan::Last, 5), (Plan::Max, 4)] {
        let mk = |reduce: bool| {
            let mut c = MapCfg::new(plan, u);
            c.reduce = reduce;
            c.max_buckets = 32;
            MapHarness::<TKey, TVal>::new(c)
        };
        let (hr, hu) = (mk(true), mk(false));
        let st = Stats::default();
        let or = explore::bfs(&hr, vec![vec![]], &Limits::default(), &st);
        let ou = explore::bfs(&hu, vec![vec![]], &Limits::default(), &st);
        assert!(or.violation.is_none() && ou.violation.is_none() && or.exhaustive && ou.exhaustive);
        let reduced: BTreeSet<Vec<u8>> = or.canon_of.iter().cloned().collect();
        let mut image: BTreeSet<Vec<u8>> = BTreeSet::new();
        for i in 0..ou.states {
            let hist = ou.history(i);
            let sut = explore::replay(&hr, &hist, &st).expect("replay");
            image.insert(hr.canon(&sut));
            hr.finish(sut).expect("finish");
        }
        let same = reduced == image;
        println!(
            "SYMMETRY-SELF-TEST backend={} plan={} universe={} reduced_states={} unreduced_states={} image_of_unreduced={} {}",
            props::backend(), plan.name(), u, or.states, ou.states, image.len(), if same { "OK" } else { "MISMATCH" }
        );
        ok &= same;
    }
    // determinism: the same search twice gives the same numbering
    std::process::exit(if ok { 0 } else { 2 });
}
