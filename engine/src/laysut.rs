//! C02: memory safety across element layouts, with leaked (mem::forget)
//! iterators / drains / entries. A lean generic system over HashSet<L>,
//! HashMap<L, L> and HashTable<L> for a grid of element layouts.

use crate::env::{self, CheckAlloc};
use crate::explore::{Harness, Stats};
use crate::inv;
use crate::keys::*;
use crate::mapsut::{canon_of, classify, Baseline};
use hashbrown::{HashMap, HashSet, HashTable};
use serde::{Deserialize, Serialize};
use std::hash::{Hash, Hasher};
use std::marker::PhantomData;

/// An element layout. `Eq`/`Hash` by id. `id()` must be recoverable.
pub trait Lay: 'static + Sized + Eq + Hash {
    const NAME: &'static str;
    const MAX_IDS: u8;
    fn make(id: u8) -> Self;
    fn id(&self) -> u8;
    /// Some(serial) for layouts with drop glue
    fn serial(&self) -> Option<u32> {
        None
    }
    /// integrity of padding bytes (detects partial / misdirected writes)
    fn intact(&self) -> bool {
        true
    }
}

macro_rules! lay_common {
    ($t:ty) => {
        impl PartialEq for $t {
            fn eq(&self, o: &Self) -> bool {
                env::tick(env::Class::Eq);
                self.id() == o.id()
            }
        }
        impl Eq for $t {}
        impl Hash for $t {
            fn hash<H: Hasher>(&self, h: &mut H) {
                env::tick(env::Class::Hash);
                h.write_u8(self.id());
            }
        }
    };
}

/// size 0, align 1
#[derive(Clone, Copy)]
pub struct Z0;
impl Lay for Z0 {
    const NAME: &'static str = "size0-align1";
    const MAX_IDS: u8 = 1;
    fn make(_id: u8) -> Self {
        Z0
    }
    fn id(&self) -> u8 {
        0
    }
}
lay_common!(Z0);

/// size 1, align 1
#[derive(Clone, Copy)]
pub struct S1(pub u8);
impl Lay for S1 {
    const NAME: &'static str = "size1-align1";
    const MAX_IDS: u8 = 255;
    fn make(id: u8) -> Self {
        S1(id)
    }
    fn id(&self) -> u8 {
        self.0
    }
}
lay_common!(S1);

/// size 2, align 2
#[derive(Clone, Copy)]
#[repr(align(2))]
pub struct S2(pub u8, pub u8);
impl Lay for S2 {
    const NAME: &'static str = "size2-align2";
    const MAX_IDS: u8 = 255;
    fn make(id: u8) -> Self {
        S2(id, !id)
    }
    fn id(&self) -> u8 {
        self.0
    }
    fn intact(&self) -> bool {
        self.1 == !self.0
    }
}
lay_common!(S2);

/// size 3, align 1 (bucket array needs padding up to the control-byte alignment)
#[derive(Clone, Copy)]
pub struct S3(pub [u8; 3]);
impl Lay for S3 {
    const NAME: &'static str = "size3-align1";
    const MAX_IDS: u8 = 255;
    fn make(id: u8) -> Self {
        S3([id, !id, id ^ 0x3c])
    }
    fn id(&self) -> u8 {
        self.0[0]
    }
    fn intact(&self) -> bool {
        self.0[1] == !self.0[0] && self.0[2] == self.0[0] ^ 0x3c
    }
}
lay_common!(S3);

/// size 6, align 2
#[derive(Clone, Copy)]
pub struct S6(pub [u16; 3]);
impl Lay for S6 {
    const NAME: &'static str = "size6-align2";
    const MAX_IDS: u8 = 255;
    fn make(id: u8) -> Self {
        S6([id as u16, !(id as u16), 0x1234])
    }
    fn id(&self) -> u8 {
        self.0[0] as u8
    }
    fn intact(&self) -> bool {
        self.0[1] == !self.0[0] && self.0[2] == 0x1234 && (std::hint::black_box(self as *const Self) as usize) % 2 == 0
    }
}
lay_common!(S6);

/// size 0, align 16 (zero-sized but over-aligned: references must still be aligned)
#[derive(Clone, Copy)]
#[repr(align(16))]
pub struct Z16;
impl Lay for Z16 {
    const NAME: &'static str = "size0-align16";
    const MAX_IDS: u8 = 1;
    fn make(_id: u8) -> Self {
        Z16
    }
    fn id(&self) -> u8 {
        0
    }
    fn intact(&self) -> bool {
        (std::hint::black_box(self as *const Self) as usize) % 16 == 0
    }
}
lay_common!(Z16);

/// size 8, align 8
#[derive(Clone, Copy)]
pub struct S8(pub u64);
impl Lay for S8 {
    const NAME: &'static str = "size8-align8";
    const MAX_IDS: u8 = 255;
    fn make(id: u8) -> Self {
        S8(id as u64 * 0x0101_0101_0101_0101)
    }
    fn id(&self) -> u8 {
        self.0 as u8
    }
    fn intact(&self) -> bool {
        self.0 == (self.0 as u8) as u64 * 0x0101_0101_0101_0101
    }
}
lay_common!(S8);

/// size 24, align 8
#[derive(Clone, Copy)]
pub struct S24(pub [u64; 3]);
impl Lay for S24 {
    const NAME: &'static str = "size24-align8";
    const MAX_IDS: u8 = 255;
    fn make(id: u8) -> Self {
        S24([id as u64, !(id as u64), id as u64 ^ 0x55])
    }
    fn id(&self) -> u8 {
        self.0[0] as u8
    }
    fn intact(&self) -> bool {
        let i = self.0[0];
        self.0[1] == !i && self.0[2] == i ^ 0x55
    }
}
lay_common!(S24);

/// size 200, align 8, with drop glue (registered)
pub struct D200 {
    pub words: [u64; 24],
    pub serial: u32,
    pub id: u8,
}
impl Lay for D200 {
    const NAME: &'static str = "size200-align8-drop";
    const MAX_IDS: u8 = 255;
    fn make(id: u8) -> Self {
        D200 { words: [id as u64 ^ 0xA5A5; 24], serial: env::reg_new(), id }
    }
    fn id(&self) -> u8 {
        self.id
    }
    fn serial(&self) -> Option<u32> {
        Some(self.serial)
    }
    fn intact(&self) -> bool {
        self.words.iter().all(|&w| w == self.id as u64 ^ 0xA5A5)
    }
}
impl Drop for D200 {
    fn drop(&mut self) {
        env::reg_drop(self.serial);
    }
}
lay_common!(D200);

/// size 8, align 4, with drop glue
pub struct D8 {
    pub serial: u32,
    pub id: u8,
}
impl Lay for D8 {
    const NAME: &'static str = "size8-align4-drop";
    const MAX_IDS: u8 = 255;
    fn make(id: u8) -> Self {
        D8 { serial: env::reg_new(), id }
    }
    fn id(&self) -> u8 {
        self.id
    }
    fn serial(&self) -> Option<u32> {
        Some(self.serial)
    }
}
impl Drop for D8 {
    fn drop(&mut self) {
        env::reg_drop(self.serial);
    }
}
lay_common!(D8);

/// size 32, align 32 (> both group widths)
#[derive(Clone, Copy)]
#[repr(align(32))]
pub struct A32(pub u8, pub [u8; 7]);
impl Lay for A32 {
    const NAME: &'static str = "size32-align32";
    const MAX_IDS: u8 = 255;
    fn make(id: u8) -> Self {
        A32(id, [!id; 7])
    }
    fn id(&self) -> u8 {
        self.0
    }
    fn intact(&self) -> bool {
        self.1 == [!self.0; 7] && (std::hint::black_box(self as *const Self) as usize) % 32 == 0
    }
}
lay_common!(A32);

/// size 64, align 64
#[derive(Clone, Copy)]
#[repr(align(64))]
pub struct A64(pub u8);
impl Lay for A64 {
    const NAME: &'static str = "size64-align64";
    const MAX_IDS: u8 = 255;
    fn make(id: u8) -> Self {
        A64(id)
    }
    fn id(&self) -> u8 {
        self.0
    }
    fn intact(&self) -> bool {
        (std::hint::black_box(self as *const Self) as usize) % 64 == 0
    }
}
lay_common!(A64);

#[derive(Clone, Copy, Debug, PartialEq, Eq, Hash, Serialize, Deserialize)]
pub enum Coll {
    Set,
    Map,
    Table,
}

#[derive(Clone, Copy, Debug, PartialEq, Eq, Hash, Serialize, Deserialize)]
pub enum LOp {
    Insert(u8),
    Remove(u8),
    Clear,
    ReserveOne,
    ShrinkToFit,
}

/// What is leaked (mem::forget) after `j` steps.
#[derive(Clone, Copy, Debug, PartialEq, Eq, Hash, Serialize, Deserialize)]
pub enum Leak {
    Iter,
    IterMut,
    Drain,
    ExtractIfAll,
    ExtractIfEven,
    IntoIter,
    EntryOccupiedOrVacant,
}
pub const LEAKS: &[Leak] = &[Leak::Iter, Leak::IterMut, Leak::Drain, Leak::ExtractIfAll, Leak::ExtractIfEven, Leak::IntoIter, Leak::EntryOccupiedOrVacant];

pub enum C<L: Lay> {
    Set(HashSet<L, PlanBuild, CheckAlloc>),
    Map(HashMap<L, L, PlanBuild, CheckAlloc>),
    Table(HashTable<L, CheckAlloc>),
}

fn thash<L: Lay>(e: &L) -> u64 {
    plan_hash(e.id())
}

pub struct LaySut<L: Lay> {
    pub c: C<L>,
    pub model: Vec<u8>,
    pub base: Baseline,
}

impl<L: Lay> LaySut<L> {
    pub fn new(coll: Coll) -> Self {
        let base = Baseline::take();
        let c = match coll {
            Coll::Set => C::Set(HashSet::default()),
            Coll::Map => C::Map(HashMap::default()),
            Coll::Table => C::Table(HashTable::default()),
        };
        LaySut { c, model: Vec::new(), base }
    }
    pub fn dump(&self) -> hashbrown::verif::TableDump {
        match &self.c {
            C::Set(s) => s.verif_dump(),
            C::Map(m) => m.verif_dump(),
            C::Table(t) => t.verif_dump(),
        }
    }
    fn bucket_id(&self, i: usize) -> Option<u8> {
        match &self.c {
            C::Set(s) => s.verif_bucket(i).map(|e| e.id()),
            C::Map(m) => m.verif_bucket(i).map(|(k, _)| k.id()),
            C::Table(t) => t.verif_bucket(i).map(|e| e.id()),
        }
    }
    pub fn len(&self) -> usize {
        match &self.c {
            C::Set(s) => s.len(),
            C::Map(m) => m.len(),
            C::Table(t) => t.len(),
        }
    }
    pub fn capacity(&self) -> usize {
        match &self.c {
            C::Set(s) => s.capacity(),
            C::Map(m) => m.capacity(),
            C::Table(t) => t.capacity(),
        }
    }
    fn alloc_size(&self) -> usize {
        match &self.c {
            C::Set(s) => s.allocation_size(),
            C::Map(m) => m.allocation_size(),
            C::Table(t) => t.allocation_size(),
        }
    }
    pub fn insert(&mut self, id: u8) -> bool {
        match &mut self.c {
            C::Set(s) => s.insert(L::make(id)),
            C::Map(m) => m.insert(L::make(id), L::make(id)).is_none(),
            C::Table(t) => {
                if t.find(plan_hash(id), |e| e.id() == id).is_some() {
                    false
                } else {
                    t.insert_unique(plan_hash(id), L::make(id), thash);
                    true
                }
            }
        }
    }
    pub fn remove(&mut self, id: u8) -> bool {
        let probe = L::make(id);
        match &mut self.c {
            C::Set(s) => s.remove(&probe),
            C::Map(m) => m.remove(&probe).is_some(),
            C::Table(t) => match t.find_entry(plan_hash(id), |e| e.id() == id) {
                Ok(o) => {
                    o.remove();
                    true
                }
                Err(_) => false,
            },
        }
    }
    pub fn contains(&self, id: u8) -> bool {
        let probe = L::make(id);
        match &self.c {
            C::Set(s) => s.contains(&probe),
            C::Map(m) => m.contains_key(&probe),
            C::Table(t) => t.find(plan_hash(id), |e| e.id() == id).is_some(),
        }
    }
    /// ids and integrity of everything the collection yields
    pub fn yielded(&self) -> Result<Vec<u8>, String> {
        let mut v = Vec::new();
        let mut chk = |e: &L| -> Result<(), String> {
            if !e.intact() {
                return Err(format!("element {} ({}) has damaged padding or is misaligned", e.id(), L::NAME));
            }
            if let Some(s) = e.serial() {
                if !env::reg_is_live(s) {
                    return Err(format!("the collection yields element #{s} which is not live (dropped or garbage)"));
                }
            }
            Ok(())
        };
        let cap = self.model.len() + 8;
        match &self.c {
            C::Set(s) => {
                for e in s.iter().take(cap) {
                    chk(e)?;
                    v.push(e.id());
                }
            }
            C::Map(m) => {
                for (k, val) in m.iter().take(cap) {
                    chk(k)?;
                    chk(val)?;
                    if k.id() != val.id() {
                        return Err(format!("map entry pairs key {} with the value of key {}", k.id(), val.id()));
                    }
                    v.push(k.id());
                }
            }
            C::Table(t) => {
                for e in t.iter().take(cap) {
                    chk(e)?;
                    v.push(e.id());
                }
            }
        }
        v.sort_unstable();
        Ok(v)
    }
    pub fn check_all(&self, universe: u8, strict_alloc: bool) -> Result<(), String> {
        let d = self.dump();
        inv::check_structure(&d, inv::Which { lawful_hash: true }, &|i| self.bucket_id(i).map(plan_hash))?;
        if self.len() != self.model.len() {
            return Err(format!("len() = {} but the reference holds {}", self.len(), self.model.len()));
        }
        let got = self.yielded()?;
        let mut want = self.model.clone();
        want.sort_unstable();
        if got != want {
            return Err(format!("contents differ: yields {:?}, reference {:?}", got, want));
        }
        for id in 0..universe {
            if self.contains(id) != self.model.contains(&id) {
                return Err(format!("contains({id}) = {}, reference {}", self.contains(id), self.model.contains(&id)));
            }
            // hash-directed iteration must stay inside the table and yield live, intact elements
            if let C::Table(t) = &self.c {
                let mut n = 0;
                for e in t.iter_hash(plan_hash(id)) {
                    n += 1;
                    if n > self.model.len() + 4 {
                        return Err(format!("iter_hash of key {id} yields more elements than the table holds"));
                    }
                    if !e.intact() || !self.model.contains(&e.id()) {
                        return Err(format!("iter_hash of key {id} yielded an element that is not a stored, intact element (id {})", e.id()));
                    }
                    if let Some(s) = e.serial() {
                        if !env::reg_is_live(s) {
                            return Err(format!("iter_hash of key {id} yielded element #{s} which is not live"));
                        }
                    }
                }
            }
        }
        // the block must satisfy the alignment the layout demands
        if !d.is_singleton {
            let (size, align) = match &self.c {
                C::Set(_) => hashbrown::verif::table_layout_of::<(L, ())>(),
                C::Map(_) => hashbrown::verif::table_layout_of::<(L, L)>(),
                C::Table(_) => hashbrown::verif::table_layout_of::<L>(),
            };
            let _ = size;
            if d.ctrl_addr % hashbrown::verif::GROUP_WIDTH != 0 {
                return Err(format!("control bytes at {:#x} are not aligned to the group width", d.ctrl_addr));
            }
            if d.ctrl_addr % align.min(4096) != 0 && align > hashbrown::verif::GROUP_WIDTH {
                return Err(format!("control bytes / data end at {:#x} not aligned to the element alignment {align}", d.ctrl_addr));
            }
        }
        if strict_alloc {
            let a = self.alloc_size();
            let l = env::live_bytes() - self.base.live_bytes;
            if a != l {
                return Err(format!("allocation_size() = {a} but the allocator ledger holds {l} bytes"));
            }
        }
        env::alloc_check_from(self.base.block_idx)
    }
    pub fn finish(self, leaks_allowed: bool) -> Result<(), String> {
        let LaySut { c, base, .. } = self;
        drop(c);
        if leaks_allowed {
            let errs = env::take_errors();
            if !errs.is_empty() {
                return Err(errs.join("; "));
            }
            let r = env::alloc_check_from(base.block_idx);
            env::forgive_from(base.reg_idx, base.block_idx);
            r
        } else {
            crate::mapsut::end_of_run_checks(&base)
        }
    }
}

pub struct LayHarness<L: Lay> {
    pub coll: Coll,
    pub plan_kind: Plan,
    pub plan: [u64; 256],
    pub universe: u8,
    pub leak_probes: bool,
    /// C12: try_reserve over the amount grid x allocator behaviours in every state
    pub try_reserve_probes: bool,
    pub _p: PhantomData<fn() -> L>,
}
impl<L: Lay> LayHarness<L> {
    pub fn new(coll: Coll, plan: Plan, universe: u8, leak_probes: bool) -> Self {
        LayHarness { coll, plan_kind: plan, plan: plan.table(), universe: universe.min(L::MAX_IDS), leak_probes, try_reserve_probes: false, _p: PhantomData }
    }
    pub fn label(&self) -> String {
        format!("{:?}<{}>-{}-u{}", self.coll, L::NAME, self.plan_kind.name(), self.universe)
    }

    /// leak `what` after `j` steps on a fresh replay `s`, then keep using the collection
    fn leak_probe(&self, s: &mut LaySut<L>, what: Leak, j: usize) -> Result<(), String> {
        let n = s.model.len();
        let mut removed: Vec<u8> = Vec::new();
        let mut emptied = false;
        macro_rules! steps {
            ($it:expr, $id:expr) => {{
                let mut it = $it;
                for _ in 0..j {
                    match it.next() {
                        Some(x) => removed.push($id(&x)),
                        None => break,
                    }
                }
                std::mem::forget(it);
            }};
        }
        match (&mut s.c, what) {
            (C::Set(c), Leak::Iter) => {
                steps!(c.iter(), |e: &&L| e.id());
                removed.clear();
            }
            (C::Map(c), Leak::Iter) => {
                steps!(c.iter(), |e: &(&L, &L)| e.0.id());
                removed.clear();
            }
            (C::Table(c), Leak::Iter) => {
                steps!(c.iter(), |e: &&L| e.id());
                removed.clear();
            }
            (C::Set(_), Leak::IterMut) => return Ok(()),
            (C::Map(c), Leak::IterMut) => {
                steps!(c.iter_mut(), |e: &(&L, &mut L)| e.0.id());
                removed.clear();
            }
            (C::Table(c), Leak::IterMut) => {
                steps!(c.iter_mut(), |e: &&mut L| e.id());
                removed.clear();
            }
            (C::Set(c), Leak::Drain) => {
                steps!(c.drain(), |e: &L| e.id());
                emptied = true;
            }
            (C::Map(c), Leak::Drain) => {
                steps!(c.drain(), |e: &(L, L)| e.0.id());
                emptied = true;
            }
            (C::Table(c), Leak::Drain) => {
                steps!(c.drain(), |e: &L| e.id());
                emptied = true;
            }
            (C::Set(c), Leak::ExtractIfAll) => steps!(c.extract_if(|_| true), |e: &L| e.id()),
            (C::Map(c), Leak::ExtractIfAll) => steps!(c.extract_if(|_, _| true), |e: &(L, L)| e.0.id()),
            (C::Table(c), Leak::ExtractIfAll) => steps!(c.extract_if(|_| true), |e: &L| e.id()),
            (C::Set(c), Leak::ExtractIfEven) => steps!(c.extract_if(|e| e.id() % 2 == 0), |e: &L| e.id()),
            (C::Map(c), Leak::ExtractIfEven) => steps!(c.extract_if(|k, _| k.id() % 2 == 0), |e: &(L, L)| e.0.id()),
            (C::Table(c), Leak::ExtractIfEven) => steps!(c.extract_if(|e| e.id() % 2 == 0), |e: &L| e.id()),
            (_, Leak::IntoIter) => {
                let c = std::mem::replace(
                    &mut s.c,
                    match self.coll {
                        Coll::Set => C::Set(HashSet::default()),
                        Coll::Map => C::Map(HashMap::default()),
                        Coll::Table => C::Table(HashTable::default()),
                    },
                );
                match c {
                    C::Set(c) => steps!(c.into_iter(), |e: &L| e.id()),
                    C::Map(c) => steps!(c.into_iter(), |e: &(L, L)| e.0.id()),
                    C::Table(c) => steps!(c.into_iter(), |e: &L| e.id()),
                }
                emptied = true;
            }
            (C::Set(c), Leak::EntryOccupiedOrVacant) => {
                let id = (j as u8) % self.universe.max(1);
                std::mem::forget(c.entry(L::make(id)));
                removed.clear();
            }
            (C::Map(c), Leak::EntryOccupiedOrVacant) => {
                let id = (j as u8) % self.universe.max(1);
                std::mem::forget(c.entry(L::make(id)));
                std::mem::forget(c.raw_entry_mut().from_key(&L::make(id)));
                removed.clear();
            }
            (C::Table(c), Leak::EntryOccupiedOrVacant) => {
                let id = (j as u8) % self.universe.max(1);
                std::mem::forget(c.entry(plan_hash(id), |e| e.id() == id, thash));
                std::mem::forget(c.find_entry(plan_hash(id), |e| e.id() == id));
                removed.clear();
            }
        }
        if emptied {
            s.model.clear();
        } else {
            s.model.retain(|id| !removed.contains(id));
        }
        let _ = n;
        // still a valid collection that can be used and dropped normally
        s.check_all(self.universe, false).map_err(|m| format!("after leaking {:?} at step {j}: {m}", what))?;
        for id in 0..self.universe.min(3) {
            let r = s.insert(id);
            if r != !s.model.contains(&id) {
                return Err(format!("after leaking {:?} at step {j}: insert({id}) returned {r}", what));
            }
            if r {
                s.model.push(id);
            }
        }
        if let Some(&id) = s.model.first() {
            if !s.remove(id) {
                return Err(format!("after leaking {:?} at step {j}: remove({id}) failed", what));
            }
            s.model.retain(|&x| x != id);
        }
        s.check_all(self.universe, false).map_err(|m| format!("using the collection after leaking {:?} at step {j}: {m}", what))
    }
}

impl<L: Lay> LayHarness<L> {
    fn try_reserve_probe(&self, rebuild: &dyn Fn() -> LaySut<L>, sut: &mut LaySut<L>, stats: &Stats) -> Result<(), String> {
        use hashbrown::TryReserveError;
        let len = sut.len();
        let cap = sut.capacity();
        let d0 = sut.dump();
        let full_cap = hashbrown::verif::bucket_mask_to_capacity(d0.bucket_mask);
        let (size, ctrl_align) = match self.coll {
            Coll::Set => hashbrown::verif::table_layout_of::<(L, ())>(),
            Coll::Map => hashbrown::verif::table_layout_of::<(L, L)>(),
            Coll::Table => hashbrown::verif::table_layout_of::<L>(),
        };
        let w = hashbrown::verif::GROUP_WIDTH;
        let mut adds: Vec<usize> = (0..=2 * cap + 2).collect();
        for k in 2..64u32 {
            let b = ((1u128 << k) / 8 * 7) as usize;
            adds.extend([b.wrapping_sub(1), b, b.wrapping_add(1)]);
        }
        let sz = size.max(1);
        adds.extend([
            isize::MAX as usize - 1,
            isize::MAX as usize,
            isize::MAX as usize + 1,
            usize::MAX,
            usize::MAX - 1,
            usize::MAX - len,
            (usize::MAX - len).wrapping_add(1),
            usize::MAX / sz - 1,
            usize::MAX / sz,
            (usize::MAX / sz).wrapping_add(1),
            usize::MAX / 8,
            usize::MAX / 8 + 1,
            isize::MAX as usize / sz,
            isize::MAX as usize / sz + 1,
            isize::MAX as usize / sz / 2,
        ]);
        adds.sort_unstable();
        adds.dedup();
        let mut count = 0u64;
        // allocator behaviours: 0 serve (refusing only absurd sizes), 1 refuse the next request,
        // 2 serve and grant more than was asked for (size-class allocators do; the contract allows it)
        for behaviour in 0..3 {
            for &add in &adds {
                let mut s = rebuild();
                let before = s.dump();
                let before_blocks = env::live_blocks();
                env::with(|e| {
                    e.refused.clear();
                    e.requests.clear();
                    e.log_requests = true;
                    e.refuse_above = Some(1 << 20);
                    e.refuse_at = if behaviour == 1 { Some(0) } else { None };
                    e.over_return = behaviour == 2;
                });
                let r = env::catch(|| match &mut s.c {
                    C::Set(c) => c.try_reserve(add),
                    C::Map(c) => c.try_reserve(add),
                    C::Table(c) => c.try_reserve(add, thash),
                });
                let (refused, requests) = env::with(|e| {
                    e.log_requests = false;
                    e.refuse_above = None;
                    e.refuse_at = None;
                    e.over_return = false;
                    (std::mem::take(&mut e.refused), std::mem::take(&mut e.requests))
                });
                let what = format!("{:?}<{}>::try_reserve({add}) (len {len}, capacity {cap}{})", self.coll, L::NAME, if behaviour == 2 { ", allocator granting more than requested" } else { "" });
                let r = match r {
                    Ok(r) => r,
                    Err(m) => return Err(format!("{what} panicked: {m}")),
                };
                let new_items = len as u128 + add as u128;
                let expect: Result<Option<(usize, usize)>, ()> = if add <= cap - len {
                    Ok(None)
                } else if new_items > usize::MAX as u128 {
                    Err(())
                } else if new_items <= (full_cap / 2) as u128 {
                    Ok(None)
                } else {
                    match crate::mapprobes::ref_layout(new_items.max(full_cap as u128 + 1), size, ctrl_align, w) {
                        None => Err(()),
                        Some(l) => Ok(Some(l)),
                    }
                };
                for rq in &requests {
                    if !rq.1.is_power_of_two() || rq.0 > isize::MAX as usize - (rq.1 - 1) {
                        return Err(format!("{what} asked the allocator for an invalid layout {:?}", rq));
                    }
                }
                match (&r, &expect) {
                    (Ok(()), Ok(l)) => {
                        if !refused.is_empty() {
                            return Err(format!("{what} returned Ok although the allocator refused {:?}", refused));
                        }
                        if let Some(l) = l {
                            if requests.first() != Some(l) {
                                return Err(format!("{what} requested {:?}, reference layout {:?}", requests, l));
                            }
                        } else if !requests.is_empty() {
                            return Err(format!("{what} allocated {:?} although no allocation is needed", requests));
                        }
                        if s.capacity() < len + add {
                            return Err(format!("{what} = Ok but capacity() is {}", s.capacity()));
                        }
                    }
                    (Err(TryReserveError::CapacityOverflow), Err(())) => {}
                    (Err(TryReserveError::AllocError { layout }), Ok(Some(l))) => {
                        if refused.len() != 1 || refused[0] != (layout.size(), layout.align()) {
                            return Err(format!("{what}: AllocError carries {:?} but the allocator refused {:?}", layout, refused));
                        }
                        if (layout.size(), layout.align()) != *l {
                            return Err(format!("{what}: refused layout {:?}, reference {:?}", layout, l));
                        }
                    }
                    (got, want) => {
                        return Err(format!("{what} returned {:?}, reference expects {:?} [Err(()) = CapacityOverflow, Ok(Some(layout)) = allocation of layout]", got, want));
                    }
                }
                if r.is_err() {
                    if s.dump() != before {
                        return Err(format!("{what} failed but changed the table"));
                    }
                    if env::live_blocks() != before_blocks {
                        return Err(format!("{what} failed but changed the set of live allocations"));
                    }
                }
                s.check_all(self.universe, true).map_err(|m| format!("after {what} = {:?}: {m}", r))?;
                // the infallible counterpart: where try_reserve reports CapacityOverflow, reserve must panic with
                // the documented message (and nothing else may happen: no abort, no return, no change)
                if behaviour == 0 && expect == Err(()) {
                    crate::crumbs::touch();
                    let r2 = env::catch(|| match &mut s.c {
                        C::Set(c) => c.reserve(add),
                        C::Map(c) => c.reserve(add),
                        C::Table(c) => c.reserve(add, thash),
                    });
                    match r2 {
                        Ok(()) => return Err(format!("{:?}<{}>::reserve({add}) (len {len}) returned although the size is not representable", self.coll, L::NAME)),
                        Err(m) => {
                            if !m.contains("capacity overflow") {
                                return Err(format!("{:?}<{}>::reserve({add}) (len {len}) panicked with {m:?} instead of the capacity-overflow panic", self.coll, L::NAME));
                            }
                        }
                    }
                    if s.dump() != before {
                        return Err(format!("{:?}<{}>::reserve({add}) panicked and changed the table", self.coll, L::NAME));
                    }
                    s.check_all(self.universe, true).map_err(|m| format!("after the capacity-overflow panic of reserve({add}): {m}"))?;
                    if len == 0 && d0.is_singleton {
                        let r3 = env::catch(|| match self.coll {
                            Coll::Set => drop(HashSet::<L, PlanBuild, CheckAlloc>::with_capacity_and_hasher_in(add, PlanBuild::default(), CheckAlloc)),
                            Coll::Map => drop(HashMap::<L, L, PlanBuild, CheckAlloc>::with_capacity_and_hasher_in(add, PlanBuild::default(), CheckAlloc)),
                            Coll::Table => drop(HashTable::<L, CheckAlloc>::with_capacity_in(add, CheckAlloc)),
                        });
                        match r3 {
                            Ok(()) => return Err(format!("{:?}<{}>::with_capacity({add}) returned although the size is not representable", self.coll, L::NAME)),
                            Err(m) if !m.contains("capacity overflow") => return Err(format!("{:?}<{}>::with_capacity({add}) panicked with {m:?} instead of the capacity-overflow panic", self.coll, L::NAME)),
                            Err(_) => {}
                        }
                    }
                    count += 1;
                }
                s.finish(false).map_err(|m| format!("after {what}: {m}"))?;
                count += 1;
            }
        }
        stats.probe(count);
        Ok(())
    }
}

impl<L: Lay> Harness for LayHarness<L> {
    type Op = LOp;
    type Sut = LaySut<L>;
    fn init(&self) -> LaySut<L> {
        env::reset();
        env::set_plan(&self.plan);
        LaySut::new(self.coll)
    }
    fn init_nested(&self) -> LaySut<L> {
        LaySut::new(self.coll)
    }
    fn ops(&self, s: &LaySut<L>) -> Vec<LOp> {
        let mut v = Vec::new();
        for id in 0..self.universe {
            v.push(LOp::Insert(id));
            v.push(LOp::Remove(id));
        }
        v.push(LOp::Clear);
        // growing reserves only up to 4 groups, so that the space closes
        let d = s.dump();
        if d.is_singleton || d.bucket_mask + 1 < 4 * d.group_width {
            v.push(LOp::ReserveOne);
        }
        v.push(LOp::ShrinkToFit);
        v
    }
    fn apply(&self, s: &mut LaySut<L>, op: &LOp, checked: bool, stats: &Stats) -> Result<(), String> {
        let pre = if checked { Some(s.dump()) } else { None };
        match *op {
            LOp::Insert(id) => {
                let r = s.insert(id);
                let want = !s.model.contains(&id);
                if want {
                    s.model.push(id);
                }
                if checked && r != want {
                    return Err(format!("insert({id}) newly inserted = {r}, reference {want}"));
                }
            }
            LOp::Remove(id) => {
                let r = s.remove(id);
                let want = s.model.contains(&id);
                s.model.retain(|&x| x != id);
                if checked && r != want {
                    return Err(format!("remove({id}) = {r}, reference {want}"));
                }
            }
            LOp::Clear => {
                match &mut s.c {
                    C::Set(c) => c.clear(),
                    C::Map(c) => c.clear(),
                    C::Table(c) => c.clear(),
                }
                s.model.clear();
            }
            LOp::ReserveOne => match &mut s.c {
                C::Set(c) => c.reserve(c.capacity() - c.len() + 1),
                C::Map(c) => c.reserve(c.capacity() - c.len() + 1),
                C::Table(c) => c.reserve(c.capacity() - c.len() + 1, thash),
            },
            LOp::ShrinkToFit => match &mut s.c {
                C::Set(c) => c.shrink_to_fit(),
                C::Map(c) => c.shrink_to_fit(),
                C::Table(c) => c.shrink_to_fit(thash),
            },
        }
        if let Some(pre) = pre {
            classify(&pre, &s.dump(), stats);
        }
        Ok(())
    }
    fn check(&self, s: &mut LaySut<L>) -> Result<(), String> {
        s.check_all(self.universe, true)
    }
    fn canon(&self, s: &LaySut<L>) -> Vec<u8> {
        canon_of(&s.dump(), &|i| s.bucket_id(i))
    }
    fn finish(&self, s: LaySut<L>) -> Result<(), String> {
        s.finish(false)
    }
    fn probes(&self, rebuild: &dyn Fn() -> LaySut<L>, s: &mut LaySut<L>, stats: &Stats) -> Result<(), String> {
        if self.try_reserve_probes {
            self.try_reserve_probe(rebuild, s, stats)?;
        }
        if !self.leak_probes {
            return Ok(());
        }
        let n = s.model.len();
        let mut count = 0;
        for &what in LEAKS {
            for j in 0..=n + 1 {
                let mut f = rebuild();
                self.leak_probe(&mut f, what, j)?;
                f.finish(true).map_err(|m| format!("dropping the collection after leaking {:?} at step {j}: {m}", what))?;
                count += 1;
            }
        }
        // non-leaking consumption: j steps of an owning / draining iterator, then drop it
        for j in 0..=n + 1 {
            for kind in 0..3u8 {
                let mut f = rebuild();
                let want: Vec<u8> = {
                    let mut m = f.model.clone();
                    m.sort_unstable();
                    m
                };
                let mut got: Vec<u8> = Vec::new();
                macro_rules! consume {
                    ($it:expr, $id:expr) => {{
                        let mut it = $it;
                        for _ in 0..j {
                            match it.next() {
                                Some(x) => got.push($id(&x)),
                                None => break,
                            }
                        }
                        if kind == 2 {
                            it.for_each(|x| got.push($id(&x)));
                        } else {
                            drop(it);
                        }
                    }};
                }
                if kind == 0 {
                    match &mut f.c {
                        C::Set(c) => consume!(c.drain(), |e: &L| e.id()),
                        C::Map(c) => consume!(c.drain(), |e: &(L, L)| e.0.id()),
                        C::Table(c) => consume!(c.drain(), |e: &L| e.id()),
                    }
                } else {
                    let c = std::mem::replace(
                        &mut f.c,
                        match self.coll {
                            Coll::Set => C::Set(HashSet::default()),
                            Coll::Map => C::Map(HashMap::default()),
                            Coll::Table => C::Table(HashTable::default()),
                        },
                    );
                    match c {
                        C::Set(c) => consume!(c.into_iter(), |e: &L| e.id()),
                        C::Map(c) => consume!(c.into_iter(), |e: &(L, L)| e.0.id()),
                        C::Table(c) => consume!(c.into_iter(), |e: &L| e.id()),
                    }
                }
                f.model.clear();
                let what = ["drain", "into_iter", "into_iter + for_each"][kind as usize];
                got.sort_unstable();
                if kind == 2 && got != want {
                    return Err(format!("{what} after {j} steps yielded ids {:?}, reference {:?}", got, want));
                }
                if got.windows(2).any(|w| w[0] == w[1]) || got.iter().any(|g| !want.contains(g)) {
                    return Err(format!("{what}: {j} steps yielded ids {:?}, reference {:?}", got, want));
                }
                f.check_all(self.universe, false).map_err(|m| format!("after {what} dropped at step {j}: {m}"))?;
                f.finish(false).map_err(|m| format!("after {what} dropped at step {j}: {m}"))?;
                count += 1;
            }
        }
        stats.probe(count);
        Ok(())
    }
}
